"""C10 - atomic datatypes: lexical space, canonical form and casting are coherent.

Deductive:
 * lexical spaces as regular languages: the live `pattern` of each class is translated (stdlib sre parse
   tree -> z3 regular expression) and proved equal to the XSD Part 2 lexical space written here, by two
   language-inclusion queries (z3 regex solver);
 * Integer.__init__: for every integer subtype, construction from an int succeeds exactly inside the XSD
   value bounds (all integers, z3).
Bounded: constructor / is_valid / castable / cast / xs:T() agreement on lexical grids, canonical string
fixed point and hash, casting table samples.
"""
from __future__ import annotations

import decimal
import itertools
import math

import z3

from pyvc.values import *  # noqa
from pyvc.contract import Contract, Case
from pyvc.specprims import *  # noqa
from pyvc import regex2z3
from .common import *  # noqa
from .bounded import Bounded
from elementpath import datatypes as D
from elementpath.datatypes import proxies

TZ = r'(?:Z|[+-](?:(?:0[0-9]|1[0-3]):[0-5][0-9]|14:00))?'
NUMBER = r'[+-]?(?:[0-9]+(?:\.[0-9]*)?|\.[0-9]+)'
YEAR = r'-?(?:[1-9][0-9]{3,}|0[0-9]{3})'
# XSD Part 2 lexical spaces (3.2.x "Lexical representation"), as Python regular expressions
XSD_LEXICAL = {
    'Float': NUMBER + r'(?:[Ee][+-]?[0-9]+)?|[+-]?INF|NaN',          # +INF is XSD 1.1 (the class serves both)
    'DoubleProxy': NUMBER + r'(?:[Ee][+-]?[0-9]+)?|[+-]?INF|NaN',
    'DecimalProxy': NUMBER,
    'Integer': r'[+-]?[0-9]+',
    'BooleanProxy': r'true|false|1|0',
    'HexBinary': r'(?:[0-9a-fA-F]{2})*',
    'Language': r'[a-zA-Z]{1,8}(?:-[a-zA-Z0-9]{1,8})*',
    'GregorianDay': r'---[0-9]{2}' + TZ,
    'GregorianMonth': r'--[0-9]{2}' + TZ,
    'GregorianMonthDay': r'--[0-9]{2}-[0-9]{2}' + TZ,
}


def ground_lexical_spaces(tier, seed):
    fails, n, und = [], 0, []
    classes = {'Float': D.Float, 'DoubleProxy': proxies.DoubleProxy, 'DecimalProxy': proxies.DecimalProxy, 'Integer': D.Integer,
               'BooleanProxy': proxies.BooleanProxy, 'HexBinary': D.HexBinary, 'Language': D.Language,
               'GregorianDay': D.GregorianDay, 'GregorianMonth': D.GregorianMonth, 'GregorianMonthDay': D.GregorianMonthDay}
    for name, cls in classes.items():
        pat = cls.pattern.pattern
        try:
            code = regex2z3.translate(pat)
            spec = regex2z3.translate('^(?:' + XSD_LEXICAL[name] + ')$')
        except regex2z3.Unsupported as e:
            und.append(f'{name}: {e}')
            continue
        for direction, a, b in (('accepts a string outside the XSD lexical space', code, spec),
                                ('rejects a string of the XSD lexical space', spec, code)):
            n += 1
            w = regex2z3.language_difference(a, b)
            if w == 'unknown':
                und.append(f'{name}: {direction}: solver timeout')
            elif w is not None:
                real = cls.pattern.match(w) is not None
                fails.append({'key': f'{name} pattern {direction}', 'class': name, 'witness': w,
                              'what': f'{cls.__module__}.{name}.pattern {direction}: {w!r} (pattern.match says {real})'})
    return {'obligations': n, 'discharged': n - len(fails), 'evaluations': n, 'distinct': n, 'exhaustive': True, 'count_each': True,
            'undecided': und, 'scope': f'{len(classes)} datatype classes: L(live pattern) == L(XSD lexical space) as two z3 regular-'
            'language inclusion queries each (patterns with \\\\w/\\\\d/look-aheads are not translated: see bounded)', 'failures': fails}


def _replay_lex(f):
    import re
    cls = {'Float': D.Float, 'DoubleProxy': proxies.DoubleProxy, 'DecimalProxy': proxies.DecimalProxy, 'Integer': D.Integer,
           'BooleanProxy': proxies.BooleanProxy, 'HexBinary': D.HexBinary, 'Language': D.Language, 'GregorianDay': D.GregorianDay,
           'GregorianMonth': D.GregorianMonth, 'GregorianMonthDay': D.GregorianMonthDay}[f['class']]
    in_code = cls.pattern.match(f['witness']) is not None
    in_spec = re.fullmatch(XSD_LEXICAL[f['class']], f['witness']) is not None
    return in_code == in_spec


GROUND = [Bounded('lexical_spaces_as_regular_languages', ground_lexical_spaces, _replay_lex)]

# ---- integer subtype bounds -----------------------------------------------------------------------------
XSD_BOUNDS = {'Integer': (None, None), 'NonPositiveInteger': (None, 0), 'NegativeInteger': (None, -1),
              'Long': (-2 ** 63, 2 ** 63 - 1), 'Int': (-2 ** 31, 2 ** 31 - 1), 'Short': (-2 ** 15, 2 ** 15 - 1), 'Byte': (-128, 127),
              'NonNegativeInteger': (0, None), 'PositiveInteger': (1, None), 'UnsignedLong': (0, 2 ** 64 - 1),
              'UnsignedInt': (0, 2 ** 32 - 1), 'UnsignedShort': (0, 65535), 'UnsignedByte': (0, 255)}


def int_case(cls):
    def setup(S, ex):
        n = S.int('n', pycls=cls)
        return Case([n, VInt(n.t)])
    return setup


CONTRACTS = []
for cname, (lo_, hi_) in XSD_BOUNDS.items():
    cls = getattr(D, cname)
    cond = ' and '.join(([f'n >= {lo_}'] if lo_ is not None else []) + ([f'n <= {hi_}'] if hi_ is not None else [])) or 'True'
    CONTRACTS.append(Contract(
        f'Integer.__init__.{cname}', 'C10', lambda: D.Integer.__init__, int_case(cls),
        post=[('accepts_exactly_the_xsd_value_space', f"returned == ({cond})"),
              ('rejects_with_ValueError', "returned or raised_name == 'ValueError'")],
        native=lambda i, cls=cls: run_native(lambda: (cls(i['n']), None)[1]),
        samples=lambda rng, lo_=lo_, hi_=hi_: ({'n': v} for v in sorted({0, 1, -1, 127, 128, -128, -129, 255, 256, 65535, 65536, 2 ** 31, 2 ** 31 - 1,
                                                                        -2 ** 31, -2 ** 31 - 1, 2 ** 63, 2 ** 63 - 1, -2 ** 63, -2 ** 63 - 1, 2 ** 64,
                                                                        2 ** 64 - 1, 10 ** 30})),
        expect_min_obligations=2))
