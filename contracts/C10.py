"""C10 - atomic datatypes: lexical space, canonical form and casting are coherent.

Deductive:
 * lexical spaces as regular languages: the live `pattern` of each class is translated (stdlib sre parse
   tree -> z3 regular expression) and proved equal to the XSD Part 2 lexical space written here, by two
   language-inclusion queries (z3 regex solver);
 * Integer.__init__: for every integer subtype, construction from an int succeeds exactly inside the XSD
   value bounds (all integers, z3).
Bounded: constructor / is_valid / castable / cast / xs:T() agreement on lexical grids, canonical string
fixed point and hash, casting table samples.
"""
from __future__ import annotations

import decimal
import itertools
import math

import z3

from pyvc.values import *  # noqa
from pyvc.contract import Contract, Case
from pyvc.specprims import *  # noqa
from pyvc import regex2z3
from .common import *  # noqa
from .bounded import Bounded
from elementpath import datatypes as D
from elementpath.datatypes import proxies

TZ = r'(?:Z|[+-](?:(?:0[0-9]|1[0-3]):[0-5][0-9]|14:00))?'
NUMBER = r'[+-]?(?:[0-9]+(?:\.[0-9]*)?|\.[0-9]+)'
YEAR = r'-?(?:[1-9][0-9]{3,}|0[0-9]{3})'
# XSD Part 2 lexical spaces (3.2.x "Lexical representation"), as Python regular expressions
XSD_LEXICAL = {
    'Float': NUMBER + r'(?:[Ee][+-]?[0-9]+)?|[+-]?INF|NaN',          # +INF is XSD 1.1 (the class serves both)
    'DoubleProxy': NUMBER + r'(?:[Ee][+-]?[0-9]+)?|[+-]?INF|NaN',
    'DecimalProxy': NUMBER,
    'Integer': r'[+-]?[0-9]+',
    'BooleanProxy': r'true|false|1|0',
    'HexBinary': r'(?:[0-9a-fA-F]{2})*',
    'Language': r'[a-zA-Z]{1,8}(?:-[a-zA-Z0-9]{1,8})*',
    'GregorianDay': r'---[0-9]{2}' + TZ,
    'GregorianMonth': r'--[0-9]{2}' + TZ,
    'GregorianMonthDay': r'--[0-9]{2}-[0-9]{2}' + TZ,
}


from . import xsd_oracle as _O
_D2, _YL = '[0-9]{2}', '-?[0-9]{4,}'
_TZ = _O.TZ + '?'
_TL = f'{_D2}:{_D2}:{_D2}(?:\\.[0-9]+)?'
# class -> (regular language that must be accepted, regular language that must not be exceeded); equal = exact lexical space.
# For the date/time classes the pattern only fixes the shape (two-digit fields): ranges are enforced by the constructor
# (lexical_space_grid), so the upper bound is the XSD shape with unconstrained digits.
LEX_LANGS = {
    'Float': (D.Float, XSD_LEXICAL['Float'], None), 'DoubleProxy': (proxies.DoubleProxy, XSD_LEXICAL['DoubleProxy'], None),
    'DecimalProxy': (proxies.DecimalProxy, XSD_LEXICAL['DecimalProxy'], None), 'Integer': (D.Integer, XSD_LEXICAL['Integer'], None),
    'BooleanProxy': (proxies.BooleanProxy, XSD_LEXICAL['BooleanProxy'], None), 'HexBinary': (D.HexBinary, XSD_LEXICAL['HexBinary'], None),
    'Language': (D.Language, XSD_LEXICAL['Language'], None),
    'GregorianDay': (D.GregorianDay, _O.LEXICAL['gDay'], f'---{_D2}{_TZ}'), 'GregorianMonth': (D.GregorianMonth, _O.LEXICAL['gMonth'], f'--{_D2}{_TZ}'),
    'GregorianMonthDay': (D.GregorianMonthDay, _O.LEXICAL['gMonthDay'], f'--{_D2}-{_D2}{_TZ}'),
    'GregorianYear': (D.GregorianYear, _O.LEXICAL['gYear'], f'{_YL}{_TZ}'),
    'GregorianYearMonth': (D.GregorianYearMonth, _O.LEXICAL['gYearMonth'], f'{_YL}-{_D2}{_TZ}'),
    'Date': (D.Date, _O.LEXICAL['date'], f'{_YL}-{_D2}-{_D2}{_TZ}'), 'Time': (D.Time, _O.LEXICAL['time'], f'{_TL}{_TZ}'),
    'DateTime': (D.DateTime, _O.LEXICAL['dateTime'], f'{_YL}-{_D2}-{_D2}T{_TL}{_TZ}'),
    'DateTimeStamp': (D.DateTimeStamp, _O.LEXICAL['dateTimeStamp'], f'{_YL}-{_D2}-{_D2}T{_TL}{_O.TZ}'),
    'Duration': (D.Duration, _O.LEXICAL['duration'], None),
    'Base64Binary': (D.Base64Binary, _O.LEXICAL['base64Binary'], None),
    'NCName': (D.NCName, _O.LEXICAL['NCName'], None), 'Name': (D.Name, _O.LEXICAL['Name'], None), 'NMToken': (D.NMToken, _O.LEXICAL['NMTOKEN'], None),
    'QName': (D.QName, _O.LEXICAL['QName'], None),
    'XsdToken': (D.XsdToken, r'[^ \t\n\r]+(?: [^ \t\n\r]+)*|', None), 'NormalizedString': (D.NormalizedString, r'[^\t\n\r]*', None),
}


def ground_lexical_spaces(tier, seed):
    fails, n, und = [], 0, []
    for name, (cls, lower, upper) in LEX_LANGS.items():
        pat = cls.pattern.pattern
        if not pat.startswith('^'):
            pat = '^(?:' + pat + ')$'          # Base64Binary.validate compares match.group(0) with the whole value
        try:
            code = regex2z3.translate(pat)
            lo = regex2z3.translate('^(?:' + lower + ')$')
            hi = regex2z3.translate('^(?:' + upper + ')$') if upper else lo
        except regex2z3.Unsupported as e:
            und.append(f'{name}: {e}')
            continue
        for direction, a, b in (('accepts a string outside the XSD lexical ' + ('shape' if upper else 'space'), code, hi),
                                ('rejects a string of the XSD lexical space', lo, code)):
            n += 1
            w = regex2z3.language_difference(a, b, ascii_only=True)
            if w == 'unknown':
                und.append(f'{name}: {direction}: solver timeout')
            elif w is not None:
                fails.append({'key': f'{name} pattern {direction}', 'class': name, 'witness': w, 'lower': direction.startswith('rejects'),
                              'what': f'{cls.__module__}.{name}.pattern {direction}: {w!r}'})
    return {'obligations': n, 'discharged': n - len(fails), 'evaluations': n, 'distinct': n, 'exhaustive': True, 'count_each': True,
            'undecided': und, 'scope': f'{len(LEX_LANGS)} datatype classes: L(XSD lexical space) <= L(live pattern) <= L(XSD lexical shape) over all ASCII '
            'strings, as z3 regular-language inclusion queries on the translated stdlib parse tree of the live pattern (look-aheads as intersections; '
            '\\d \\w \\s read on ASCII: non-ASCII name characters are outside these obligations)', 'failures': fails}


def _replay_lex(f):
    import re
    cls, lower, upper = LEX_LANGS[f['class']]
    w = f['witness']
    m = cls.pattern.match(w)
    in_code = m is not None and (cls.pattern.pattern.startswith('^') or m.group(0) == w)
    if f.get('lower'):
        return in_code or re.fullmatch(lower, w) is None
    return not in_code or re.fullmatch(upper or lower, w) is not None


GROUND = [Bounded('lexical_spaces_as_regular_languages', ground_lexical_spaces, _replay_lex)]

# ---- integer subtype bounds -----------------------------------------------------------------------------
XSD_BOUNDS = {'Integer': (None, None), 'NonPositiveInteger': (None, 0), 'NegativeInteger': (None, -1),
              'Long': (-2 ** 63, 2 ** 63 - 1), 'Int': (-2 ** 31, 2 ** 31 - 1), 'Short': (-2 ** 15, 2 ** 15 - 1), 'Byte': (-128, 127),
              'NonNegativeInteger': (0, None), 'PositiveInteger': (1, None), 'UnsignedLong': (0, 2 ** 64 - 1),
              'UnsignedInt': (0, 2 ** 32 - 1), 'UnsignedShort': (0, 65535), 'UnsignedByte': (0, 255)}


def int_case(cls):
    def setup(S, ex):
        n = S.int('n', pycls=cls)
        return Case([n, VInt(n.t)])
    return setup


CONTRACTS = []
for cname, (lo_, hi_) in XSD_BOUNDS.items():
    cls = getattr(D, cname)
    cond = ' and '.join(([f'n >= {lo_}'] if lo_ is not None else []) + ([f'n <= {hi_}'] if hi_ is not None else [])) or 'True'
    CONTRACTS.append(Contract(
        f'Integer.__init__.{cname}', 'C10', lambda: D.Integer.__init__, int_case(cls),
        post=[('accepts_exactly_the_xsd_value_space', f"returned == ({cond})"),
              ('rejects_with_ValueError', "returned or raised_name == 'ValueError'")],
        native=lambda i, cls=cls: run_native(lambda: (cls(i['n']), None)[1]),
        samples=lambda rng, lo_=lo_, hi_=hi_: ({'n': v} for v in sorted({0, 1, -1, 127, 128, -128, -129, 255, 256, 65535, 65536, 2 ** 31, 2 ** 31 - 1,
                                                                        -2 ** 31, -2 ** 31 - 1, 2 ** 63, 2 ** 63 - 1, -2 ** 63, -2 ** 63 - 1, 2 ** 64,
                                                                        2 ** 64 - 1, 10 ** 30})),
        expect_min_obligations=2))


# ======================================================================================================
# Bounded stand-ins (never counted as proved): lexical grids, canonical fixed points, casting agreement
# ======================================================================================================
from . import xsd_oracle as O
from elementpath.datatypes import builtin_atomic_types as BUILTIN

LEX_SEEDS = list(dict.fromkeys([
    '', ' ', '0', '1', '-1', '+1', '00', '007', '-0', '+0', '1.', '.1', '1.0', '-1.50', '+.5', '.', '+', '-', '1e3', '1E3', '1e', 'e1', '1.5e-3',
    '.5E+2', '1e+', 'INF', '-INF', '+INF', 'NaN', 'inf', 'nan', '-nan', '+NaN', 'Infinity', 'infinity', '-inf', 'NAN', '1_000', '1_0.5', '0x10', '١', '１',
    '1 0', 'true', 'false', 'True', 'TRUE', 'yes', '2', '127', '128', '-128', '-129', '255', '256', '32767', '32768', '-32768', '-32769', '65535',
    '65536', '2147483647', '2147483648', '-2147483648', '-2147483649', '4294967295', '4294967296', '9223372036854775807', '9223372036854775808',
    '-9223372036854775808', '-9223372036854775809', '18446744073709551615', '18446744073709551616', '-0000', '+00001', '1e400', '1e-400',
    '3.5e38', '1e39', '0.1', '1e-7', '0.0000001', '0.00000001234', '-0.0000005', '1E-7', '1E+3', '1e6', '1e21', '123456.789', '0.000001', '1.5e300', '12345678901234567890.123456789',
    '0A', '0a1B', 'A', 'G0', '0 A', 'FFFF', 'abcd==', 'YQ==', 'YWI=', 'YWJj', 'Y Q = =', 'YQ=', 'YR==', 'YWJ=', 'YWJj YWJj', '====', 'YQ', 'a', 'ab',
    'a-b', 'en', 'en-US', 'en-', '-en', 'abcdefghi', 'en-abcdefghi', 'x-1', '1x', 'a:b', ':a', 'a:', 'a:b:c', '_a', '-a', '.a', 'a.b', 'a b', 'é',
    'a·', '·a', '×', 'a×', 'aé', 'xml:lang', '1a', 'a1',
    '2000-01-01', '2000-1-1', '2000-13-01', '2000-00-10', '2000-02-30', '2000-02-29', '1900-02-29', '2001-02-29', '2004-02-29', '0000-01-01',
    '-0001-01-01', '-0001-02-29', '-0004-02-29', '-0005-02-29', '0000-02-29', '02000-01-01', '10000-01-01', '12000-02-29', '12001-02-29',
    '-10000-01-01', '200-01-01', '2000-01-32', '2000-04-31', '2000-01-01Z', '2000-01-01z', '2000-01-01+14:00', '2000-01-01+14:01',
    '2000-01-01-14:00', '2000-01-01+13:59', '2000-01-01+13:60', '2000-01-01+1:00', '2000-01-01+01', '2000-01-01T00:00:00', '2000-01-01T24:00:00',
    '2000-01-01T24:00:01', '2000-01-01T24:00:00.0', '2000-01-01T24:00:00.1', '2000-01-01T23:59:60', '2000-01-01T23:60:00', '2000-01-01T25:00:00',
    '2000-01-01T12:00:00.123456789', '2000-01-01T12:00:00.', '2000-01-01T12:00', '2000-01-01 12:00:00', '2000-01-01t12:00:00',
    '2000-01-01T12:00:00Z', '2000-01-01T12:00:00+05:30', '2000-01-01T12:00:00-00:00', '2000-01-01T12:00:00-00:30', '2000-01-01T12:00:00+00:30', '2000-01-01T12:00:00-00:01',
    '2000-01-01T12:00:00-14:00', '2000-01-01-00:30', '2000-01-01+00:00', '12:00:00-00:30', '12:00:00-00:59', '2000-00:30', '2000-01-00:30', '--01-01-00:30', '--01-00:30', '---01-00:30',
    '2000-01-01T12:00:00-00:60', '12:00:00-0030', '12:00:00-00:3', '9999-12-31T23:59:59.999999', '9999-12-31T24:00:00',
    '0000-01-01T00:00:00', '2000-02-30T00:00:00', '12:00:00', '24:00:00', '24:00:00.000', '24:00:01', '12:00:00.5', '12:00:00Z', '12:00', '1:00:00',
    '12:00:00+14:00', '23:59:59.9999999', '2000', '2000Z', '0000', '-0001', '20000', '02000', '200', '2000-01', '2000-13', '2000-00', '0000-01',
    '2000-01Z', '--01', '--13', '--00', '--01Z', '--1', '--01--', '---01', '---31', '---32', '---00', '---1', '---01Z', '---01+05:00', '--01-01',
    '--02-29', '--02-30', '--04-31', '--13-01', '--01-32', '--01-00', '--12-31Z',
    'P1Y', 'P', 'PT', 'P1', '1Y', '-P1Y', '+P1Y', 'P-1Y', 'P1Y2M', 'P1M', 'P1D', 'PT1H', 'PT1M', 'PT1S', 'PT1.5S', 'PT1.S', 'PT.5S', 'P1YT',
    'P1Y2M3DT4H5M6.7S', 'P1M1Y', 'P1DT', 'PT1H1S', 'P1Y1D', 'P1.5Y', 'P1H', 'PT1Y', 'PT1D', 'p1y', 'P1S', 'P0Y', 'PT0S', '-PT0S', 'P1W', 'PT1M1H',
    'P1DT1H', 'P13M', 'PT36H', 'PT1.000000S', 'P0M', 'P0D', 'P0Y0M', 'P1Y0D', 'P0DT1H',
    'x\ty', 'x\ny', ' x ', 'x  y', '\tx', 'x\r', ' 1 ', '\n1\n', ' true ', ' 2000-01-01 ', ' P1Y ', ' 0A ', ' YQ== ', ' en ', ' a:b ', '1 ', ' INF',
    '\x0c1', '1\x0b', ' 1', '\xa01', '\x851', '\x0b0A', '0A\x0c', '\xa00A', '\u20030A', '0A\u2003', '0A\x1f', '\x0bYQ==', 'YQ==\xa0', 'YQ==\u2003', '\x0c2000-01-01', 'P1Y\x0b', 'true\xa0',
    '\u2003en', 'x\x0b', '12:00:00\x0c', '\x0b2000', '--01\xa0', '\x1c1', '1\x1d', '\x1e0A', 'YQ==\x1f',
    '2000-01-01\xa0', '\u20032000-01-01T00:00:00', '12:00:00\xa0', '2000\xa0', '2000-01\u2003', '---01\xa0', '--01-01\xa0', 'P1Y\xa0', '\u2003PT1S', 'P1M\xa0', 'P1D\u2003',
    '1\xa0', '\u20031.5', 'a:b\xa0', '\xa0x', 'INF\xa0']))

TYPE_NAMES = sorted(k[3:] for k in BUILTIN if k.startswith('xs:') and k[3:] not in ('anyAtomicType', 'error', 'NOTATION'))
NS = {'a': 'urn:a', 'xml': 'http://www.w3.org/XML/1998/namespace'}


def _make(tname, s, xsd_version):
    cls = BUILTIN['xs:' + tname]
    if tname == 'QName':
        from elementpath.datatypes import QName
        from elementpath.namespaces import get_expanded_name          # noqa
        raise LookupError('QName needs the static namespaces: covered by the casting grid')
    return cls.make(s, xsd_version=xsd_version)


def _accepts(thunk):
    try:
        thunk()
        return True
    except (ValueError, TypeError, ArithmeticError):
        return False
    except Exception as e:       # noqa - anything else escaping a constructor is reported as such
        return 'raises ' + type(e).__name__


def lexical_grid(tier, seed):
    fails, n, fam = [], 0, {}
    for v in ('1.0', '1.1'):
        for tn in TYPE_NAMES:
            if tn == 'QName':
                continue
            cls = BUILTIN['xs:' + tn]
            for s in LEX_SEEDS:
                norm = O.normalise(tn, s)
                spec = O.in_lexical_space(tn, norm, v)
                if spec is None:
                    continue
                n += 1
                got = _accepts(lambda: cls.make(s, xsd_version=v))
                if got != spec:
                    k = f"xs:{tn} constructor {'accepts' if got is True else 'rejects' if got is False else got} a string " \
                        f"{'outside' if not spec else 'of'} the lexical space"
                    fam.setdefault(k, []).append({'type': tn, 'xsd': v, 's': s, 'kind': 'ctor', 'spec': spec})
                if v == '1.1':          # validate / is_valid on every string: they apply the whitespace normalisation of the type like the constructor
                    n += 1
                    iv = _accepts(lambda: cls.validate(s))
                    if iv != spec:
                        k = f"xs:{tn}.is_valid {'accepts' if iv is True else 'rejects' if iv is False else iv} a string " \
                            f"{'outside' if not spec else 'of'} the lexical space"
                        fam.setdefault(k, []).append({'type': tn, 'xsd': v, 's': s, 'kind': 'is_valid', 'spec': spec})
    for k, items in fam.items():
        fails.append({'key': k, 'items': items[:8], 'count': len(items), 'what': f"{k}: e.g. {items[0]['s']!r} (XSD {items[0]['xsd']}), "
                      f"{len(items)} grid strings"})
    return {'evaluations': n, 'distinct': n, 'exhaustive': False,
            'scope': f'{len(LEX_SEEDS)} valid and near-valid lexical forms x {len(TYPE_NAMES) - 1} built-in types x XSD 1.0/1.1: T.make(s) succeeds iff '
            'normalise_T(s) is in the XSD lexical space (oracle: contracts/xsd_oracle.py); is_valid on the same strings (XSD 1.1)',
            'failures': fails}


def _replay_lex_grid(f):
    for it in f['items']:
        cls = BUILTIN['xs:' + it['type']]
        if it['kind'] == 'ctor':
            got = _accepts(lambda: cls.make(it['s'], xsd_version=it['xsd']))
        else:
            got = _accepts(lambda: cls.validate(it['s']))
        if got != it['spec']:
            return False
    return True


BOUNDED = [Bounded('lexical_space_grid', lexical_grid, _replay_lex_grid)]


# ---- canonical strings: fixed point, equality and hash ---------------------------------------------------
def _tok(version='3.1', xsd_version='1.1'):
    return PARSERS[version](namespaces=NS, xsd_version=xsd_version).parse('.')


def _same(a, b):
    if isinstance(a, float) and isinstance(b, float) and math.isnan(a) and math.isnan(b):
        return True
    return type(a) is type(b) and a == b and not (a != b)


def _double_deviation(x, c, want):
    """Classify a non-canonical xs:double string (the pinned suite fixes Python's repr switch points)."""
    import re as _re
    m = _re.fullmatch(r'(-?[0-9]+)(\.[0-9]+)?E(-?)0*([0-9]+)', c)
    if m and 'E' in want and f"{m.group(1)}{m.group(2) or '.0'}E{m.group(3)}{m.group(4)}" == want:
        return 'prints an integer mantissa without ".0" or a zero-padded exponent (1E99, 1E-07)'
    try:
        same = float(c) == x
    except ValueError:
        same = False
    if same and 1e6 <= abs(x) < 1e16 and 'E' not in c:
        return 'uses decimal notation for 1e6 <= |x| < 1e16'
    if same and 1e-6 <= abs(x) < 1e-4 and 'E' in c:
        return 'uses E-notation for 1e-6 <= |x| < 1e-4'
    return 'is not the canonical representation of F&O 19.1.2'


def canonical_grid(tier, seed):
    tok = _tok()
    fam, n = {}, 0

    def bad(k, **w):
        fam.setdefault(k, []).append(w)
    for tn in TYPE_NAMES:
        if tn == 'QName':
            continue
        cls = BUILTIN['xs:' + tn]
        for s in LEX_SEEDS:
            if O.in_lexical_space(tn, O.normalise(tn, s), '1.1') is not True:
                continue
            try:
                v = cls.make(s, xsd_version='1.1')
            except Exception:      # noqa - reported by the lexical grid
                continue
            n += 1
            c = tok.string_value(v)
            try:
                v2 = cls.make(c, xsd_version='1.1')
            except Exception as e:     # noqa
                bad(f'xs:{tn}: the canonical string is not accepted by the constructor', type=tn, s=s, canonical=c, err=type(e).__name__)
                continue
            c2 = tok.string_value(v2)
            if c2 != c:
                bad(f'xs:{tn}: the canonical string is not a fixed point', type=tn, s=s, canonical=c, again=c2)
            if not _same(v, v2):
                bad(f'xs:{tn}: the canonical string re-parses to a different value', type=tn, s=s, canonical=c)
            else:
                try:
                    if hash(v) != hash(v2):
                        bad(f'xs:{tn}: equal values have different hashes', type=tn, s=s, canonical=c)
                except TypeError:
                    pass
            # oracles for the canonical form itself
            if tn == 'double':
                want = O.double_to_string(float(v))
                if c != want:
                    bad('xs:double: string() ' + _double_deviation(float(v), c, want), type=tn, s=s, canonical=c, want=want)
            elif tn == 'decimal' or tn in O.INT_BOUNDS:
                want = O.decimal_to_string(decimal.Decimal(O.normalise(tn, s)))
                if c != want:
                    bad(f'xs:{"decimal" if tn == "decimal" else "integer"}: string() is not the canonical representation', type=tn, s=s, canonical=c, want=want)
            elif tn == 'boolean':
                want = 'true' if O.normalise(tn, s) in ('1', 'true') else 'false'
                if c != want:
                    bad('xs:boolean: string() is not true/false', type=tn, s=s, canonical=c, want=want)
            elif tn == 'hexBinary':
                if c != O.normalise(tn, s).upper():
                    bad('xs:hexBinary: string() is not the upper-case form', type=tn, s=s, canonical=c)
            if tn in ('dateTime', 'date', 'time', 'gYear', 'gYearMonth', 'gMonth', 'gMonthDay', 'gDay', 'dateTimeStamp'):
                import re as _re
                m1, m2 = _re.search(r'(Z|[+-]\d\d:\d\d)$', O.normalise(tn, s)), _re.search(r'(Z|[+-]\d\d:\d\d)$', c)
                z1 = None if m1 is None else 'Z' if m1.group(1) in ('Z', '+00:00', '-00:00') else m1.group(1)
                z2 = None if m2 is None else 'Z' if m2.group(1) in ('Z', '+00:00', '-00:00') else m2.group(1)
                if z1 != z2 and '24:00:00' not in s:
                    bad('date/time types: the timezone of the canonical string is not the timezone of the lexical form', type=tn, s=s, canonical=c)
    # decimals produced by arithmetic (Python may hold them with an exponent)
    for e in ["xs:decimal('1') div xs:decimal('0.001')", "xs:decimal(1e3)", "1000000000000000000000.0 * 10", "xs:decimal(1e21)", "xs:decimal(1e-7)",
              "0.00001 * 0.001", "xs:decimal('100') * 1", "xs:decimal(xs:float('1e10'))", "10 div 4", "-(0.0)"]:
        n += 1
        st, text = _xp('3.1', f'string({e})')
        st2, v = _xp('3.1', e)
        if st != 'ok' or st2 != 'ok':
            bad('xs:decimal: string() of an arithmetic result raises', expr=e, got=repr((st, text))[:80])
        elif O.in_lexical_space('decimal', text) is not True or decimal.Decimal(text) != v or text != O.decimal_to_string(v):
            bad('xs:decimal: string() of an arithmetic result is not the canonical representation', expr=e, canonical=text)
    # equal values with different lexical forms hash alike
    pairs = [('hexBinary', '0a1b', '0A1B'), ('decimal', '1.0', '1'), ('decimal', '+01.50', '1.5'), ('integer', '+1', '1'), ('double', '1e0', '1'),
             ('float', '1.0', '1'), ('base64Binary', 'Y Q = =', 'YQ=='), ('dateTime', '2000-01-01T24:00:00', '2000-01-02T00:00:00'),
             ('dateTime', '2000-01-01T12:00:00Z', '2000-01-01T13:00:00+01:00'), ('dateTime', '2000-01-01T12:00:00-00:30', '2000-01-01T12:30:00Z'),
             ('dateTime', '2000-01-01T12:00:00+00:30', '2000-01-01T11:30:00Z'), ('time', '12:00:00-00:30', '12:30:00Z'), ('time', '12:00:00-00:01', '12:01:00Z'),
             ('dateTime', '2000-01-01T00:00:00-14:00', '2000-01-01T14:00:00Z'), ('duration', 'P1Y', 'P12M'), ('duration', 'PT60M', 'PT1H'),
             ('dayTimeDuration', 'P1D', 'PT24H'), ('yearMonthDuration', 'P1Y1M', 'P13M'), ('time', '24:00:00', '00:00:00'),
             ('date', '2000-01-01Z', '2000-01-01+00:00'), ('gYear', '2000Z', '2000+00:00'), ('boolean', '1', 'true'), ('anyURI', ' http://a ', 'http://a'),
             ('language', ' en ', 'en'), ('untypedAtomic', 'a', 'a'), ('long', '007', '7')]
    for tn, s1, s2 in pairs:
        cls = BUILTIN['xs:' + tn]
        n += 1
        a, b = cls.make(s1, xsd_version='1.1'), cls.make(s2, xsd_version='1.1')
        if not (a == b):
            bad(f'xs:{tn}: two lexical forms of one value are not equal', type=tn, s=s1, s2=s2)
        elif hash(a) != hash(b):
            bad(f'xs:{tn}: equal values have different hashes', type=tn, s=s1, s2=s2)
    fails = [{'key': k, 'items': it[:8], 'count': len(it), 'what': f'{k}: e.g. {it[0]}'} for k, it in fam.items()]
    return {'evaluations': n, 'distinct': n, 'exhaustive': False,
            'scope': 'every valid grid string x built-in type: c = string(T(s)) is accepted by T, string(T(c)) == c, T(c) == T(s) with equal hash; '
            'canonical forms of double/decimal/integer/boolean/hexBinary against F&O 19.1; 21 pairs of distinct lexical forms of one value',
            'failures': fails}


def _replay_canonical(f):
    r = canonical_grid('quick', 0)
    return all(x['key'] != f['key'] for x in r['failures'])


BOUNDED.append(Bounded('canonical_string_fixed_point_and_hash', canonical_grid, _replay_canonical))


# ---- cast / castable / constructor agreement and the F&O casting table ------------------------------------
CAST_SOURCES = {
    'untypedAtomic': ["xs:untypedAtomic('1')", "xs:untypedAtomic('abc')", "xs:untypedAtomic('2000-01-01')", "xs:untypedAtomic('P1Y')",
                      "xs:untypedAtomic('true')", "xs:untypedAtomic('0A')", "xs:untypedAtomic('1.5')", "xs:untypedAtomic(' 7 ')",
                      "xs:untypedAtomic('1_0')", "xs:untypedAtomic('a:b')", "xs:untypedAtomic('-INF')"],
    'string': ["concat('a:', 'b')", "'1'", "'abc'", "' true '", "'1.5'", "'INF'", "'2000-01-01T00:00:00'", "'a:b'", "'YQ=='", "'1e3'", "''", "'300'", "'-1'", "'P1M'",
               "'--02-30'", "'24:00:00'", "'nan'", "'1_0'", "'0x1'", "'+INF'"],
    'float': ["xs:float('1.5')", "xs:float('NaN')", "xs:float('-INF')", "xs:float('0')", "xs:float('1e10')", "xs:float('-0')", "xs:float('-3.7')"],
    'double': ["1.5e0", "0e0", "xs:double('NaN')", "xs:double('INF')", "1e300", "-3.7e0", "1e20", "-0e0", "255e0", "256e0", "0.1e0", "1e-7"],
    'decimal': ["1.5", "0.0", "-3.7", "100.0", "12345678901234567890.5", "127.9", "-128.9", "0.000001"],
    'integer': ["0", "1", "-1", "255", "256", "2147483648", "10000000000000000000000", "-129", "xs:byte(5)", "xs:unsignedShort(65535)",
                "xs:negativeInteger(-3)", "xs:long(-9223372036854775808)"],
    'duration': ["xs:duration('P1Y2M3DT4H')", "xs:duration('P1Y')", "xs:duration('PT1H')", "xs:duration('-P2M1D')"],
    'yearMonthDuration': ["xs:yearMonthDuration('P14M')", "xs:yearMonthDuration('-P1Y')", "xs:yearMonthDuration('P0M')"],
    'dayTimeDuration': ["xs:dayTimeDuration('P1DT1H')", "xs:dayTimeDuration('-PT30S')", "xs:dayTimeDuration('PT0.5S')"],
    'dateTime': ["xs:dateTime('2000-02-29T13:14:15.5+01:00')", "xs:dateTime('1999-12-31T24:00:00')", "xs:dateTime('-0044-03-15T00:00:00Z')",
                 "xs:dateTime('2001-01-01T00:00:00-05:00')"],
    'time': ["xs:time('13:14:15Z')", "xs:time('24:00:00')", "xs:time('01:02:03.25-08:00')"],
    'date': ["xs:date('2000-02-29+01:00')", "xs:date('2001-12-31')", "xs:date('-0001-01-01Z')"],
    'gYearMonth': ["xs:gYearMonth('2000-02Z')"], 'gYear': ["xs:gYear('2000')", "xs:gYear('-0100+02:00')"], 'gMonthDay': ["xs:gMonthDay('--02-29')"],
    'gDay': ["xs:gDay('---31Z')"], 'gMonth': ["xs:gMonth('--12')"],
    'boolean': ["true()", "false()"],
    'base64Binary': ["xs:base64Binary('YWJj')", "xs:base64Binary('')", "xs:base64Binary('YQ==')",
                     "xs:base64Binary('" + __import__('base64').b64encode(bytes(range(90))).decode() + "')"],
    'hexBinary': ["xs:hexBinary('0a1B')", "xs:hexBinary('')", "xs:hexBinary('" + bytes(range(90)).hex() + "')"],
    'anyURI': ["xs:anyURI('http://a/b')", "xs:anyURI('1')", "xs:anyURI('')"],
    'QName': ["xs:QName('a:b')", "xs:QName('c')"],
}
DERIVED_SOURCES = {'string': ["xs:token('a b')", "xs:NCName('a')", "xs:language('en')", "xs:normalizedString(' 1 ')", "xs:ID('x1')"]}


def _primitive(tn):
    if tn in O.INT_BOUNDS:
        return 'integer'
    if tn in ('normalizedString', 'token', 'language', 'NMTOKEN', 'Name', 'NCName', 'ID', 'IDREF', 'ENTITY'):
        return 'string'
    if tn == 'dateTimeStamp':
        return 'dateTime'
    return tn


def _xp(version, expr):
    p = PARSERS[version](namespaces=NS, xsd_version='1.1')
    ctx = XPathContext(root=None, item=1) if version != '1.0' else None
    try:
        return 'ok', p.parse(expr).evaluate(ctx)
    except ElementPathError as e:
        return 'err', (e.code or '').split(':')[-1]
    except Exception as e:     # noqa - a non XPath error escaping is itself reported
        return 'crash', type(e).__name__


def _num(x):
    return isinstance(x, (int, float, decimal.Decimal)) and not isinstance(x, bool)


def _expected_value(version, sp, src_expr, tn, got):
    """None when the oracle has no opinion, else a message when the value is wrong."""
    tp = _primitive(tn)
    st, sv = _xp(version, src_expr)
    if st != 'ok':
        return None
    if tp in ('string', 'untypedAtomic') and tn in ('string', 'untypedAtomic'):
        st2, text = _xp(version, f'string({src_expr})')
        if st2 == 'ok' and str(got) != text:
            return f'cast to xs:{tn} gives {str(got)!r}, string() gives {text!r}'
        return None
    if sp in ('float', 'double', 'decimal', 'integer'):
        if tp == 'integer' and _num(got):
            if int(got) != math.trunc(sv):
                return f'numeric -> xs:{tn} is not truncation: {got!r}'
        elif tp == 'decimal' and _num(got):
            want = decimal.Decimal(sv) if not isinstance(sv, decimal.Decimal) else sv
            if decimal.Decimal(got) != want:
                return f'numeric -> xs:decimal changes the value: {got!r}'
        elif tp == 'double' and isinstance(got, float):
            if not (got == float(sv) or (math.isnan(got) and math.isnan(float(sv)))):
                return f'numeric -> xs:double changes the value: {got!r}'
        elif tp == 'boolean':
            want = not (sv == 0 or (isinstance(sv, float) and math.isnan(sv)))
            if got is not want:
                return f'numeric -> xs:boolean gives {got!r}'
    elif sp == 'boolean' and tp in ('integer', 'decimal', 'double', 'float') and _num(got):
        if got != (1 if sv else 0):
            return f'boolean -> xs:{tn} gives {got!r}'
    elif sp in ('hexBinary', 'base64Binary') and tp in ('hexBinary', 'base64Binary'):
        import base64
        raw = bytes.fromhex(str(sv)) if sp == 'hexBinary' else base64.b64decode(str(sv))
        want = raw.hex().upper() if tp == 'hexBinary' else base64.b64encode(raw).decode()
        if str(got) != want:
            return f'{sp} -> {tn}: octets not preserved: {str(got)[:40]!r}... expected {want[:40]!r}...'
    elif sp in ('dateTime', 'date') and tp in ('dateTime', 'date', 'time', 'gYearMonth', 'gYear', 'gMonthDay', 'gDay', 'gMonth'):
        import re as _re
        st2, text = _xp(version, f'string({src_expr})')
        m = _re.fullmatch(r'(-?[0-9]{4,})-([0-9]{2})-([0-9]{2})(?:T([0-9:.]+))?(Z|[+-][0-9:]+)?', text if st2 == 'ok' else '')
        if m:
            y, mo, d, t, tz = m.groups()
            tz = tz or ''
            want = {'dateTime': f"{y}-{mo}-{d}T{t or '00:00:00'}{tz}", 'date': f'{y}-{mo}-{d}{tz}', 'time': f"{t or ''}{tz}",
                    'gYearMonth': f'{y}-{mo}{tz}', 'gYear': f'{y}{tz}', 'gMonthDay': f'--{mo}-{d}{tz}', 'gDay': f'---{d}{tz}', 'gMonth': f'--{mo}{tz}'}[tp]
            if str(got) != want:
                return f'{sp} -> {tn}: components not preserved: {str(got)!r}, expected {want!r}'
    elif sp in ('duration', 'yearMonthDuration', 'dayTimeDuration') and tp in ('duration', 'yearMonthDuration', 'dayTimeDuration'):
        wm = sv.months if tp != 'dayTimeDuration' else 0
        ws = sv.seconds if tp != 'yearMonthDuration' else 0
        if got.months != wm or got.seconds != ws:
            return f'{sp} -> {tn}: (months, seconds) = ({got.months}, {got.seconds}), expected ({wm}, {ws})'
    return None


def cast_grid(tier, seed):
    fam, n = {}, 0

    def bad(k, **w):
        fam.setdefault(k, []).append(w)
    for version in ('2.0', '3.0', '3.1'):
        for sp, exprs in CAST_SOURCES.items():
            for e in exprs + DERIVED_SOURCES.get(sp, []):
                if _xp(version, e)[0] != 'ok':
                    continue
                for tn in TYPE_NAMES:
                    if tn == 'dateTimeStamp' and version == '2.0':
                        continue
                    n += 1
                    a = _xp(version, f'({e}) castable as xs:{tn}')
                    b = _xp(version, f'({e}) cast as xs:{tn}')
                    c = _xp(version, f'xs:{tn}({e})')
                    w = dict(version=version, source=e, target=tn)
                    if 'crash' in (a[0], b[0], c[0]):
                        bad(f'cast to xs:{tn}: a Python exception escapes', **w, got=[a, repr(b)[:80], repr(c)[:80]])
                        continue
                    if a[0] != 'ok' or not isinstance(a[1], bool):
                        if not (tn == 'QName' and version == '2.0'):
                            bad('castable does not return a boolean', **w, got=repr(a)[:80])
                        continue
                    if a[1] != (b[0] == 'ok'):
                        bad(f'castable as xs:{_primitive(tn)} family disagrees with cast as', **w, castable=a[1], cast=repr(b)[:80])
                    if (b[0] == 'ok') != (c[0] == 'ok'):
                        if not (tn == 'QName' and version == '2.0'):       # 2.0: only literals cast to QName, the constructor differs
                            bad(f'cast as xs:{_primitive(tn)} family disagrees with the constructor function on success', **w,
                                cast=repr(b)[:80], ctor=repr(c)[:80])
                    elif b[0] == 'ok' and not _same(b[1], c[1]):
                        bad(f'cast as xs:{_primitive(tn)} family and the constructor function produce different values', **w,
                            cast=repr(b[1])[:80], ctor=repr(c[1])[:80])
                    rule = O.cast_allowed(sp, _primitive(tn), version)
                    if rule == 'N' and b[0] == 'ok':
                        bad(f'casting table: xs:{sp} -> xs:{_primitive(tn)} is not allowed but succeeds', **w, cast=repr(b[1])[:80])
                    elif rule == 'N' and b[0] == 'err' and b[1] != 'XPTY0004':
                        bad(f'casting table: forbidden cast raises {b[1]} instead of XPTY0004', **w)
                    elif rule == 'Y' and tn == _primitive(tn) and b[0] != 'ok':
                        bad(f'casting table: xs:{sp} -> xs:{tn} always succeeds but raises', **w, cast=repr(b)[:80])
                    elif rule == 'M' and sp in ('string', 'untypedAtomic') and tn != 'QName':
                        _, sv = _xp(version, e)
                        text = sv if isinstance(sv, str) else sv.value
                        spec = O.in_lexical_space(tn, O.normalise(tn, text), '1.1')
                        if spec is not None and spec != (b[0] == 'ok'):
                            bad(f"cast from a string to xs:{_primitive(tn)} family {'rejects a valid' if spec else 'accepts an invalid'} lexical form",
                                **w, cast=repr(b)[:80])
                    if b[0] == 'ok':
                        msg = _expected_value(version, sp, e, tn, b[1])
                        if msg:
                            bad(f'value not preserved: xs:{sp} -> xs:{_primitive(tn)} family', **w, detail=msg)
    # a value of another type cast to a type derived from xs:string goes through xs:string (F&O 19.3): the result is the whitespace-processed string() of the value
    for src in ('true()', 'false()', '1.0e0', '1.10', '12', "xs:float('1.5')", "xs:date('2000-01-01')", "xs:dayTimeDuration('PT60S')", "xs:anyURI('a')", "xs:hexBinary('0a')",
                "xs:untypedAtomic(' x  y ')", '-0.0e0', '1e21'):
        for tn in ('token', 'normalizedString', 'NMTOKEN', 'language', 'Name', 'NCName'):
            for version in ('2.0', '3.1'):
                for form in (f'xs:{tn}({src})', f'{src} cast as xs:{tn}'):
                    n += 1
                    st, v = _xp(version, form)
                    st2, want = _xp(version, f'xs:{tn}(string({src}))')
                    if (st, v if st == 'err' else str(v)) != (st2, want if st2 == 'err' else str(want)):
                        bad('a non-string value cast to a type derived from xs:string is not the cast of its string value', expr=form, version=version, got=repr((st, v))[:70],
                            through_string=repr((st2, want))[:70])
    fails = [{'key': k, 'items': it[:6], 'count': len(it), 'what': f'{k}: e.g. {it[0]}'} for k, it in fam.items()]
    return {'evaluations': n, 'distinct': n, 'exhaustive': False,
            'scope': f'{sum(map(len, CAST_SOURCES.values())) + 5} source expressions (all primitive types) x {len(TYPE_NAMES)} target types x XPath 2.0/3.1: '
            'castable / cast / constructor agree on success and value; F&O 3.1 19.1 casting table (N raises XPTY0004, Y succeeds); value oracles for '
            'numeric, boolean, binary, date/time component and duration casts; string sources against the lexical-space oracle', 'failures': fails}


def _replay_cast(f):
    r = cast_grid('quick', 0)
    return all(x['key'] != f['key'] for x in r['failures'])


BOUNDED.append(Bounded('cast_castable_constructor_grid', cast_grid, _replay_cast))
