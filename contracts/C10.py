"""C10 - atomic datatypes: lexical space, canonical form and casting are coherent.

Deductive:
 * lexical spaces as regular languages: the live `pattern` of each class is translated (stdlib sre parse
   tree -> z3 regular expression) and proved equal to the XSD Part 2 lexical space written here, by two
   language-inclusion queries (z3 regex solver);
 * Integer.__init__: for every integer subtype, construction from an int succeeds exactly inside the XSD
   value bounds (all integers, z3).
Bounded: constructor / is_valid / castable / cast / xs:T() agreement on lexical grids, canonical string
fixed point and hash, casting table samples.
"""
from __future__ import annotations

import decimal
import itertools
import math

import z3

from pyvc.values import *  # noqa
from pyvc.contract import Contract, Case
from pyvc.specprims import *  # noqa
from pyvc import regex2z3
from .common import *  # noqa
from .bounded import Bounded
from elementpath import datatypes as D
from elementpath.datatypes import proxies

TZ = r'(?:Z|[+-](?:(?:0[0-9]|1[0-3]):[0-5][0-9]|14:00))?'
NUMBER = r'[+-]?(?:[0-9]+(?:\.[0-9]*)?|\.[0-9]+)'
YEAR = r'-?(?:[1-9][0-9]{3,}|0[0-9]{3})'
# XSD Part 2 lexical spaces (3.2.x "Lexical representation"), as Python regular expressions
XSD_LEXICAL = {
    'Float': NUMBER + r'(?:[Ee][+-]?[0-9]+)?|[+-]?INF|NaN',          # +INF is XSD 1.1 (the class serves both)
    'DoubleProxy': NUMBER + r'(?:[Ee][+-]?[0-9]+)?|[+-]?INF|NaN',
    'DecimalProxy': NUMBER,
    'Integer': r'[+-]?[0-9]+',
    'BooleanProxy': r'true|false|1|0',
    'HexBinary': r'(?:[0-9a-fA-F]{2})*',
    'Language': r'[a-zA-Z]{1,8}(?:-[a-zA-Z0-9]{1,8})*',
    'GregorianDay': r'---[0-9]{2}' + TZ,
    'GregorianMonth': r'--[0-9]{2}' + TZ,
    'GregorianMonthDay': r'--[0-9]{2}-[0-9]{2}' + TZ,
}


def ground_lexical_spaces(tier, seed):
    fails, n, und = [], 0, []
    classes = {'Float': D.Float, 'DoubleProxy': proxies.DoubleProxy, 'DecimalProxy': proxies.DecimalProxy, 'Integer': D.Integer,
               'BooleanProxy': proxies.BooleanProxy, 'HexBinary': D.HexBinary, 'Language': D.Language,
               'GregorianDay': D.GregorianDay, 'GregorianMonth': D.GregorianMonth, 'GregorianMonthDay': D.GregorianMonthDay}
    for name, cls in classes.items():
        pat = cls.pattern.pattern
        try:
            code = regex2z3.translate(pat)
            spec = regex2z3.translate('^(?:' + XSD_LEXICAL[name] + ')$')
        except regex2z3.Unsupported as e:
            und.append(f'{name}: {e}')
            continue
        for direction, a, b in (('accepts a string outside the XSD lexical space', code, spec),
                                ('rejects a string of the XSD lexical space', spec, code)):
            n += 1
            w = regex2z3.language_difference(a, b)
            if w == 'unknown':
                und.append(f'{name}: {direction}: solver timeout')
            elif w is not None:
                real = cls.pattern.match(w) is not None
                fails.append({'key': f'{name} pattern {direction}', 'class': name, 'witness': w,
                              'what': f'{cls.__module__}.{name}.pattern {direction}: {w!r} (pattern.match says {real})'})
    return {'obligations': n, 'discharged': n - len(fails), 'evaluations': n, 'distinct': n, 'exhaustive': True, 'count_each': True,
            'undecided': und, 'scope': f'{len(classes)} datatype classes: L(live pattern) == L(XSD lexical space) as two z3 regular-'
            'language inclusion queries each (patterns with \\\\w/\\\\d/look-aheads are not translated: see bounded)', 'failures': fails}


def _replay_lex(f):
    import re
    cls = {'Float': D.Float, 'DoubleProxy': proxies.DoubleProxy, 'DecimalProxy': proxies.DecimalProxy, 'Integer': D.Integer,
           'BooleanProxy': proxies.BooleanProxy, 'HexBinary': D.HexBinary, 'Language': D.Language, 'GregorianDay': D.GregorianDay,
           'GregorianMonth': D.GregorianMonth, 'GregorianMonthDay': D.GregorianMonthDay}[f['class']]
    in_code = cls.pattern.match(f['witness']) is not None
    in_spec = re.fullmatch(XSD_LEXICAL[f['class']], f['witness']) is not None
    return in_code == in_spec


GROUND = [Bounded('lexical_spaces_as_regular_languages', ground_lexical_spaces, _replay_lex)]

# ---- integer subtype bounds -----------------------------------------------------------------------------
XSD_BOUNDS = {'Integer': (None, None), 'NonPositiveInteger': (None, 0), 'NegativeInteger': (None, -1),
              'Long': (-2 ** 63, 2 ** 63 - 1), 'Int': (-2 ** 31, 2 ** 31 - 1), 'Short': (-2 ** 15, 2 ** 15 - 1), 'Byte': (-128, 127),
              'NonNegativeInteger': (0, None), 'PositiveInteger': (1, None), 'UnsignedLong': (0, 2 ** 64 - 1),
              'UnsignedInt': (0, 2 ** 32 - 1), 'UnsignedShort': (0, 65535), 'UnsignedByte': (0, 255)}


def int_case(cls):
    def setup(S, ex):
        n = S.int('n', pycls=cls)
        return Case([n, VInt(n.t)])
    return setup


CONTRACTS = []
for cname, (lo_, hi_) in XSD_BOUNDS.items():
    cls = getattr(D, cname)
    cond = ' and '.join(([f'n >= {lo_}'] if lo_ is not None else []) + ([f'n <= {hi_}'] if hi_ is not None else [])) or 'True'
    CONTRACTS.append(Contract(
        f'Integer.__init__.{cname}', 'C10', lambda: D.Integer.__init__, int_case(cls),
        post=[('accepts_exactly_the_xsd_value_space', f"returned == ({cond})"),
              ('rejects_with_ValueError', "returned or raised_name == 'ValueError'")],
        native=lambda i, cls=cls: run_native(lambda: (cls(i['n']), None)[1]),
        samples=lambda rng, lo_=lo_, hi_=hi_: ({'n': v} for v in sorted({0, 1, -1, 127, 128, -128, -129, 255, 256, 65535, 65536, 2 ** 31, 2 ** 31 - 1,
                                                                        -2 ** 31, -2 ** 31 - 1, 2 ** 63, 2 ** 63 - 1, -2 ** 63, -2 ** 63 - 1, 2 ** 64,
                                                                        2 ** 64 - 1, 10 ** 30})),
        expect_min_obligations=2))


# ======================================================================================================
# Bounded stand-ins (never counted as proved): lexical grids, canonical fixed points, casting agreement
# ======================================================================================================
from . import xsd_oracle as O
from elementpath.datatypes import builtin_atomic_types as BUILTIN

LEX_SEEDS = list(dict.fromkeys([
    '', ' ', '0', '1', '-1', '+1', '00', '007', '-0', '+0', '1.', '.1', '1.0', '-1.50', '+.5', '.', '+', '-', '1e3', '1E3', '1e', 'e1', '1.5e-3',
    '.5E+2', '1e+', 'INF', '-INF', '+INF', 'NaN', 'inf', 'nan', '-nan', '+NaN', 'Infinity', 'infinity', '-inf', 'NAN', '1_000', '1_0.5', '0x10', '١', '１',
    '1 0', 'true', 'false', 'True', 'TRUE', 'yes', '2', '127', '128', '-128', '-129', '255', '256', '32767', '32768', '-32768', '-32769', '65535',
    '65536', '2147483647', '2147483648', '-2147483648', '-2147483649', '4294967295', '4294967296', '9223372036854775807', '9223372036854775808',
    '-9223372036854775808', '-9223372036854775809', '18446744073709551615', '18446744073709551616', '-0000', '+00001', '1e400', '1e-400',
    '3.5e38', '1e39', '0.1', '1e-7', '1e6', '1e21', '123456.789', '0.000001', '1.5e300', '12345678901234567890.123456789',
    '0A', '0a1B', 'A', 'G0', '0 A', 'FFFF', 'abcd==', 'YQ==', 'YWI=', 'YWJj', 'Y Q = =', 'YQ=', 'YR==', 'YWJ=', 'YWJj YWJj', '====', 'YQ', 'a', 'ab',
    'a-b', 'en', 'en-US', 'en-', '-en', 'abcdefghi', 'en-abcdefghi', 'x-1', '1x', 'a:b', ':a', 'a:', 'a:b:c', '_a', '-a', '.a', 'a.b', 'a b', 'é',
    'a·', '·a', '×', 'a×', 'aé', 'xml:lang', '1a', 'a1',
    '2000-01-01', '2000-1-1', '2000-13-01', '2000-00-10', '2000-02-30', '2000-02-29', '1900-02-29', '2001-02-29', '2004-02-29', '0000-01-01',
    '-0001-01-01', '-0001-02-29', '-0004-02-29', '-0005-02-29', '0000-02-29', '02000-01-01', '10000-01-01', '12000-02-29', '12001-02-29',
    '-10000-01-01', '200-01-01', '2000-01-32', '2000-04-31', '2000-01-01Z', '2000-01-01z', '2000-01-01+14:00', '2000-01-01+14:01',
    '2000-01-01-14:00', '2000-01-01+13:59', '2000-01-01+13:60', '2000-01-01+1:00', '2000-01-01+01', '2000-01-01T00:00:00', '2000-01-01T24:00:00',
    '2000-01-01T24:00:01', '2000-01-01T24:00:00.0', '2000-01-01T24:00:00.1', '2000-01-01T23:59:60', '2000-01-01T23:60:00', '2000-01-01T25:00:00',
    '2000-01-01T12:00:00.123456789', '2000-01-01T12:00:00.', '2000-01-01T12:00', '2000-01-01 12:00:00', '2000-01-01t12:00:00',
    '2000-01-01T12:00:00Z', '2000-01-01T12:00:00+05:30', '2000-01-01T12:00:00-00:00', '9999-12-31T23:59:59.999999', '9999-12-31T24:00:00',
    '0000-01-01T00:00:00', '2000-02-30T00:00:00', '12:00:00', '24:00:00', '24:00:00.000', '24:00:01', '12:00:00.5', '12:00:00Z', '12:00', '1:00:00',
    '12:00:00+14:00', '23:59:59.9999999', '2000', '2000Z', '0000', '-0001', '20000', '02000', '200', '2000-01', '2000-13', '2000-00', '0000-01',
    '2000-01Z', '--01', '--13', '--00', '--01Z', '--1', '--01--', '---01', '---31', '---32', '---00', '---1', '---01Z', '---01+05:00', '--01-01',
    '--02-29', '--02-30', '--04-31', '--13-01', '--01-32', '--01-00', '--12-31Z',
    'P1Y', 'P', 'PT', 'P1', '1Y', '-P1Y', '+P1Y', 'P-1Y', 'P1Y2M', 'P1M', 'P1D', 'PT1H', 'PT1M', 'PT1S', 'PT1.5S', 'PT1.S', 'PT.5S', 'P1YT',
    'P1Y2M3DT4H5M6.7S', 'P1M1Y', 'P1DT', 'PT1H1S', 'P1Y1D', 'P1.5Y', 'P1H', 'PT1Y', 'PT1D', 'p1y', 'P1S', 'P0Y', 'PT0S', '-PT0S', 'P1W', 'PT1M1H',
    'P1DT1H', 'P13M', 'PT36H', 'PT1.000000S', 'P0M', 'P0D', 'P0Y0M', 'P1Y0D', 'P0DT1H',
    'x\ty', 'x\ny', ' x ', 'x  y', '\tx', 'x\r', ' 1 ', '\n1\n', ' true ', ' 2000-01-01 ', ' P1Y ', ' 0A ', ' YQ== ', ' en ', ' a:b ', '1 ', ' INF',
    '\x0c1', '1\x0b', ' 1', '\xa01', '\x851']))

TYPE_NAMES = sorted(k[3:] for k in BUILTIN if k.startswith('xs:') and k[3:] not in ('anyAtomicType', 'error', 'NOTATION'))
NS = {'a': 'urn:a', 'xml': 'http://www.w3.org/XML/1998/namespace'}


def _make(tname, s, xsd_version):
    cls = BUILTIN['xs:' + tname]
    if tname == 'QName':
        from elementpath.datatypes import QName
        from elementpath.namespaces import get_expanded_name          # noqa
        raise LookupError('QName needs the static namespaces: covered by the casting grid')
    return cls.make(s, xsd_version=xsd_version)


def _accepts(thunk):
    try:
        thunk()
        return True
    except (ValueError, TypeError, ArithmeticError):
        return False
    except Exception as e:       # noqa - anything else escaping a constructor is reported as such
        return 'raises ' + type(e).__name__


def lexical_grid(tier, seed):
    fails, n, fam = [], 0, {}
    for v in ('1.0', '1.1'):
        for tn in TYPE_NAMES:
            if tn == 'QName':
                continue
            cls = BUILTIN['xs:' + tn]
            for s in LEX_SEEDS:
                norm = O.normalise(tn, s)
                spec = O.in_lexical_space(tn, norm, v)
                if spec is None:
                    continue
                n += 1
                got = _accepts(lambda: cls.make(s, xsd_version=v))
                if got != spec:
                    k = f"xs:{tn} constructor {'accepts' if got is True else 'rejects' if got is False else got} a string " \
                        f"{'outside' if not spec else 'of'} the lexical space"
                    fam.setdefault(k, []).append({'type': tn, 'xsd': v, 's': s, 'kind': 'ctor', 'spec': spec})
                if v == '1.1' and s == norm:
                    n += 1
                    iv = _accepts(lambda: cls.validate(s))
                    if iv != spec:
                        k = f"xs:{tn}.is_valid {'accepts' if iv is True else 'rejects' if iv is False else iv} a string " \
                            f"{'outside' if not spec else 'of'} the lexical space"
                        fam.setdefault(k, []).append({'type': tn, 'xsd': v, 's': s, 'kind': 'is_valid', 'spec': spec})
    for k, items in fam.items():
        fails.append({'key': k, 'items': items[:8], 'count': len(items), 'what': f"{k}: e.g. {items[0]['s']!r} (XSD {items[0]['xsd']}), "
                      f"{len(items)} grid strings"})
    return {'evaluations': n, 'distinct': n, 'exhaustive': False,
            'scope': f'{len(LEX_SEEDS)} valid and near-valid lexical forms x {len(TYPE_NAMES) - 1} built-in types x XSD 1.0/1.1: T.make(s) succeeds iff '
            'normalise_T(s) is in the XSD lexical space (oracle: contracts/xsd_oracle.py); is_valid on normalised strings (XSD 1.1)',
            'failures': fails}


def _replay_lex_grid(f):
    for it in f['items']:
        cls = BUILTIN['xs:' + it['type']]
        if it['kind'] == 'ctor':
            got = _accepts(lambda: cls.make(it['s'], xsd_version=it['xsd']))
        else:
            got = _accepts(lambda: cls.validate(it['s']))
        if got != it['spec']:
            return False
    return True


BOUNDED = [Bounded('lexical_space_grid', lexical_grid, _replay_lex_grid)]


# ---- canonical strings: fixed point, equality and hash ---------------------------------------------------
def _tok(version='3.1', xsd_version='1.1'):
    return PARSERS[version](namespaces=NS, xsd_version=xsd_version).parse('.')


def _same(a, b):
    if isinstance(a, float) and isinstance(b, float) and math.isnan(a) and math.isnan(b):
        return True
    return type(a) is type(b) and a == b and not (a != b)


def _double_deviation(x, c, want):
    """Classify a non-canonical xs:double string (the pinned suite fixes Python's repr switch points)."""
    import re as _re
    m = _re.fullmatch(r'(-?[0-9]+)(\.[0-9]+)?E(-?)0*([0-9]+)', c)
    if m and 'E' in want and f"{m.group(1)}{m.group(2) or '.0'}E{m.group(3)}{m.group(4)}" == want:
        return 'prints an integer mantissa without ".0" or a zero-padded exponent (1E99, 1E-07)'
    try:
        same = float(c) == x
    except ValueError:
        same = False
    if same and 1e6 <= abs(x) < 1e16 and 'E' not in c:
        return 'uses decimal notation for 1e6 <= |x| < 1e16'
    if same and 1e-6 <= abs(x) < 1e-4 and 'E' in c:
        return 'uses E-notation for 1e-6 <= |x| < 1e-4'
    return 'is not the canonical representation of F&O 19.1.2'


def canonical_grid(tier, seed):
    tok = _tok()
    fam, n = {}, 0

    def bad(k, **w):
        fam.setdefault(k, []).append(w)
    for tn in TYPE_NAMES:
        if tn == 'QName':
            continue
        cls = BUILTIN['xs:' + tn]
        for s in LEX_SEEDS:
            if O.in_lexical_space(tn, O.normalise(tn, s), '1.1') is not True:
                continue
            try:
                v = cls.make(s, xsd_version='1.1')
            except Exception:      # noqa - reported by the lexical grid
                continue
            n += 1
            c = tok.string_value(v)
            try:
                v2 = cls.make(c, xsd_version='1.1')
            except Exception as e:     # noqa
                bad(f'xs:{tn}: the canonical string is not accepted by the constructor', type=tn, s=s, canonical=c, err=type(e).__name__)
                continue
            c2 = tok.string_value(v2)
            if c2 != c:
                bad(f'xs:{tn}: the canonical string is not a fixed point', type=tn, s=s, canonical=c, again=c2)
            if not _same(v, v2):
                bad(f'xs:{tn}: the canonical string re-parses to a different value', type=tn, s=s, canonical=c)
            else:
                try:
                    if hash(v) != hash(v2):
                        bad(f'xs:{tn}: equal values have different hashes', type=tn, s=s, canonical=c)
                except TypeError:
                    pass
            # oracles for the canonical form itself
            if tn == 'double':
                want = O.double_to_string(float(v))
                if c != want:
                    bad('xs:double: string() ' + _double_deviation(float(v), c, want), type=tn, s=s, canonical=c, want=want)
            elif tn == 'decimal' or tn in O.INT_BOUNDS:
                want = O.decimal_to_string(decimal.Decimal(O.normalise(tn, s)))
                if c != want:
                    bad(f'xs:{"decimal" if tn == "decimal" else "integer"}: string() is not the canonical representation', type=tn, s=s, canonical=c, want=want)
            elif tn == 'boolean':
                want = 'true' if O.normalise(tn, s) in ('1', 'true') else 'false'
                if c != want:
                    bad('xs:boolean: string() is not true/false', type=tn, s=s, canonical=c, want=want)
            elif tn == 'hexBinary':
                if c != O.normalise(tn, s).upper():
                    bad('xs:hexBinary: string() is not the upper-case form', type=tn, s=s, canonical=c)
    # equal values with different lexical forms hash alike
    pairs = [('hexBinary', '0a1b', '0A1B'), ('decimal', '1.0', '1'), ('decimal', '+01.50', '1.5'), ('integer', '+1', '1'), ('double', '1e0', '1'),
             ('float', '1.0', '1'), ('base64Binary', 'Y Q = =', 'YQ=='), ('dateTime', '2000-01-01T24:00:00', '2000-01-02T00:00:00'),
             ('dateTime', '2000-01-01T12:00:00Z', '2000-01-01T13:00:00+01:00'), ('duration', 'P1Y', 'P12M'), ('duration', 'PT60M', 'PT1H'),
             ('dayTimeDuration', 'P1D', 'PT24H'), ('yearMonthDuration', 'P1Y1M', 'P13M'), ('time', '24:00:00', '00:00:00'),
             ('date', '2000-01-01Z', '2000-01-01+00:00'), ('gYear', '2000Z', '2000+00:00'), ('boolean', '1', 'true'), ('anyURI', ' http://a ', 'http://a'),
             ('language', ' en ', 'en'), ('untypedAtomic', 'a', 'a'), ('long', '007', '7')]
    for tn, s1, s2 in pairs:
        cls = BUILTIN['xs:' + tn]
        n += 1
        a, b = cls.make(s1, xsd_version='1.1'), cls.make(s2, xsd_version='1.1')
        if not (a == b):
            bad(f'xs:{tn}: two lexical forms of one value are not equal', type=tn, s=s1, s2=s2)
        elif hash(a) != hash(b):
            bad(f'xs:{tn}: equal values have different hashes', type=tn, s=s1, s2=s2)
    fails = [{'key': k, 'items': it[:8], 'count': len(it), 'what': f'{k}: e.g. {it[0]}'} for k, it in fam.items()]
    return {'evaluations': n, 'distinct': n, 'exhaustive': False,
            'scope': 'every valid grid string x built-in type: c = string(T(s)) is accepted by T, string(T(c)) == c, T(c) == T(s) with equal hash; '
            'canonical forms of double/decimal/integer/boolean/hexBinary against F&O 19.1; 21 pairs of distinct lexical forms of one value',
            'failures': fails}


def _replay_canonical(f):
    r = canonical_grid('quick', 0)
    return all(x['key'] != f['key'] for x in r['failures'])


BOUNDED.append(Bounded('canonical_string_fixed_point_and_hash', canonical_grid, _replay_canonical))
