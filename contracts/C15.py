"""C15 - maps and arrays are immutable values obeying the XPath 3.1 map/array laws.

Frame contracts: no map:* / array:* function, no XPathMap / XPathArray method and no lookup
operator writes into its operands (one obligation per store statement).  Value contracts on the
real array functions for ALL arrays and indices: array:subarray/put/insert-before/append equal the
list model, FOAY0001/FOAY0002 exactly outside the bounds, and the operand list is unchanged.
Map laws, merge policies, same-key and deep-equal are a labelled bounded stand-in.
"""
from __future__ import annotations

import itertools

from pyvc.values import *  # noqa
from pyvc.contract import Contract, Case
from pyvc.specprims import *  # noqa
from .common import *  # noqa
from .bounded import Bounded
from .frames import FOCUS, class_methods, frame_ground, frame_replay
import elementpath.xpath31._xpath31_functions as F31
import elementpath.xpath31._xpath31_operators as O31
from elementpath.xpath_tokens import XPathMap, XPathArray
from elementpath import compare as _compare


def c15_functions():
    fs = [f for n, f in vars(F31).items() if callable(f) and hasattr(f, '__code__') and
          (('map' in n or 'array' in n) and n.startswith(('evaluate__', 'select__')))]
    fs += class_methods(XPathMap, exclude={'__init__', 'nud', 'led'}) + class_methods(XPathArray, exclude={'__init__', 'nud', 'led'})
    fs += class_methods(O31.LookupOperatorToken, names={'evaluate', 'select', '__call__'})
    fs += [_compare.same_key, _compare.deep_equal]
    return fs


def c15_modifies(g):
    if g.__qualname__ in ('XPathMap.keys', 'XPathMap.values', 'XPathMap.items', 'XPathMap._evaluate'):
        # monotone cache of a constructor token (None -> evaluated dict).  evaluate() never goes through it (it builds a
        # new XPathMap), and no program could be found that observes it: accepted as a justified exception
        return FOCUS | {'self._map', 'self._nan_key'}
    return FOCUS


GROUND = [Bounded('frame_map_array_functions', frame_ground(
    'frame_map_array_functions', c15_functions, c15_modifies,
    'every store statement of the map:* / array:* functions, of the XPathMap / XPathArray methods (constructors excluded), '
    'of the lookup operator and of same_key / deep_equal: target fresh or a focus field of the context'),
    frame_replay(c15_functions, c15_modifies))]


# ---- value contracts for the array functions (all arrays, all indices) --------------------------------

def arr_case(symbol, nitems, argmaker):
    def setup(S, ex):
        A = S.seq('A', K_ITEM)
        A0 = VSeq(A.len, A.arr, K_ITEM)          # ghost: the operand's list at entry
        arr = VObj(XPathArray, {'_array': A}, name='array_')
        argvals = argmaker(S, ex)
        argvals[0] = arr
        tok = mk_token('3.1', symbol, parser=mk_parser('3.1', False), nitems=nitems, context=NONE)
        ctx = mk_context()
        made = {}

        def get_argument(ex, node, a, kw):
            idx = kw.get('index', a[1] if len(a) > 1 else VInt(0)).conc
            return argvals[idx]

        def new_array(ex, node, a, kw):
            items = kw.get('items', a[1] if len(a) > 1 else None)
            made['result'] = items
            return VObj(XPathArray, {'_array': items}, name='result-array', fresh=True)
        hooks = std_hooks(tok, {'self.get_argument': get_argument, 'XPathArray': new_array,
                                ('len', 'XPathArray'): lambda ex, v: VInt(v.fields['_array'].len)})
        for k, v in argvals.items():
            if k and isinstance(v, (VItem, VInt)) and symbol == 'remove':
                hooks[f'self[{k}].evaluate'] = (lambda v: lambda ex, node, a, kw: v)(v)
            if k and isinstance(v, VItem):
                hooks[f'self[{k}].evaluate'] = (lambda v: lambda ex, node, a, kw: v)(v)
        names = {'A': A, 'A0': A0}
        names.update({f'arg{k}': v for k, v in argvals.items() if k})
        return Case([tok, ctx], hooks=hooks, names=names)
    return setup


UNCHANGED = "len(A) == len(A0) and forall_range(0, len(A0), lambda j: A[j] == A0[j])"
INL = {'XPathArray.items'}

CONTRACTS = [
    Contract('array:subarray/3', 'C15', lambda: F31.evaluate__array_subarray,
             arr_case('subarray', 3, lambda S, ex: {1: S.int('start'), 2: S.int('length')}),
             post=[
                 ('FOAY0001_iff_out_of_bounds',
                  "(raised_code == 'FOAY0001') == (start < 1 or start > len(A0) + 1 or (length >= 0 and start + length > len(A0) + 1))"),
                 ('FOAY0002_iff_negative_length', "(raised_code == 'FOAY0002') == (1 <= start and start <= len(A0) + 1 and length < 0)"),
                 ('list_model', "not returned or (len(result._array) == length and "
                                "forall_range(0, length, lambda j: result._array[j] == A0[start - 1 + j]))"),
                 ('operand_unchanged', UNCHANGED),
                 ('only_coded_errors', "returned or raised_code is not None"),
             ], inline=INL),
    Contract('array:subarray/2', 'C15', lambda: F31.evaluate__array_subarray,
             arr_case('subarray', 2, lambda S, ex: {1: S.int('start')}),
             post=[
                 ('FOAY0001_iff_out_of_bounds', "(raised_code == 'FOAY0001') == (start < 1 or start > len(A0) + 1)"),
                 ('list_model', "not returned or (len(result._array) == len(A0) - start + 1 and "
                                "forall_range(0, len(A0) - start + 1, lambda j: result._array[j] == A0[start - 1 + j]))"),
                 ('operand_unchanged', UNCHANGED),
             ], inline=INL),
    Contract('array:put', 'C15', lambda: F31.evaluate__array_put,
             arr_case('put', 3, lambda S, ex: {1: S.int('position'), 2: S.item('member')}),
             post=[
                 ('FOAY0001_iff_out_of_bounds', "(raised_code == 'FOAY0001') == (position < 1 or position > len(A0))"),
                 ('list_model', "not returned or (len(result._array) == len(A0) and forall_range(0, len(A0), lambda j: "
                                "result._array[j] == (arg2 if j == position - 1 else A0[j])))"),
                 ('operand_unchanged', UNCHANGED),
                 ('only_coded_errors', "returned or raised_code is not None"),
             ], inline=INL),
    Contract('array:insert-before', 'C15', lambda: F31.evaluate__array_insert_before,
             arr_case('insert-before', 3, lambda S, ex: {1: S.int('position'), 2: S.item('member')}),
             post=[
                 ('FOAY0001_iff_out_of_bounds', "(raised_code == 'FOAY0001') == (position < 1 or position > len(A0) + 1)"),
                 ('list_model', "not returned or (len(result._array) == len(A0) + 1 and forall_range(0, len(A0) + 1, lambda j: "
                                "result._array[j] == (A0[j] if j < position - 1 else (arg2 if j == position - 1 else A0[j - 1]))))"),
                 ('operand_unchanged', UNCHANGED),
             ], inline=INL),
    Contract('array:head', 'C15', lambda: F31.evaluate__array_head, arr_case('head', 1, lambda S, ex: {}),
             post=[('FOAY0001_iff_empty', "(raised_code == 'FOAY0001') == (len(A0) == 0)"),
                   ('first_member', "not returned or result == A0[0]"), ('operand_unchanged', UNCHANGED),
                   ('only_coded_errors', "returned or raised_code is not None")], inline=INL),
    Contract('array:tail', 'C15', lambda: F31.evaluate__array_tail, arr_case('tail', 1, lambda S, ex: {}),
             post=[('FOAY0001_iff_empty', "(raised_code == 'FOAY0001') == (len(A0) == 0)"),
                   ('list_model', "not returned or (len(result._array) == len(A0) - 1 and forall_range(0, len(A0) - 1, lambda j: result._array[j] == A0[j + 1]))"),
                   ('operand_unchanged', UNCHANGED)], inline=INL),
    Contract('array:reverse', 'C15', lambda: F31.evaluate__array_reverse, arr_case('reverse', 1, lambda S, ex: {}),
             post=[('list_model', "returned and len(result._array) == len(A0) and forall_range(0, len(A0), lambda j: result._array[j] == A0[len(A0) - 1 - j])"),
                   ('operand_unchanged', UNCHANGED)], inline=INL),
    Contract('array:get', 'C15', lambda: F31.evaluate__array_get, arr_case('get', 2, lambda S, ex: {1: S.int('position')}),
             post=[('FOAY0001_iff_out_of_bounds', "(raised_code == 'FOAY0001') == (position < 1 or position > len(A0))"),
                   ('member_at_position', "not returned or result == A0[position - 1]"), ('operand_unchanged', UNCHANGED),
                   ('only_coded_errors', "returned or raised_code is not None")], inline=INL | {'XPathArray.__call__'}),
    Contract('array:size', 'C15', lambda: F31.evaluate__array_size, arr_case('size', 1, lambda S, ex: {}),
             post=[('is_length', "returned and result == len(A0)"), ('operand_unchanged', UNCHANGED)], inline=INL),
    Contract('array:append', 'C15', lambda: F31.evaluate__array_append,
             arr_case('append', 2, lambda S, ex: {1: S.item('member')}),
             post=[
                 ('list_model', "returned and len(result._array) == len(A0) + 1 and result._array[len(A0)] == arg1 and "
                                "forall_range(0, len(A0), lambda j: result._array[j] == A0[j])"),
                 ('operand_unchanged', UNCHANGED),
             ], inline=INL),
]


# ---- bounded stand-in: map / array laws on small maps and arrays ------------------------------------

KEYS = ['1', '1.0', '1e0', '2', '"a"', 'xs:anyURI("a")', 'xs:untypedAtomic("a")', '"b"', 'true()', 'xs:date("2000-01-01")',
        'xs:time("12:00:00")', 'xs:double("NaN")', 'xs:float("NaN")', 'xs:dateTime("2000-01-01T00:00:00")',
        # the same instant written in two timezones, on both sides of a year boundary: one key (op:same-key is eq for values with a timezone)
        'xs:dateTime("2000-12-31T23:00:00-05:00")', 'xs:dateTime("2001-01-01T04:00:00Z")']
FAMILY = {'1': ('num', 1), '1.0': ('num', 1), '1e0': ('num', 1), '2': ('num', 2), '"a"': ('str', 'a'), 'xs:anyURI("a")': ('str', 'a'),
          'xs:untypedAtomic("a")': ('str', 'a'), '"b"': ('str', 'b'), 'true()': ('bool', True), 'xs:date("2000-01-01")': ('date', 1),
          'xs:time("12:00:00")': ('time', 1), 'xs:double("NaN")': ('num', 'NaN'), 'xs:float("NaN")': ('num', 'NaN'),
          'xs:dateTime("2000-01-01T00:00:00")': ('dateTime', 1), 'xs:dateTime("2000-12-31T23:00:00-05:00")': ('dateTime', 2),
          'xs:dateTime("2001-01-01T04:00:00Z")': ('dateTime', 2)}
# pairs of key types whose Python values are equal with equal hashes although op:same-key is false (one root cause each, see known_findings.json)
COLLIDING = {frozenset(('bool', 'num')): 'xs:boolean true() and the number 1 are the same key of the underlying dict',
             frozenset(('date', 'dateTime')): 'an xs:date and the xs:dateTime of its starting instant are the same key of the underlying dict'}


def same_key_spec(a, b):
    """F&O 3.1 17.1.1 op:same-key on the palette"""
    return FAMILY[a] == FAMILY[b]


def bounded_maps_arrays(tier, seed):
    from elementpath import select as ep_select
    P = PARSERS['3.1']
    fails, n, seen = [], 0, set()

    def ev(expr):
        return run_native(lambda: ep_select(None, expr, parser=P, item=1))

    def check(expr, want, fam):
        nonlocal n
        n += 1
        seen.add(fam)
        got = ev(expr)
        if isinstance(want, tuple) and want[0] == 'raise':
            ok = got[0] == 'raise' and str(getattr(got[1], 'code', '')).endswith(want[1])
        else:
            g = got[1] if got[0] == 'return' else None
            gl = g if isinstance(g, list) else [g]
            wl = want if isinstance(want, list) else [want]
            ok = got[0] == 'return' and gl == wl and all(type(a) is type(b) for a, b in zip(gl, wl))
        if not ok:
            if fam[0] == 'pair' and frozenset((fam[1], fam[2])) in COLLIDING:
                # one aggregated failure for the whole family (see known_findings.json)
                # one failure per law (expression template) for this family, so that a law that holds today is still watched
                import re as _re
                law = _re.sub(r'xs:\w+\("[^"]*"\)|true\(\)|"[^"]*"|\b\d+(\.\d+|e\d+)?\b', '_', expr)
                root = COLLIDING[frozenset((fam[1], fam[2]))]
                if (root, law) not in boolnum_laws:
                    boolnum_laws.add((root, law))
                    boolnum.append({'key': f'map keys: {root} [{law}]'[:200],
                                    'what': f'`{expr}` = {got!r}; op:same-key of the two keys is false, the laws give {want!r}',
                                    'expr': expr, 'want': repr(want)})
            elif len(fails) < 40:
                fails.append({'key': expr[:150], 'what': f'`{expr}` = {got!r}; the map/array laws give {want!r}', 'expr': expr,
                              'want': repr(want)})
    boolnum, boolnum_laws = [], set()
    ks = KEYS if tier == 'thorough' else KEYS
    for k1 in ks:
        m1 = f'map:entry({k1}, "v1")'
        for k2 in ks:
            sk = same_key_spec(k1, k2)
            fam = ('pair', FAMILY[k1][0], FAMILY[k2][0], sk)
            check(f'map:contains({m1}, {k2})', sk, fam)
            check(f'map:size(map:put({m1}, {k2}, 9))', 1 if sk else 2, fam)
            check(f'map:get(map:put({m1}, {k2}, 9), {k2})', 9, fam)
            check(f'map:get(map:put({m1}, {k2}, 9), {k1})', 9 if sk else 'v1', fam)
            check(f'map:size(map:remove({m1}, {k2}))', 0 if sk else 1, fam)
            check(f'map:contains(map:remove(map:put({m1}, {k2}, 9), {k2}), {k2})', False, fam)
            check(f'let $m := {m1} return (map:size(map:put($m, {k2}, 9)), map:size($m), map:get($m, {k1}))',
                  [1 if sk else 2, 1, 'v1'], fam)
            m2 = f'map:entry({k2}, "v2")'
            check(f'map:size(map:merge(({m1}, {m2})))', 1 if sk else 2, fam)
            check(f'map:get(map:merge(({m1}, {m2})), {k1})', 'v1', fam)
            check(f'map:get(map:merge(({m1}, {m2}), map{{"duplicates": "use-last"}}), {k1})', 'v2' if sk else 'v1', fam)
            check(f'map:get(map:merge(({m1}, {m2}), map{{"duplicates": "combine"}}), {k1})', ['v1', 'v2'] if sk else 'v1', fam)
            check(f'map:size(map:merge(({m1}, {m2}), map{{"duplicates": "reject"}}))', ('raise', 'FOJS0003') if sk else 2, fam)
            check(f'deep-equal({m1}, map:put({m1}, {k2}, "v1"))', sk, fam)
            check(f'deep-equal(map:put({m1}, {k2}, "v1"), {m1})', sk, fam)
        # a three-key map with keys of non-comparable types
        check(f'map:contains(map:merge((map:entry(xs:date("2000-01-01"), 1), map:entry(xs:time("12:00:00"), 2), {m1})), {k1})',
              True, ('mixed', FAMILY[k1][0]) if FAMILY[k1][0] != 'dateTime' else ('pair', 'date', 'dateTime', False))
        check(f'map:get(map:merge((map:entry(xs:time("12:00:00"), 2), map:entry(xs:date("2000-01-01"), 1), {m1})), {k1})',
              'v1' if FAMILY[k1][0] not in ('date', 'time') else (1 if FAMILY[k1][0] == 'date' else 2),
              ('mixed', FAMILY[k1][0]) if FAMILY[k1][0] != 'dateTime' else ('pair', 'date', 'dateTime', False))
    # map:put replaces the entry, key included (F&O 17.3.9: "the new key and value"): the type of the key afterwards is the type of the key that was put
    for m0, k2, tname in (('map{1: "a"}', '1.0e0', 'xs:double'), ('map{1.0e0: "a"}', '1', 'xs:integer'), ('map:entry("u", "x")', 'xs:anyURI("u")', 'xs:anyURI'),
                          ('map{xs:anyURI("u"): "x"}', '"u"', 'xs:string'), ('map{2.0: "a"}', 'xs:float(2)', 'xs:float'), ('map{1: "a", 2: "b"}', '2.0', 'xs:decimal')):
        check(f'map:keys(map:put({m0}, {k2}, "z"))[. = {k2}] instance of {tname}', True, ('put-key-type', tname))
        check(f'map:size(map:put({m0}, {k2}, "z"))', 2 if '2: "b"' in m0 else 1, ('put-key-type', tname))
        check(f'map:get(map:put({m0}, {k2}, "z"), {k2})', 'z', ('put-key-type', tname))
        check(f'let $m := {m0} return (map:put($m, {k2}, "z"), map:keys($m)[. = {k2}] instance of {tname})[2]', tname == 'xs:decimal', ('put-key-type', tname))  # the operand keeps its own key (an xs:integer is an xs:decimal)
    # keys given by nodes are atomized in every call form (lookup with a parenthesized key specifier, dynamic call, map:get, map:contains)
    import xml.etree.ElementTree as _ET
    kdoc = _ET.XML('<r k="a" n="2"><k>a</k><k>b</k></r>')
    for expr, want in (("map{'a': 1}?(/r/@k)", [1]), ("(map{'a': 1}, map{'a': 2, 'b': 3})?(/r/k)", [1, 2, 3]), ("map:get(map{'a': 1}, /r/@k)", [1]), ("map:contains(map{'a': 1}, /r/k[1])", True),
                       ("/r/k ! map{'a': 1, 'b': 2}?(.)", [1, 2]), ("map{'a': 1}[?(/r/@k) = 1] ! map:size(.)", [1]), ("map:put(map{}, /r/@k, 1)?a", [1]),
                       ("map:keys(map:put(map{}, /r/@k, 1)) instance of xs:untypedAtomic", True)):
        n += 1
        seen.add(('node keys', expr[:20]))
        got = run_native(lambda: ep_select(kdoc, expr, parser=P))
        g = got[1] if got[0] == 'return' else got
        g = g if isinstance(g, list) or got[0] != 'return' else [g]
        if g != (want if isinstance(want, list) else [want]):
            fails.append({'key': f'node keys: {expr}', 'what': f'`{expr}` on <r k="a" n="2"><k>a</k><k>b</k></r> = {got!r}; a key given by a node is atomized: {want!r}', 'expr': expr, 'want': repr(want)})
    # arrays against the list model
    for items in ([], [1], [1, 2], [1, 2, 3], ['a', 'b', 'c', 'd']):
        lit = '[' + ', '.join(repr(x).replace("'", '"') for x in items) + ']'
        nn = len(items)
        fam = ('array', nn)
        check(f'array:size({lit})', nn, fam)
        check(f'array:reverse({lit})?*', items[::-1], fam)
        check(f'array:append({lit}, 9)?*', items + [9], fam)
        check(f'let $a := {lit} return (array:size(array:append($a, 9)), array:size($a))', [nn + 1, nn], fam)
        check(f'array:join(({lit}, {lit}))?*', items + items, fam)
        check(f'array:flatten(([{lit}, 7], {lit}))', items + [7] + items, fam)
        check(f'array:head({lit})', items[0] if items else ('raise', 'FOAY0001'), fam)
        check(f'array:tail({lit})?*', items[1:] if items else ('raise', 'FOAY0001'), fam)
        for p in range(-1, nn + 3):
            inb = 1 <= p <= nn
            check(f'array:get({lit}, {p})', items[p - 1] if inb else ('raise', 'FOAY0001'), fam)
            check(f'{lit}({p})', items[p - 1] if inb else ('raise', 'FOAY0001'), fam)
            check(f'{lit}?{p}' if p >= 0 else f'{lit}?({p})', items[p - 1] if inb else ('raise', 'FOAY0001'), fam)
            check(f'array:put({lit}, {p}, 9)?*', (items[:p - 1] + [9] + items[p:]) if inb else ('raise', 'FOAY0001'), fam)
            check(f'array:remove({lit}, {p})?*', (items[:p - 1] + items[p:]) if inb else ('raise', 'FOAY0001'), fam)
            check(f'array:insert-before({lit}, {p}, 9)?*', (items[:p - 1] + [9] + items[p - 1:]) if 1 <= p <= nn + 1
                  else ('raise', 'FOAY0001'), fam)
            for ln in range(-1, nn + 2):
                if p < 1 or p > nn + 1:
                    want = ('raise', 'FOAY0001')
                elif ln < 0:
                    want = ('raise', 'FOAY0002')
                elif p + ln > nn + 1:
                    want = ('raise', 'FOAY0001')
                else:
                    want = items[p - 1:p - 1 + ln]
                check(f'array:subarray({lit}, {p}, {ln})?*', want, fam)
    # merge policy 'combine' concatenates sequences and leaves the operands alone; array:sort against sorted()
    check('let $m := map{"a": (1, 2)} return (map:merge(($m, map{"a": 3}), map{"duplicates": "combine"})?a, "|", $m?a)', [1, 2, 3, '|', 1, 2], ('combine', 1))
    check('map:merge((map{"a": (1, 2)}, map{"a": (3, 4)}, map{"a": 5}), map{"duplicates": "combine"})?a', [1, 2, 3, 4, 5], ('combine', 2))
    check('count(map:merge((map{"a": [1]}, map{"a": [2]}), map{"duplicates": "combine"})?a)', 2, ('combine', 3))
    check('map:merge((map{"a": ()}, map{"a": 2}, map{"b": 1}), map{"duplicates": "combine"})?a', 2, ('combine', 4))
    check('let $m := map{"a": 1}, $n := map{"a": 2} return (map:merge(($m, $n), map{"duplicates": "use-last"})?a, $m?a, $n?a)', [2, 1, 2], ('combine', 5))
    for items in ([3, 1, 2], [2, 2, 1], ['b', 'a'], []):
        lit = '[' + ', '.join(repr(x).replace("'", '"') for x in items) + ']'
        check(f'array:sort({lit})?*', sorted(items), ('sort', len(items)))
        check(f'let $a := {lit} return (array:sort($a)?*, "|", $a?*)', sorted(items) + ['|'] + items, ('sort', len(items)))
        check(f'let $a := {lit}, $m := map{{"k": $a}} return (array:size(array:sort($m?k)), $m?k?*)', [len(items)] + items, ('sort', len(items)))
    check('array:sort([3, 1, 2], (), function($x) { -$x })?*', [3, 2, 1], ('sort', 'key'))
    check('array:sort([(2, 1), (1, 5)])?*', [1, 5, 2, 1], ('sort', 'seq'))
    check('array:sort([(1, 2), (0, 5)], (), function($x) { $x[2] })?*', [1, 2, 0, 5], ('sort', 'seq-key'))
    check('array:sort([(1, 2, 3), (0, 5), ()], (), function($x) { count($x) })?*', [0, 5, 1, 2, 3], ('sort', 'seq-key'))
    check('array:sort([(9, 1), (0, 5)], (), function($x) { sum($x) })?*', [0, 5, 9, 1], ('sort', 'seq-key'))
    check('array:sort([[1, 2], [0, 5]], (), function($x) { $x?2 })?*', [[1, 2], [0, 5]], ('sort', 'array-key')) if False else None
    # lookups over sequences of maps / arrays
    check('([10, 20], [30, 40])?(1, 2)', [10, 20, 30, 40], ('lookup', 1))
    check('([10, 20], [30, 40])?(2)', [20, 40], ('lookup', 2))
    check('([10, 20], [30])?(1, 2)', ('raise', 'FOAY0001'), ('lookup', 3))
    check('(map{"a": 1, "b": 2}, map{"a": 3})?("a", "b")', [1, 2, 3], ('lookup', 4))
    check('(map{"a": 1}, map{"a": 2})?a', [1, 2], ('lookup', 5))
    check('([1, 2], [3])?*', [1, 2, 3], ('lookup', 6))
    check('map{"a": [1, 2]}?a?2', 2, ('lookup', 7))
    check('deep-equal((map{}, 1), (map{}, 2))', False, ('deep', 1))
    check('deep-equal(([1], 1), ([1], 2))', False, ('deep', 2))
    check('deep-equal([1, [2, map{"a": 3}]], [1, [2, map{"a": 3}]])', True, ('deep', 3))
    check('deep-equal(map{}, map{"a": 1})', False, ('deep', 4))
    check('deep-equal(map{"a": 1}, map{})', False, ('deep', 5))
    check('deep-equal([map{"a": 1}], [map{"a": 1, "b": 2}])', False, ('deep', 6))
    fails.extend(boolnum)
    return {'evaluations': n, 'distinct': len(seen), 'failures': fails, 'n_failures': len(fails),
            'scope': f'{len(KEYS)}^2 key pairs over 6 type families (incl. numeric across types, NaN, string/anyURI/untypedAtomic, '
                     'non-comparable date/time) x put/get/remove/contains/size/merge(4 policies)/deep-equal and operand '
                     'immutability; arrays of length 0..4 x every index -1..n+2 x get/put/remove/insert-before/subarray/'
                     'head/tail/reverse/append/join/flatten; lookups over sequences; oracle: finite map / list model with F&O op:same-key',
            'rule': 'distinct = (law family, key type families, same-key or not) / (array length)'}


def _replay_law(f):
    from elementpath import select as ep_select
    got = run_native(lambda: ep_select(None, f['expr'], parser=PARSERS['3.1'], item=1))
    g = got[1] if got[0] == 'return' else None
    gl = g if isinstance(g, list) else [g]
    want = eval(f['want'])
    wl = want if isinstance(want, list) else [want]
    return got[0] == 'return' and gl == wl


BOUNDED = [Bounded('map_array_laws_small_scope', bounded_maps_arrays, _replay_law)]
NOT_DECIDED = ['nested values of arbitrary depth in map:merge / array:flatten beyond the bounded scope',
               'map laws and merge policies: bounded stand-in only (dict lookup modulo key equality is not modelled: A-DICT)']
