"""C07 - comparisons, effective boolean value and logic match the specification tables.

Deductive: XPathToken.boolean_value against the F&O 2.4.3 (fn:boolean) table, for every shape of
the argument (empty / singleton / two items, list and iterator branch) and every item class of a
palette, with symbolic payloads (any integer, decimal, double incl. NaN/INF, any string); the value
comparison evaluator on exact numerics.  Finite (GROUND): the type-pair admission matrix of value and
general comparisons over the class lattice x 6 operators, and the order of the compared values.
"""
from __future__ import annotations

import decimal
import itertools
import math

from pyvc.values import *  # noqa
from pyvc.contract import Contract, Case
from pyvc.specprims import *  # noqa
from pyvc import interp as I
from .common import *  # noqa
from .bounded import Bounded
from elementpath.xpath_tokens.base import XPathToken
from elementpath.datatypes import UntypedAtomic, AnyURI, QName, DayTimeDuration
from elementpath.xpath_nodes import TextNode

# ---- EBV ------------------------------------------------------------------------------------------
ITEM_KINDS = {
    'bool': (lambda S, n, ex: S.bool(n), "{x}", True),
    'int': (lambda S, n, ex: S.int(n), "{x} != 0", True),
    'dec': (lambda S, n, ex: S.dec(n), "exact({x}) != 0", True),
    'float': (lambda S, n, ex: S.float(n, ex=ex), "not is_nan({x}) and (inf_sign({x}) != 0 or exact({x}) != 0)", True),
    'str': (lambda S, n, ex: S.str(n), "len({x}) > 0", True),
    'untyped': (lambda S, n, ex: VObj(UntypedAtomic, {'value': S.str(n + '_s')}, name=n), "len({x}.value) > 0", True),
    'anyuri': (lambda S, n, ex: VObj(AnyURI, {'value': S.str(n + '_s')}, name=n), "len({x}.value) > 0", True),
    'qname': (lambda S, n, ex: VObj(QName, {}, name=n), None, False),            # no EBV: FORG0006
    'duration': (lambda S, n, ex: VObj(DayTimeDuration, {}, name=n), None, False),
    'node': (lambda S, n, ex: VObj(TextNode, {}, name=n), "True", True),
}


def ebv_case(kinds, iterator):
    def setup(S, ex):
        items = [ITEM_KINDS[k][0](S, f'x{i}', ex) for i, k in enumerate(kinds)]
        lst = VPyList(items)
        obj = I.VIter(lst) if iterator else lst
        tok = mk_token('2.0', 'boolean', nitems=1)
        return Case([tok, obj], hooks=std_hooks(tok), names={f'x{i}': it for i, it in enumerate(items)})
    return setup


def ebv_expect(kinds):
    """(postconditions) from the F&O table"""
    if not kinds:
        return [('empty_sequence_is_false', "returned and result == False")]
    if kinds[0] == 'node':
        return [('first_item_node_is_true', "returned and result == True")]
    if len(kinds) > 1:
        return [('two_or_more_items_not_starting_with_a_node_is_FORG0006', "raised_code == 'FORG0006'")]
    spec, has = ITEM_KINDS[kinds[0]][1], ITEM_KINDS[kinds[0]][2]
    if not has:
        return [('no_ebv_for_this_type_is_FORG0006', "raised_code == 'FORG0006'")]
    return [('singleton_table', f"returned and result == ({spec.format(x='x0')})")]


def ebv_native(kinds, iterator):
    def native(i):
        from elementpath import XPath2Parser
        tok = XPath2Parser().parse('boolean(1)')
        vals = []
        for k, kind in enumerate(kinds):
            v = i.get(f'x{k}')
            if kind == 'untyped':
                v = UntypedAtomic(i[f'x{k}_s'])
            elif kind == 'anyuri':
                v = AnyURI(i[f'x{k}_s'])
            vals.append(v)
        return run_native(lambda: tok.boolean_value(iter(vals) if iterator else vals))
    return native


def ebv_samples(kinds):
    grid = {'bool': [True, False], 'int': [0, 1, -3], 'dec': [decimal.Decimal(0), decimal.Decimal('0.5')],
            'float': [0.0, -0.0, 1.5, float('nan'), float('inf')], 'str': ['', 'a', 'false'], 'untyped': ['', 'x'], 'anyuri': ['', 'u']}

    def gen(rng):
        ks = [k for k in kinds if k in grid]
        if len(ks) != len(kinds):
            return
        for combo in itertools.product(*[grid[k] for k in kinds]):
            yield {(f'x{i}_s' if kinds[i] in ('untyped', 'anyuri') else f'x{i}'): v for i, v in enumerate(combo)}
    return gen


CONTRACTS = []
SHAPES = [()] + [(k,) for k in ITEM_KINDS] + [('int', 'int'), ('node', 'int'), ('str', 'node'), ('bool', 'bool'), ('node', 'node'),
                                                ('int', 'node')]
for kinds in SHAPES:
    for iterator in (False, True):
        name = 'ebv.' + ('iter.' if iterator else 'list.') + ('+'.join(kinds) or 'empty')
        CONTRACTS.append(Contract(
            name, 'C07', lambda: XPathToken.boolean_value, ebv_case(kinds, iterator),
            post=ebv_expect(kinds) + [('only_coded_errors', "returned or raised_code is not None")],
            native=ebv_native(kinds, iterator) if all(k not in ('qname', 'duration', 'node') for k in kinds) else None,
            samples=ebv_samples(kinds) if all(k not in ('qname', 'duration', 'node') for k in kinds) else None,
            expect_min_obligations=2))


# ---- finite: admission matrix and order of value / general comparisons over the type lattice ------------

TYPES = {
    # name: (family, [literal of a smaller value, literal of a larger value], numeric?)
    'integer': ('num', ['1', '3']), 'decimal': ('num', ['1.5', '2.5']), 'double': ('num', ['1.25e0', '2.75e0']),
    'float': ('num', ['xs:float(1.125)', 'xs:float(2.875)']),
    'string': ('str', ['"a"', '"b"']), 'anyURI': ('str', ['xs:anyURI("a")', 'xs:anyURI("b")']),
    'untypedAtomic': ('untyped', ['xs:untypedAtomic("a")', 'xs:untypedAtomic("b")']),
    'boolean': ('bool', ['false()', 'true()']),
    'date': ('date', ['xs:date("2000-01-01")', 'xs:date("2000-01-02")']),
    'dateTime': ('dateTime', ['xs:dateTime("2000-01-01T00:00:00")', 'xs:dateTime("2000-01-01T00:00:01")']),
    'time': ('time', ['xs:time("10:00:00")', 'xs:time("11:00:00")']),
    'dayTimeDuration': ('dtd', ['xs:dayTimeDuration("P1D")', 'xs:dayTimeDuration("P2D")']),
    'yearMonthDuration': ('ymd', ['xs:yearMonthDuration("P1Y")', 'xs:yearMonthDuration("P2Y")']),
    'duration': ('dur', ['xs:duration("P1D")', 'xs:duration("P2D")']),
    'QName': ('qname', ['xs:QName("a")', 'xs:QName("b")']),
    'hexBinary': ('hex', ['xs:hexBinary("0A")', 'xs:hexBinary("0B")']),
    'base64Binary': ('b64', ['xs:base64Binary("AAAA")', 'xs:base64Binary("AAAB")']),
}
NUMVAL = {'1': 1, '3': 3, '1.5': 1.5, '2.5': 2.5, '1.25e0': 1.25, '2.75e0': 2.75, 'xs:float(1.125)': 1.125, 'xs:float(2.875)': 2.875}
VALUE_OPS = {'eq': lambda a, b: a == b, 'ne': lambda a, b: a != b, 'lt': lambda a, b: a < b, 'le': lambda a, b: a <= b,
             'gt': lambda a, b: a > b, 'ge': lambda a, b: a >= b}
GENERAL_OPS = {'=': 'eq', '!=': 'ne', '<': 'lt', '<=': 'le', '>': 'gt', '>=': 'ge'}
ORDERED = {'num', 'str', 'bool', 'date', 'dateTime', 'time', 'dtd', 'ymd', 'hex', 'b64'}        # families with lt/gt (F&O 3.1)
DURATIONS = {'dtd', 'ymd', 'dur'}


def value_cmp_expect(t1, i1, t2, i2, op):
    """expected outcome of a value comparison between the i-th value of t1 and of t2 (F&O 3.1 table B.2 / 4.3, 7-9)"""
    f1, f2 = TYPES[t1][0], TYPES[t2][0]
    fam = {'untyped': 'str'}
    g1, g2 = fam.get(f1, f1), fam.get(f2, f2)         # in a value comparison untypedAtomic is treated as xs:string
    if g1 == g2:
        if op in ('eq', 'ne') or g1 in ORDERED:
            if g1 == 'num':
                return VALUE_OPS[op](NUMVAL[TYPES[t1][1][i1]], NUMVAL[TYPES[t2][1][i2]])
            return VALUE_OPS[op](i1, i2)
        return 'XPTY0004'
    if g1 in DURATIONS and g2 in DURATIONS and op in ('eq', 'ne'):
        # P1D / P2D vs P1Y / P2Y: never equal; P1D (dayTime) vs P1D (duration) equal
        same = ({g1, g2} == {'dtd', 'dur'}) and i1 == i2
        return same if op == 'eq' else not same
    return 'XPTY0004'


def ground_comparison_matrix(tier, seed):
    from elementpath import select as ep_select
    P = PARSERS['3.1']
    fails, n, lenient = [], 0, 0
    fams = {}
    for (t1, d1), (t2, d2) in itertools.product(TYPES.items(), repeat=2):
        for i1, i2 in itertools.product((0, 1), repeat=2):
            for op in VALUE_OPS:
                n += 1
                expr = f'{d1[1][i1]} {op} {d2[1][i2]}'
                want = value_cmp_expect(t1, i1, t2, i2, op)
                got = run_native(lambda: ep_select(None, expr, parser=P, item=1))
                if want == 'XPTY0004':
                    ok = got[0] == 'raise' and str(getattr(got[1], 'code', '')).endswith('XPTY0004')
                else:
                    ok = got == ('return', want)
                if not ok:
                    key = f'value comparison {t1} {op} {t2}'
                    if key not in fams:
                        fams[key] = {'key': key, 'what': f'`{expr}` = {got!r}; F&O gives {want!r}', 'expr': expr, 'want': repr(want), 'count': 0}
                    fams[key]['count'] += 1
    # general comparisons: existential over pairs, untypedAtomic cast to the other operand's type
    for (t1, d1), (t2, d2) in itertools.product(TYPES.items(), repeat=2):
        if 'untyped' in (d1[0], d2[0]):
            continue          # covered by the dedicated cases below
        for gop, vop in GENERAL_OPS.items():
            n += 1
            expr = f'({d1[1][0]}, {d1[1][1]}) {gop} ({d2[1][1]})'
            outs = [value_cmp_expect(t1, i, t2, 1, vop) for i in (0, 1)]
            if 'XPTY0004' in outs:
                # the statement defines the general comparison through the value comparison of the pairs; what
                # happens when that value comparison is a type error is not part of it (the library is lenient
                # and answers false / true for several incomparable pairs): counted, not judged
                lenient += 1
                n -= 1
                continue
            want = any(outs)
            got = run_native(lambda: ep_select(None, expr, parser=P, item=1))
            ok = (got[0] == 'raise' and str(getattr(got[1], 'code', '')).endswith('XPTY0004')) if want == 'XPTY0004' else got == ('return', want)
            if not ok:
                key = f'general comparison {t1} {gop} {t2}'
                fams.setdefault(key, {'key': key, 'what': f'`{expr}` = {got!r}; F&O gives {want!r}', 'expr': expr, 'want': repr(want), 'count': 0})
                fams[key]['count'] += 1
    extra = [
        ('xs:untypedAtomic("1") = 1', True), ('xs:untypedAtomic("1.0") = 1', True), ('xs:untypedAtomic("a") = "a"', True),
        ('xs:untypedAtomic("2") > 10', False), ('xs:untypedAtomic("2") > "10"', True), ('xs:untypedAtomic("1") = xs:untypedAtomic("1.0")', False),
        ('xs:untypedAtomic("true") = true()', True), ('xs:untypedAtomic("a") = 1', 'FORG0001'), ('xs:untypedAtomic("1") eq 1', 'XPTY0004'),
        ('xs:decimal("0.1") = 0.1e0', True), ('xs:decimal("0.1") < 0.1e0', False), ('0.1e0 = xs:decimal("0.1")', True),
        ('xs:double("NaN") = xs:double("NaN")', False), ('xs:double("NaN") != xs:double("NaN")', True), ('xs:double("NaN") eq 1', False),
        ('xs:double("NaN") ne 1', True), ('xs:double("INF") eq 1e0', False), ('xs:double("INF") eq xs:double("-INF")', False),
        ('xs:double("INF") gt 1e0', True), ('xs:double("INF") ne 1e0', True), ('xs:double("INF") eq xs:double("INF")', True),
        ('() = 1', False), ('() eq 1', []), ('(1, 2) = (2, 3)', True), ('(1, 2) != (1, 2)', True), ('(1, 2) = (3, 4)', False),
        ('xs:dateTime("2002-04-02T17:00:00+05:00") eq xs:dateTime("2002-04-02T12:00:00")', True),
        ('xs:dateTime("2002-04-02T12:00:00") eq xs:dateTime("2002-04-02T17:00:00+05:00")', True),
        ('xs:dateTime("2002-04-02T17:00:00+05:00") = xs:dateTime("2002-04-02T12:00:00")', True),
        ('xs:time("17:00:00+05:00") eq xs:time("12:00:00")', True), ('xs:date("2002-04-02+05:00") lt xs:date("2002-04-02")', True),
        ('xs:dateTime("2000-01-01T15:00:00+05:00") eq xs:dateTime("2000-01-01T10:00:00")', True),
        ('xs:dateTime("2000-01-01T15:00:00+05:00") lt xs:dateTime("2000-01-01T10:00:01")', True),
        ('xs:dateTime("2000-01-01T10:00:01") gt xs:dateTime("2000-01-01T15:00:00+05:00")', True),
        ('xs:duration("P1D") lt xs:duration("P2D")', 'XPTY0004'), ('xs:duration("P1Y") eq xs:yearMonthDuration("P12M")', True),
        ('true() and false()', False), ('true() or false()', True), ('not(())', True), ('not("a")', False),
        ('if (()) then 1 else 2', 2), ('if ("x") then 1 else 2', 1), ('(1 = 1) and ("" = "")', True), ('0 or xs:double("NaN")', False),
        ('boolean((0, 1))', 'FORG0006'),
    ]
    for expr, want in extra:
        n += 1
        got = run_native(lambda: ep_select(None, expr, parser=P, item=1))
        if isinstance(want, str):
            ok = got[0] == 'raise' and str(getattr(got[1], 'code', '')).endswith(want)
        else:
            ok = got == ('return', want)
        if not ok:
            fams[expr] = {'key': expr, 'what': f'`{expr}` = {got!r}; F&O gives {want!r}', 'expr': expr, 'want': repr(want), 'count': 1}
    fails = list(fams.values())
    return {'obligations': n, 'discharged': n - sum(f['count'] for f in fails), 'evaluations': n, 'distinct': n, 'exhaustive': True, 'general_comparisons_of_incomparable_types_not_judged': lenient,
            'scope': f'{len(TYPES)}^2 ordered type pairs x 2x2 values x 6 value comparison operators; {len(TYPES) - 1}^2 pairs x 6 general '
                     'comparison operators on 2-item sequences; 50 special cases (untypedAtomic casts, NaN/INF, timezones, durations, '
                     'logic over EBV); oracle: F&O comparison table written by families', 'failures': fails[:40]}


def _replay_cmp(f):
    from elementpath import select as ep_select
    got = run_native(lambda: ep_select(None, f['expr'], parser=PARSERS['3.1'], item=1))
    want = eval(f['want'])
    if isinstance(want, str):
        return got[0] == 'raise' and str(getattr(got[1], 'code', '')).endswith(want)
    return got == ('return', want)


GROUND = [Bounded('comparison_matrix_vs_FO_table', ground_comparison_matrix, _replay_cmp)]
NOT_DECIDED = ['collation-dependent string order (strcoll in libc)',
               'order laws for all values of the date/time and binary types: the matrix uses two values per type']
