"""C07 - comparisons, effective boolean value and logic match the specification tables.

Deductive: XPathToken.boolean_value against the F&O 2.4.3 (fn:boolean) table, for every shape of
the argument (empty / singleton / two items, list and iterator branch) and every item class of a
palette, with symbolic payloads (any integer, decimal, double incl. NaN/INF, any string); the value
comparison evaluator on exact numerics.  Finite (GROUND): the type-pair admission matrix of value and
general comparisons over the class lattice x 6 operators, and the order of the compared values.
"""
from __future__ import annotations

import decimal
import itertools
import math

from pyvc.values import *  # noqa
from pyvc.contract import Contract, Case
from pyvc.specprims import *  # noqa
from pyvc import interp as I
from .common import *  # noqa
from .bounded import Bounded
from elementpath.xpath_tokens.base import XPathToken
from elementpath.datatypes import UntypedAtomic, AnyURI, QName, DayTimeDuration
from elementpath.xpath_nodes import TextNode

# ---- EBV ------------------------------------------------------------------------------------------
ITEM_KINDS = {
    'bool': (lambda S, n, ex: S.bool(n), "{x}", True),
    'int': (lambda S, n, ex: S.int(n), "{x} != 0", True),
    'dec': (lambda S, n, ex: S.dec(n), "exact({x}) != 0", True),
    'float': (lambda S, n, ex: S.float(n, ex=ex), "not is_nan({x}) and (inf_sign({x}) != 0 or exact({x}) != 0)", True),
    'str': (lambda S, n, ex: S.str(n), "len({x}) > 0", True),
    'untyped': (lambda S, n, ex: VObj(UntypedAtomic, {'value': S.str(n + '_s')}, name=n), "len({x}.value) > 0", True),
    'anyuri': (lambda S, n, ex: VObj(AnyURI, {'value': S.str(n + '_s')}, name=n), "len({x}.value) > 0", True),
    'qname': (lambda S, n, ex: VObj(QName, {}, name=n), None, False),            # no EBV: FORG0006
    'duration': (lambda S, n, ex: VObj(DayTimeDuration, {}, name=n), None, False),
    'node': (lambda S, n, ex: VObj(TextNode, {}, name=n), "True", True),
}


def ebv_case(kinds, iterator):
    def setup(S, ex):
        items = [ITEM_KINDS[k][0](S, f'x{i}', ex) for i, k in enumerate(kinds)]
        lst = VPyList(items)
        obj = I.VIter(lst) if iterator else lst
        tok = mk_token('2.0', 'boolean', nitems=1)
        return Case([tok, obj], hooks=std_hooks(tok), names={f'x{i}': it for i, it in enumerate(items)})
    return setup


def ebv_expect(kinds):
    """(postconditions) from the F&O table"""
    if not kinds:
        return [('empty_sequence_is_false', "returned and result == False")]
    if kinds[0] == 'node':
        return [('first_item_node_is_true', "returned and result == True")]
    if len(kinds) > 1:
        return [('two_or_more_items_not_starting_with_a_node_is_FORG0006', "raised_code == 'FORG0006'")]
    spec, has = ITEM_KINDS[kinds[0]][1], ITEM_KINDS[kinds[0]][2]
    if not has:
        return [('no_ebv_for_this_type_is_FORG0006', "raised_code == 'FORG0006'")]
    return [('singleton_table', f"returned and result == ({spec.format(x='x0')})")]


def ebv_native(kinds, iterator):
    def native(i):
        from elementpath import XPath2Parser
        tok = XPath2Parser().parse('boolean(1)')
        vals = []
        for k, kind in enumerate(kinds):
            v = i.get(f'x{k}')
            if kind == 'untyped':
                v = UntypedAtomic(i[f'x{k}_s'])
            elif kind == 'anyuri':
                v = AnyURI(i[f'x{k}_s'])
            vals.append(v)
        return run_native(lambda: tok.boolean_value(iter(vals) if iterator else vals))
    return native


def ebv_samples(kinds):
    grid = {'bool': [True, False], 'int': [0, 1, -3], 'dec': [decimal.Decimal(0), decimal.Decimal('0.5')],
            'float': [0.0, -0.0, 1.5, float('nan'), float('inf')], 'str': ['', 'a', 'false'], 'untyped': ['', 'x'], 'anyuri': ['', 'u']}

    def gen(rng):
        ks = [k for k in kinds if k in grid]
        if len(ks) != len(kinds):
            return
        for combo in itertools.product(*[grid[k] for k in kinds]):
            yield {(f'x{i}_s' if kinds[i] in ('untyped', 'anyuri') else f'x{i}'): v for i, v in enumerate(combo)}
    return gen


CONTRACTS = []
SHAPES = [()] + [(k,) for k in ITEM_KINDS] + [('int', 'int'), ('node', 'int'), ('str', 'node'), ('bool', 'bool'), ('node', 'node'),
                                                ('int', 'node')]
for kinds in SHAPES:
    for iterator in (False, True):
        name = 'ebv.' + ('iter.' if iterator else 'list.') + ('+'.join(kinds) or 'empty')
        CONTRACTS.append(Contract(
            name, 'C07', lambda: XPathToken.boolean_value, ebv_case(kinds, iterator),
            post=ebv_expect(kinds) + [('only_coded_errors', "returned or raised_code is not None")],
            native=ebv_native(kinds, iterator) if all(k not in ('qname', 'duration', 'node') for k in kinds) else None,
            samples=ebv_samples(kinds) if all(k not in ('qname', 'duration', 'node') for k in kinds) else None,
            expect_min_obligations=2))


# ---- finite: admission matrix and order of value / general comparisons over the type lattice ------------

TYPES = {
    # name: (family, [literal of a smaller value, literal of a larger value], numeric?)
    'integer': ('num', ['1', '3']), 'decimal': ('num', ['1.5', '2.5']), 'double': ('num', ['1.25e0', '2.75e0']),
    'float': ('num', ['xs:float(1.125)', 'xs:float(2.875)']),
    'string': ('str', ['"a"', '"b"']), 'anyURI': ('str', ['xs:anyURI("a")', 'xs:anyURI("b")']),
    'untypedAtomic': ('untyped', ['xs:untypedAtomic("a")', 'xs:untypedAtomic("b")']),
    'boolean': ('bool', ['false()', 'true()']),
    'date': ('date', ['xs:date("2000-01-01")', 'xs:date("2000-01-02")']),
    'dateTime': ('dateTime', ['xs:dateTime("2000-01-01T00:00:00")', 'xs:dateTime("2000-01-01T00:00:01")']),
    'time': ('time', ['xs:time("10:00:00")', 'xs:time("11:00:00")']),
    'dayTimeDuration': ('dtd', ['xs:dayTimeDuration("P1D")', 'xs:dayTimeDuration("P2D")']),
    'yearMonthDuration': ('ymd', ['xs:yearMonthDuration("P1Y")', 'xs:yearMonthDuration("P2Y")']),
    'duration': ('dur', ['xs:duration("P1D")', 'xs:duration("P2D")']),
    'QName': ('qname', ['xs:QName("a")', 'xs:QName("b")']),
    'hexBinary': ('hex', ['xs:hexBinary("0A")', 'xs:hexBinary("0B")']),
    'base64Binary': ('b64', ['xs:base64Binary("AAAA")', 'xs:base64Binary("AAAB")']),
}
NUMVAL = {'1': 1, '3': 3, '1.5': 1.5, '2.5': 2.5, '1.25e0': 1.25, '2.75e0': 2.75, 'xs:float(1.125)': 1.125, 'xs:float(2.875)': 2.875}
VALUE_OPS = {'eq': lambda a, b: a == b, 'ne': lambda a, b: a != b, 'lt': lambda a, b: a < b, 'le': lambda a, b: a <= b,
             'gt': lambda a, b: a > b, 'ge': lambda a, b: a >= b}
GENERAL_OPS = {'=': 'eq', '!=': 'ne', '<': 'lt', '<=': 'le', '>': 'gt', '>=': 'ge'}
ORDERED = {'num', 'str', 'bool', 'date', 'dateTime', 'time', 'dtd', 'ymd', 'hex', 'b64'}        # families with lt/gt (F&O 3.1)
DURATIONS = {'dtd', 'ymd', 'dur'}


def value_cmp_expect(t1, i1, t2, i2, op):
    """expected outcome of a value comparison between the i-th value of t1 and of t2 (F&O 3.1 table B.2 / 4.3, 7-9)"""
    f1, f2 = TYPES[t1][0], TYPES[t2][0]
    fam = {'untyped': 'str'}
    g1, g2 = fam.get(f1, f1), fam.get(f2, f2)         # in a value comparison untypedAtomic is treated as xs:string
    if g1 == g2:
        if op in ('eq', 'ne') or g1 in ORDERED:
            if g1 == 'num':
                return VALUE_OPS[op](NUMVAL[TYPES[t1][1][i1]], NUMVAL[TYPES[t2][1][i2]])
            return VALUE_OPS[op](i1, i2)
        return 'XPTY0004'
    if g1 in DURATIONS and g2 in DURATIONS and op in ('eq', 'ne'):
        # P1D / P2D vs P1Y / P2Y: never equal; P1D (dayTime) vs P1D (duration) equal
        same = ({g1, g2} == {'dtd', 'dur'}) and i1 == i2
        return same if op == 'eq' else not same
    return 'XPTY0004'


def ground_comparison_matrix(tier, seed):
    from elementpath import select as ep_select
    P = PARSERS['3.1']
    fails, n, lenient = [], 0, 0
    fams = {}
    for (t1, d1), (t2, d2) in itertools.product(TYPES.items(), repeat=2):
        for i1, i2 in itertools.product((0, 1), repeat=2):
            for op in VALUE_OPS:
                n += 1
                expr = f'{d1[1][i1]} {op} {d2[1][i2]}'
                want = value_cmp_expect(t1, i1, t2, i2, op)
                got = run_native(lambda: ep_select(None, expr, parser=P, item=1))
                if want == 'XPTY0004':
                    ok = got[0] == 'raise' and str(getattr(got[1], 'code', '')).endswith('XPTY0004')
                else:
                    ok = got == ('return', want)
                if not ok:
                    key = f'value comparison {t1} {op} {t2}'
                    if key not in fams:
                        fams[key] = {'key': key, 'what': f'`{expr}` = {got!r}; F&O gives {want!r}', 'expr': expr, 'want': repr(want), 'count': 0}
                    fams[key]['count'] += 1
    # general comparisons: existential over pairs, untypedAtomic cast to the other operand's type
    for (t1, d1), (t2, d2) in itertools.product(TYPES.items(), repeat=2):
        if 'untyped' in (d1[0], d2[0]):
            continue          # covered by the dedicated cases below
        for gop, vop in GENERAL_OPS.items():
            n += 1
            expr = f'({d1[1][0]}, {d1[1][1]}) {gop} ({d2[1][1]})'
            outs = [value_cmp_expect(t1, i, t2, 1, vop) for i in (0, 1)]
            got = run_native(lambda: ep_select(None, expr, parser=P, item=1))
            if 'XPTY0004' in outs:
                # the statement defines the general comparison through the value comparison of the pairs: a pair whose value
                # comparison is a type error satisfies nothing, so the answer is the type error (F&O) or, read leniently, what
                # the remaining pairs give; an answer 'true' that no comparable pair supports is a violation
                lenient += 1
                want = any(o is True for o in outs)
                ok = (got[0] == 'raise' and str(getattr(got[1], 'code', '')).endswith('XPTY0004')) or got == ('return', want)
                want = f'XPTY0004 (or {want})'
            else:
                want = any(outs)
                ok = got == ('return', want)
            if not ok:
                key = f'general comparison {t1} {gop} {t2}'
                fams.setdefault(key, {'key': key, 'what': f'`{expr}` = {got!r}; F&O gives {want!r}', 'expr': expr, 'want': repr(want), 'count': 0})
                fams[key]['count'] += 1
    extra = [
        ('xs:untypedAtomic("1") = 1', True), ('xs:untypedAtomic("1.0") = 1', True), ('xs:untypedAtomic("a") = "a"', True),
        ('xs:untypedAtomic("2") > 10', False), ('xs:untypedAtomic("2") > "10"', True), ('xs:untypedAtomic("1") = xs:untypedAtomic("1.0")', False),
        ('xs:untypedAtomic("true") = true()', True), ('xs:untypedAtomic("a") = 1', 'FORG0001'), ('xs:untypedAtomic("1") eq 1', 'XPTY0004'),
        ('xs:dayTimeDuration("P1D") < xs:untypedAtomic("P2D")', True), ('xs:date("2001-01-01") < xs:untypedAtomic("2001-01-02")', True),
        ('xs:untypedAtomic("P2D") > xs:dayTimeDuration("P1D")', True), ('xs:untypedAtomic("NaN") < 1.0', False), ('1.0 > xs:untypedAtomic("NaN")', False),
        ('xs:untypedAtomic("0.1000000000000000000001") = xs:decimal("0.1")', True), ('xs:decimal("0.1") = xs:untypedAtomic("0.1000000000000000000001")', True),
        ('xs:untypedAtomic("9007199254740993") = 9007199254740993', True), ('9007199254740993 = xs:untypedAtomic("9007199254740993")', True),
        ('xs:untypedAtomic("9007199254740993") = 9007199254740992', True),
        ('true() = 1.0', 'XPTY0004'), ('true() = 1e0', 'XPTY0004'), ('true() < 2.0', 'XPTY0004'), ('true() = xs:float("1")', 'XPTY0004'),
        ('xs:untypedAtomic(" true ") = true()', True), ('true() = xs:untypedAtomic(" 1 ")', True), ('xs:untypedAtomic(" 0 ") != false()', False),
        ('xs:untypedAtomic(" 1 ") = 1', True), ('xs:untypedAtomic(" 2000-01-01 ") = xs:date("2000-01-01")', True), ('xs:untypedAtomic("tru e") = true()', 'FORG0001'),
        ('xs:untypedAtomic("x") = xs:date("2000-01-01")', 'FORG0001'), ('xs:date("2000-01-01") = xs:untypedAtomic("x")', 'FORG0001'),
        ('xs:decimal("0.1") = 0.1e0', True), ('xs:decimal("0.1") < 0.1e0', False), ('0.1e0 = xs:decimal("0.1")', True),
        ('xs:double("NaN") = xs:double("NaN")', False), ('xs:double("NaN") != xs:double("NaN")', True), ('xs:double("NaN") eq 1', False),
        ('xs:double("NaN") ne 1', True), ('xs:double("INF") eq 1e0', False), ('xs:double("INF") eq xs:double("-INF")', False),
        ('xs:double("INF") gt 1e0', True), ('xs:double("INF") ne 1e0', True), ('xs:double("INF") eq xs:double("INF")', True),
        ('() = 1', False), ('() eq 1', []), ('(1, 2) = (2, 3)', True), ('(1, 2) != (1, 2)', True), ('(1, 2) = (3, 4)', False),
        ('xs:dateTime("2002-04-02T17:00:00+05:00") eq xs:dateTime("2002-04-02T12:00:00")', True),
        ('xs:dateTime("2002-04-02T12:00:00") eq xs:dateTime("2002-04-02T17:00:00+05:00")', True),
        ('xs:dateTime("2002-04-02T17:00:00+05:00") = xs:dateTime("2002-04-02T12:00:00")', True),
        ('xs:time("17:00:00+05:00") eq xs:time("12:00:00")', True), ('xs:date("2002-04-02+05:00") lt xs:date("2002-04-02")', True),
        ('xs:dateTime("2000-01-01T15:00:00+05:00") eq xs:dateTime("2000-01-01T10:00:00")', True),
        ('xs:dateTime("2000-01-01T15:00:00+05:00") lt xs:dateTime("2000-01-01T10:00:01")', True),
        ('xs:dateTime("2000-01-01T10:00:01") gt xs:dateTime("2000-01-01T15:00:00+05:00")', True),
        ('xs:duration("P1D") lt xs:duration("P2D")', 'XPTY0004'), ('xs:duration("P1Y") eq xs:yearMonthDuration("P12M")', True),
        ('true() and false()', False), ('true() or false()', True), ('not(())', True), ('not("a")', False),
        ('if (()) then 1 else 2', 2), ('if ("x") then 1 else 2', 1), ('(1 = 1) and ("" = "")', True), ('0 or xs:double("NaN")', False),
        ('boolean((0, 1))', 'FORG0006'),
    ]
    for expr, want in extra:
        n += 1
        got = run_native(lambda: ep_select(None, expr, parser=P, item=1))
        if isinstance(want, str):
            ok = got[0] == 'raise' and any(str(getattr(got[1], 'code', '')).endswith(w) for w in want.split('|'))
        else:
            ok = got == ('return', want)
        if not ok:
            fams[expr] = {'key': expr, 'what': f'`{expr}` = {got!r}; F&O gives {want!r}', 'expr': expr, 'want': repr(want), 'count': 1}
    fails = list(fams.values())
    return {'obligations': n, 'discharged': n - sum(f['count'] for f in fails), 'evaluations': n, 'distinct': n, 'exhaustive': True, 'general_comparisons_with_an_incomparable_pair_judged_as_error_or_remaining_pairs': lenient,
            'scope': f'{len(TYPES)}^2 ordered type pairs x 2x2 values x 6 value comparison operators; {len(TYPES) - 1}^2 pairs x 6 general '
                     'comparison operators on 2-item sequences; 50 special cases (untypedAtomic casts, NaN/INF, timezones, durations, '
                     'logic over EBV); oracle: F&O comparison table written by families', 'failures': fails[:40]}


def _replay_cmp(f):
    from elementpath import select as ep_select
    got = run_native(lambda: ep_select(None, f['expr'], parser=PARSERS['3.1'], item=1))
    want = eval(f['want'])
    if isinstance(want, str) and want.startswith('XPTY0004 (or '):
        return (got[0] == 'raise' and str(getattr(got[1], 'code', '')).endswith('XPTY0004')) or got == ('return', want.endswith('True)'))
    if isinstance(want, str):
        return got[0] == 'raise' and any(str(getattr(got[1], 'code', '')).endswith(w) for w in want.split('|'))
    return got == ('return', want)


# ---- bounded stand-ins -------------------------------------------------------------------------------

def xpath10_comparisons(tier, seed):
    """XPath 1.0 (and the 1.0 compatibility mode of XPath 2.0) comparisons: node-sets, numbers, strings and booleans.
    Oracle for 1.0: libxml2 on the same document; for the 2.0 compatibility mode: XPath 2.0 section 3.5.2 rules 1-3."""
    import lxml.etree as LX
    import xml.etree.ElementTree as ET
    from elementpath import select as ep_select, XPath1Parser, XPath2Parser
    src = '<r><a>10</a><a>9</a><b n="9">9</b><c>x</c><d/><t>true</t><z>0</z></r>'
    r, lx = ET.XML(src), LX.XML(src)
    ops = ['=', '!=', '<', '<=', '>', '>=']
    terms = ['a', 'b', 'c', 'd', 'e', 't', 'z', 'b/@n', 'a|b', 'true()', 'false()', '0', '1', '9', '9.5', '-1', "'x'", "''", "'9'", "'true'", "'0'", "' 9 '",
             '1 div 0', '-1 div 0', '0 div 0']
    kind = lambda t: ('boolean' if t.endswith('()') else 'string' if t.startswith("'") else 'number' if t[0].isdigit() or t[0] == '-' else 'node-set')   # noqa
    fams, n, seen = {}, 0, set()
    for x, y in itertools.product(terms, repeat=2):
        for op in ops:
            expr = f'{x} {op} {y}'
            n += 1
            seen.add((kind(x), kind(y), op))
            got = run_native(lambda: ep_select(r, expr, parser=XPath1Parser))
            want = lx.xpath(expr)
            if got != ('return', want):
                key = f'XPath 1.0: {kind(x)} {"=" if op in ("=", "!=") else "<"} {kind(y)} differs from libxml2'
                fams.setdefault(key, []).append({'expr': expr, 'elementpath': repr(got)[:90], 'libxml2': repr(want)})
    # XPath 2.0 with compatibility_mode=True: rule 1 (a single boolean operand: the other operand by its effective boolean value, the
    # operator applied to (left, right) in that order), rule 3 (order operators: both operands by fn:number, NaN for non-numbers)
    vals = [('true()', True), ('false()', False), ('0', 0.0), ('5', 5.0), ("''", math.nan), ("'a'", math.nan), ("'0'", 0.0), ("'7'", 7.0), ('()', None),
            ('xs:untypedAtomic("3")', 3.0), ('xs:untypedAtomic("x")', math.nan)]
    ebv = {'true()': True, 'false()': False, '0': False, '5': True, "''": False, "'a'": True, "'0'": True, "'7'": True, '()': False,
           'xs:untypedAtomic("3")': True, 'xs:untypedAtomic("x")': True}
    pyop = {'=': lambda a, b: a == b, '!=': lambda a, b: a != b, '<': lambda a, b: a < b, '<=': lambda a, b: a <= b, '>': lambda a, b: a > b, '>=': lambda a, b: a >= b}
    for (x, vx), (y, vy) in itertools.product(vals, repeat=2):
        for op in ops:
            isb = lambda t: t in ('true()', 'false()')     # noqa
            if isb(x) or isb(y):
                want = pyop[op](ebv[x], ebv[y])
                rule = 'rule 1 (boolean operand)'
            elif op in ('<', '<=', '>', '>='):
                want = False if vx is None or vy is None else pyop[op](vx, vy)
                rule = 'rule 3 (order operators by fn:number)'
            else:
                continue
            n += 1
            seen.add(('compat', rule, op))
            expr = f'{x} {op} {y}'
            got = run_native(lambda: ep_select(None, expr, parser=XPath2Parser, compatibility_mode=True, item=1))
            if got != ('return', want):
                fams.setdefault(f'XPath 2.0 compatibility mode, {rule}', []).append({'expr': expr, 'got': repr(got)[:90], 'expected': repr(want)})
    fails = [{'key': k, 'items': it[:4], 'count': len(it), 'what': f'{k}: e.g. {it[0]}', 'expr': it[0]['expr']} for k, it in fams.items()]
    return {'evaluations': n, 'distinct': len(seen), 'failures': fails, 'n_failures': len(fails),
            'scope': f'{len(terms)}^2 operand pairs (node-sets incl. empty/multi-node/attribute/union, numbers incl. INF/NaN, strings, booleans) x 6 operators with '
                     f'the XPath 1.0 parser against libxml2; {len(vals)}^2 operand pairs x 6 operators with XPath 2.0 compatibility mode against rules 1 and 3 of '
                     'XPath 2.0 3.5.2', 'rule': 'distinct = (operand kinds, operator)'}


def _order_grids():
    from fractions import Fraction as Fr
    g = {}
    g['dayTimeDuration'] = [(f'xs:dayTimeDuration("{t}")', k) for t, k in (
        ('-P1D', Fr(-86400)), ('-PT0.0009S', Fr(-9, 10000)), ('PT0S', Fr(0)), ('PT0.0001S', Fr(1, 10000)), ('PT0.0002S', Fr(2, 10000)), ('PT0.001S', Fr(1, 1000)),
        ('PT0.0011S', Fr(11, 10000)), ('PT1S', Fr(1)), ('PT1M', Fr(60)), ('PT60S', Fr(60)), ('P1D', Fr(86400)), ('PT24H', Fr(86400)))]
    g['yearMonthDuration'] = [(f'xs:yearMonthDuration("{t}")', k) for t, k in (('-P1Y', -12), ('P0M', 0), ('P1M', 1), ('P11M', 11), ('P1Y', 12), ('P12M', 12), ('P13M', 13))]
    g['integer'] = [(str(v), Fr(v)) for v in (-2 ** 63 - 1, -1, 0, 1, 2 ** 53, 2 ** 53 + 1, 10 ** 30)]
    g['decimal'] = [(t, Fr(t)) for t in ('-1.5', '0.0', '0.1', '0.10', '1.0', '1.000000000000000000001', '9007199254740993.0')]
    g['string'] = [(f'"{t}"', [ord(c) for c in t]) for t in ('', 'A', 'B', 'a', 'aa', 'b', '\u00e9', '\U00010000')]
    g['boolean'] = [('false()', 0), ('true()', 1)]
    g['hexBinary'] = [(f'xs:hexBinary("{t}")', bytes.fromhex(t)) for t in ('', '00', '0001', '01', 'FF', 'ff')]
    g['base64Binary'] = [(f'xs:base64Binary("{t}")', k) for t, k in (('', b''), ('AA==', b'\x00'), ('AAE=', b'\x00\x01'), ('AQ==', b'\x01'), ('/w==', b'\xff'))]
    g['date'] = [(f'xs:date("{t}")', k) for t, k in (('-0001-12-31', -400), ('1999-12-31', 0), ('2000-01-01+14:00', 10), ('2000-01-01', 24), ('2000-01-01Z', 24),
                                                       ('2000-01-01-12:00', 36), ('2000-01-02', 48), ('10000-01-01', 10 ** 7))]
    g['dateTime'] = [(f'xs:dateTime("{t}")', k) for t, k in (('1999-12-31T23:59:59.999', -1), ('2000-01-01T00:00:00', 0), ('2000-01-01T00:00:00Z', 0),
                                                               ('2000-01-01T05:00:00+05:00', 0), ('2000-01-01T00:00:00.001', 1), ('2000-01-01T00:00:00-00:01', 60000),
                                                               ('2000-01-01T24:00:00', 86400000), ('2000-01-02T00:00:00', 86400000))]
    g['time'] = [(f'xs:time("{t}")', k) for t, k in (('00:00:00', 0), ('00:00:00.5', 500), ('05:00:00+05:00', 0), ('12:00:00', 43200000), ('23:59:59.999', 86399999))]
    import struct
    f32 = lambda t: struct.unpack('f', struct.pack('f', float(t)))[0]        # noqa: E731  (the value space of xs:float is IEEE single precision)
    g['float'] = [(f'xs:float("{t}")', f32(t)) for t in ('-1.5', '-0', '0', '1.0', '1.1', '1.5', '16777216', '16777218', '3.4028235E38', 'INF')]
    # lexical forms that single precision does not separate, or separates by one unit in the last place (own grid: the library keeps xs:float in double
    # precision with an approximate equality, which is a listed finding; the grid above stays free of it)
    g['float (neighbouring single precision values)'] = [(f'xs:float("{t}")', f32(t)) for t in ('1.0', '1.00000001', '1.00000002', '1.00000008', '16777216', '16777217')]
    g['double'] = [(t, k) for t, k in (('xs:double("-INF")', -math.inf), ('-1e300', -1e300), ('-0e0', 0.0), ('0e0', 0.0), ('5e-324', 5e-324), ('0.1e0', 0.1), ('1e0', 1.0),
                                       ('9007199254740992e0', 2.0 ** 53), ('xs:double("INF")', math.inf))]
    return g


def order_laws(tier, seed):
    """Value comparisons and singleton general comparisons against the order of the value space, on grids of values per type with an
    independently computed key (exact fractions of seconds, months, code points, octets, instants with the implicit timezone UTC)."""
    from fractions import Fraction as Fr
    from elementpath import select as ep_select
    fams, n, seen = {}, 0, set()
    P = PARSERS['3.1']
    vop = {'eq': '=', 'ne': '!=', 'lt': '<', 'le': '<=', 'gt': '>', 'ge': '>='}
    grids = _order_grids()
    for tname, grid in grids.items():
        for (a, ka), (b, kb) in itertools.product(grid, repeat=2):
            for op, fn_ in VALUE_OPS.items():
                want = fn_(ka, kb)
                for form, expr in (('value', f'{a} {op} {b}'), ('general', f'{a} {vop[op]} {b}')):
                    n += 1
                    seen.add((tname, op, form, ka == kb, ka < kb))
                    got = run_native(lambda: ep_select(None, expr, parser=P, item=1))
                    if got != ('return', want):
                        fams.setdefault(f'{form} comparison {op} on xs:{tname} disagrees with the order of the value space', []).append(
                            {'expr': expr, 'got': repr(got)[:90], 'expected': want})
    # numeric operands of different types: compared after promotion (integer/decimal exactly, with a double as doubles)
    nums = [(t, k, 'exact') for t, k in grids['integer'] + grids['decimal']] + [(t, k, 'double') for t, k in grids['double']]
    for (a, ka, ca), (b, kb, cb) in itertools.product(nums, repeat=2):
        if ca == cb == 'double':
            continue
        if 'double' in (ca, cb):
            fa = float(ka) if ca == 'exact' else ka
            fb = float(kb) if cb == 'exact' else kb
        else:
            fa, fb = ka, kb
        for op, fn_ in VALUE_OPS.items():
            want = fn_(fa, fb)
            for form, expr in (('value', f'{a} {op} {b}'), ('general', f'{a} {vop[op]} {b}')):
                n += 1
                seen.add(('mixed numeric', ca, cb, op, form))
                got = run_native(lambda: ep_select(None, expr, parser=P, item=1))
                if got != ('return', want):
                    fams.setdefault(f'{form} comparison {op} of numeric operands of different types ({ca} with {cb}) disagrees with the promoted values', []).append(
                        {'expr': expr, 'got': repr(got)[:90], 'expected': want})
    # general comparisons of two xs:untypedAtomic values compare strings; value comparisons on types without an order raise XPTY0004
    extra = [('xs:untypedAtomic("10") < xs:untypedAtomic("9")', True), ('xs:untypedAtomic("10") > xs:untypedAtomic("9")', False),
             ('xs:untypedAtomic("1") = xs:untypedAtomic("1.0")', False), ('xs:untypedAtomic("a") <= xs:untypedAtomic("a")', True),
             ('xs:gYear("2000") lt xs:gYear("2001")', 'XPTY0004'), ('xs:gYear("2000") eq xs:gYear("2000")', True), ('xs:gMonthDay("--01-01") gt xs:gMonthDay("--01-02")', 'XPTY0004'),
             ('xs:QName("a") lt xs:QName("b")', 'XPTY0004'), ('xs:duration("P1D") le xs:duration("P1D")', 'XPTY0004'),
             ('xs:hexBinary("00") eq xs:base64Binary("AA==")', 'XPTY0004'), ('xs:date("2000-01-01") eq xs:dateTime("2000-01-01T00:00:00")', 'XPTY0004'),
             ('xs:time("00:00:00") eq xs:date("2000-01-01")', 'XPTY0004'), ('1 eq "1"', 'XPTY0004'), ('true() eq 1', 'XPTY0004')]
    for expr, want in extra:
        n += 1
        seen.add(('extra', expr))
        got = run_native(lambda: ep_select(None, expr, parser=P, item=1))
        ok = (got[0] == 'raise' and str(getattr(got[1], 'code', '')).endswith(want)) if isinstance(want, str) else got == ('return', want)
        if not ok:
            fams.setdefault(f'`{expr}`', []).append({'expr': expr, 'got': repr(got)[:90], 'expected': want})
    # XSD 1.1: xs:dateTimeStamp is derived from xs:dateTime, the two compare in both operand orders
    for a, b, ka, kb in (('xs:dateTime("2000-01-01T00:00:00Z")', 'xs:dateTimeStamp("2000-01-01T00:00:01Z")', 0, 1),
                         ('xs:dateTimeStamp("2000-01-01T00:00:01Z")', 'xs:dateTime("2000-01-01T00:00:00Z")', 1, 0),
                         ('xs:dateTimeStamp("2000-01-01T00:00:00Z")', 'xs:dateTime("2000-01-01T01:00:00+01:00")', 0, 0),
                         ('xs:dateTimeStamp("2000-01-01T00:00:00Z")', 'xs:dateTimeStamp("2000-01-01T00:00:00Z")', 0, 0)):
        for op, fn_ in VALUE_OPS.items():
            for form, expr in (('value', f'{a} {op} {b}'), ('general', f'{a} {vop[op]} {b}')):
                n += 1
                seen.add(('dateTimeStamp', op, form))
                got = run_native(lambda: ep_select(None, expr, parser=P, xsd_version='1.1', item=1))
                if got != ('return', fn_(ka, kb)):
                    fams.setdefault(f'XSD 1.1: {form} comparison between xs:dateTime and xs:dateTimeStamp', []).append({'expr': expr, 'got': repr(got)[:90], 'expected': fn_(ka, kb)})
    # operands that outlive an evaluation (variables) are not changed by a comparison: the same values compared again under another implicit timezone
    from elementpath import XPathContext
    from elementpath.datatypes import DateTime, Date, Time
    for mk, other in ((lambda: DateTime.fromstring('2000-01-01T05:00:00'), 'xs:dateTime("2000-01-01T00:00:00Z")'), (lambda: Date.fromstring('2000-01-01'), 'xs:date("2000-01-01+05:00")'),
                      (lambda: Time.fromstring('05:00:00'), 'xs:time("00:00:00Z")')):
        for op1, op2 in itertools.product(('=', '!=', '<', '>=', 'eq', 'lt'), repeat=2):
            n += 1
            seen.add(('operand frame', op1 in VALUE_OPS, op2 in VALUE_OPS))
            d = mk()
            before = (str(d), d.tzinfo)
            outs = []
            for op, tz in ((op1, '+05:00'), (op2, 'Z')):
                fresh = mk()
                tok = P().parse(f'$d {op} {other}')
                got = run_native(lambda: tok.evaluate(XPathContext(root=None, item=1, variables={'d': d}, timezone=tz)))
                ref = run_native(lambda: P().parse(f'$d {op} {other}').evaluate(XPathContext(root=None, item=1, variables={'d': fresh}, timezone=tz)))
                outs.append((op, tz, got, ref))
            if (str(d), d.tzinfo) != before or any(g != r for _, _, g, r in outs):
                fams.setdefault('a comparison changes an operand bound to a variable (a later comparison of the same value under another implicit timezone gives '
                                'the answer of the first)', []).append({'expr': f'$d {op1} {other} under +05:00, then $d {op2} {other} under Z', 'got': repr([o[2] for o in outs])[:90],
                                                                        'expected': repr([o[3] for o in outs])[:90], 'operand_after': f'{d} tzinfo={d.tzinfo}'})
    fails = [{'key': k, 'items': it[:4], 'count': len(it), 'what': f'{k}: e.g. {it[0]}', 'expr': it[0]['expr']} for k, it in fams.items()]
    return {'evaluations': n, 'distinct': len(seen), 'failures': fails, 'n_failures': len(fails),
            'scope': f'{len(grids)} ordered types x all pairs of a value grid (5-12 values each: sub-millisecond durations, equal values with different lexical forms, '
                     'timezones, BCE/5-digit years, 24:00:00, integers around 2**53 and beyond 2**64, signed zeros, INF) x 6 operators x value/general form; mixed numeric '
                     'types after promotion; untypedAtomic pairs; types without order; XSD 1.1 dateTimeStamp', 'rule': 'distinct = (type, operator, form, order class of the pair)'}


_REPLAY_CACHE = {}


def _replay_expr_c07(f):
    print('replay: re-running the bounded check for', f.get('key'))
    for fn_ in (xpath10_comparisons, order_laws):
        if fn_.__name__ not in _REPLAY_CACHE:         # one re-run per process serves every recorded failure
            _REPLAY_CACHE[fn_.__name__] = fn_('quick', 0)
        if any(x['key'] == f.get('key') for x in _REPLAY_CACHE[fn_.__name__]['failures']):
            return False
    return True


BOUNDED = [Bounded('xpath10_and_compatibility_mode_comparisons', xpath10_comparisons, _replay_expr_c07),
           Bounded('order_laws_on_value_grids', order_laws, _replay_expr_c07)]
GROUND = [Bounded('comparison_matrix_vs_FO_table', ground_comparison_matrix, _replay_cmp)]
NOT_DECIDED = ['collation-dependent string order (strcoll in libc)',
               'order laws for all values of the date/time and binary types: the matrix uses two values per type']
