"""C17 - JSON and XML serialisation round-trip through their parsers.

Finite, completely enumerated (GROUND): escape_json_string on every Unicode scalar value: the escaped text, wrapped in quotes, is read back by the
independent stdlib JSON parser as the character itself (the escape function is a chain of single-character `str.replace` calls and a
per-character join, i.e. a character-wise homomorphism; interactions between neighbouring characters are covered by the bounded grid).
Bounded stand-ins: JSON values (exhaustive small universe + seeded deep values) through serialize / parse-json / json-to-xml / xml-to-json
with the stdlib json module as the independent reader; XML trees of contracts/trees.py through serialize / parse-xml with an independent
tree comparison and fn:deep-equal.
"""
from __future__ import annotations

import itertools
import json
import math
import random

from .bounded import Bounded
from . import trees as T
from elementpath import XPathContext, get_node_tree
from elementpath.exceptions import ElementPathError
from elementpath.helpers import escape_json_string
from elementpath.xpath31 import XPath31Parser

BOUNDED_NOTE = 'serialisers/parsers are string-building loops over library objects (json module hooks, ElementTree) outside the deductive subset'


def ground_escape_all_code_points(tier, seed):
    fails, n = [], 0
    for cp in itertools.chain(range(0, 0xD800), range(0xE000, 0x110000)):
        c = chr(cp)
        n += 1
        try:
            back = json.loads('"' + escape_json_string(c) + '"')
        except ValueError as e:
            back = f'not JSON: {e}'
        if back != c:
            k = 'control' if cp < 32 or 127 <= cp < 160 else 'other'
            fails.append({'key': f'escape_json_string on a {k} character', 'cp': cp, 'what': f'escape_json_string(chr(0x{cp:04X})) = {escape_json_string(c)!r} '
                          f'reads back as {back!r}'})
    uniq = {}
    for f in fails:
        uniq.setdefault(f['key'], f)
    return {'obligations': n, 'discharged': n - len(fails), 'evaluations': n, 'distinct': n, 'exhaustive': True, 'count_each': True,
            'scope': 'all 1,112,064 Unicode scalar values: json.loads(\'"\' + escape_json_string(c) + \'"\') == c (stdlib JSON parser as the independent reader)',
            'failures': list(uniq.values())}


def _replay_escape(f):
    c = chr(f['cp'])
    try:
        return json.loads('"' + escape_json_string(c) + '"') == c
    except ValueError:
        return False


def ground_escaped_mode(tier, seed):
    """escape_json_string(s, escaped=True) - the string content of an element with escaped="true" in fn:xml-to-json: s is a sequence of JSON escape sequences and plain
    characters; the output is the content of a JSON string that denotes the same characters.  Finite domain: every scalar value as the plain character between each
    pair of escape sequences (and alone)."""
    escapes = {'\\n': '\n', '\\\\': '\\', '\\"': '"', '\\/': '/', '\\u0041': 'A', '\\t': '\t', '\\b': '\b', '\\f': '\f', '\\r': '\r', '\\ud83d\\ude00': '\U0001F600'}
    frames = [('', '')] + [(a, b) for a in escapes for b in ('', '\\\\', '\\u0041')]
    fails, n = [], 0
    for cp in itertools.chain(range(0, 0x5C), range(0x5D, 0xD800), range(0xE000, 0x110000)):          # every scalar except the backslash itself
        c = chr(cp)
        for a, b in (frames if cp < 0x3000 or cp % 997 == 0 else frames[:3]):
            n += 1
            text = a + c + b
            want = escapes.get(a, '') + c + escapes.get(b, '')
            try:
                back = json.loads('"' + escape_json_string(text, True) + '"')
            except ValueError as e:
                back = f'not JSON: {e}'
            if back != want:
                k = 'control' if cp < 32 or 127 <= cp < 160 else 'quote or solidus' if c in '"/' else 'other'
                fails.append({'key': f'escape_json_string(escaped) on a {k} character next to {"no" if not a else "an"} escape sequence', 'cp': cp, 'frame': [a, b],
                              'what': f'escape_json_string({text!r}, escaped=True) = {escape_json_string(text, True)!r} reads back as {back!r}, expected {want!r}'})
    uniq = {}
    for f in fails:
        uniq.setdefault(f['key'], f)
    return {'obligations': n, 'discharged': n - len(fails), 'evaluations': n, 'distinct': n, 'exhaustive': True, 'count_each': True,
            'scope': 'escaped mode: every Unicode scalar value except the backslash as a plain character alone, and between JSON escape sequences (31 frames below U+3000 and '
                     'on every 997th code point, 3 frames elsewhere): the output read by the stdlib JSON parser is the escapes\' characters around the plain character',
            'failures': list(uniq.values())}


def _replay_escaped_mode(f):
    a, b = f['frame']
    try:
        return json.loads('"' + escape_json_string(a + chr(f['cp']) + b, True) + '"') == _escaped_expected(a, b, chr(f['cp']))
    except ValueError:
        return False


def _escaped_expected(a, b, c):
    esc = {'\\n': '\n', '\\\\': '\\', '\\"': '"', '\\/': '/', '\\u0041': 'A', '\\t': '\t', '\\b': '\b', '\\f': '\f', '\\r': '\r', '\\ud83d\\ude00': '\U0001F600'}
    return esc.get(a, '') + c + esc.get(b, '')


GROUND = [Bounded('escape_json_string_all_code_points', ground_escape_all_code_points, _replay_escape),
          Bounded('escape_json_string_escaped_mode', ground_escaped_mode, _replay_escaped_mode)]

# ---- JSON values ---------------------------------------------------------------------------------------------------------------------
# only XML 1.0 characters: other code points cannot occur in an XDM string (parse-json replaces them by U+FFFD)
STRINGS = ['', 'a', 'a b', '"', '\\', '/', '\\n', '\n', '\t', '\r', '\x7f', '\x85', '\xa0', '\u00e9', '\u20ac', '\U0001F600', 'a"b\\c/d', '\\u0041', '\\"', '\\\\',
           'null', 'true', '1', '{', ']', ' x ', '\u2028', '\U0001D11Ex', '<&>', "'", '\\/', 'u0041', '\\b', 'tab\there', '\x9f', '\ufffd', '\ud7ff', '\ud7fe\ue000', '\ufffc',
           'a\ud7ffb', '\x20', '\x7e', '\U0010ffff', '\U00010000']
NUMBERS = [0, 1, -1, 10, 255, 2 ** 31, 2 ** 53, 10 ** 20, 1.5, -0.5, 0.1, 1e20, 1e21, 1.5e300, 1e-7, 5e-324, 123456789.125, 0.30000000000000004, 1.7976931348623157e308,
           -2.5e-10, 100.0, 3.0]


def xpath_string(s):
    return '"' + s.replace('&', '&').replace('"', '""') + '"'


def xpath_expr(v, top=True):
    """XPath 3.1 expression denoting the JSON value (None = empty sequence)."""
    if v is None:
        return '()'
    if v is True:
        return 'true()'
    if v is False:
        return 'false()'
    if isinstance(v, int):
        return str(v) if v >= 0 else f'({v})'
    if isinstance(v, float):
        r = repr(v)
        if 'e' not in r and 'E' not in r:
            r += 'e0'
        return r if v >= 0 else f'({r})'
    if isinstance(v, str):
        return xpath_string(v)
    if isinstance(v, list):
        return '[' + ', '.join(xpath_expr(x, False) for x in v) + ']'
    if isinstance(v, dict):
        return 'map{' + ', '.join(f'{xpath_string(k)}: {xpath_expr(x, False)}' for k, x in v.items()) + '}'
    raise TypeError(v)


def json_equal(a, b):
    """Same JSON value: numbers by numeric value (1 and 1.0 are the same JSON number), everything else structurally."""
    if isinstance(a, bool) or isinstance(b, bool) or a is None or b is None:
        return a is b
    if isinstance(a, (int, float)) and isinstance(b, (int, float)):
        return a == b or (isinstance(a, float) and isinstance(b, float) and math.isnan(a) and math.isnan(b))
    if type(a) is not type(b):
        return False
    if isinstance(a, list):
        return len(a) == len(b) and all(json_equal(x, y) for x, y in zip(a, b))
    if isinstance(a, dict):
        return a.keys() == b.keys() and all(json_equal(a[k], b[k]) for k in a)
    return a == b


def gen_values(rng, tier):
    atoms = [None, True, False] + STRINGS + NUMBERS
    vals = list(atoms)
    vals += [[], {}, [[]], [{}], {'k': []}, {'k': {}}, [None], {'k': None}, [[], [1]], {'a': [[], [1]]}, [1, [], 'x'], {'o': {'i': []}}, [[[]]], {'a': 1, 'b': 2},
             {'': 1}, {'a b': 1, 'a': 2}, {'\\': 1, '/': 2, '"': 3}, {'a': 1, 'A': 2}, [True, False, None, 0, ''], {'😀': ['𝄞', '\x7f']},
             # keys that coincide only if one of them is (wrongly) read as an escape sequence; keys at the edges of the XML Char ranges
             {'a\\n': 1, 'a\n': 2}, {'\\u0041': 1, 'A': 2}, {'\\\\': 1, '\\': 2}, {'\\t': 1, '\t': 2}, {'\\/': 1, '/': 2}, {'\ud7ff': 1, '\ue000': 2}, {'k\ud7ff': ['\ud7ff']}]
    for a in atoms[:: (3 if tier == 'quick' else 1)]:
        vals.append([a])
        vals.append({'k': a})
    for _ in range(150 if tier == 'quick' else 1500):
        vals.append(_rand(rng, 0))
    return vals


def _rand(rng, depth):
    r = rng.random()
    if depth >= 3 or r < 0.35:
        return rng.choice([None, True, False] + STRINGS + NUMBERS)
    if r < 0.65:
        return [_rand(rng, depth + 1) for _ in range(rng.randint(0, 3))]
    return {rng.choice(STRINGS[:22] + ['k', 'key']): _rand(rng, depth + 1) for _ in range(rng.randint(0, 3))}


def _ev(expr, **v):
    try:
        return 'ok', XPath31Parser().parse(expr).evaluate(XPathContext(root=None, item=1, variables=v))
    except ElementPathError as e:
        return 'err', f'{e.code}: {str(e)[:80]}'
    except Exception as e:      # noqa
        return 'crash', f'{type(e).__name__}: {str(e)[:80]}'


def _shape(v):
    if isinstance(v, str):
        if any(ord(c) < 32 or 127 <= ord(c) < 160 for c in v):
            return 'string with control characters'
        if any(ord(c) > 0xFFFF for c in v):
            return 'string with astral characters'
        if '\\' in v or '"' in v or '/' in v:
            return 'string with escapes'
        return 'string'
    if isinstance(v, bool) or v is None:
        return 'boolean/null'
    if isinstance(v, (int, float)):
        return 'number with exponent' if 'e' in repr(v) else 'number'
    if isinstance(v, list):
        if any(x == [] or x is None for x in v):
            return 'array with an empty member'
        return 'array'
    if any(x == [] or x is None for x in v.values()):
        return 'map with an empty value'
    return 'map'


def json_roundtrip(tier, seed):
    rng = random.Random(20260925)
    fam, n = {}, 0

    def bad(k, **w):
        fam.setdefault(k, []).append(w)
    for v in gen_values(rng, tier):
        n += 1
        e = xpath_expr(v)
        st, text = _ev(f"serialize({e}, map{{'method': 'json'}})")
        shape = _shape(v)
        if st != 'ok':
            bad(f'serialize(json) raises ({shape})', value=repr(v)[:100], got=text)
        else:
            try:
                back = json.loads(text)
                if not json_equal(back, v):
                    bad(f'the serialised JSON denotes another value for an independent parser ({shape})', value=repr(v)[:100], text=text[:100], reads=repr(back)[:100])
            except ValueError as x:
                bad(f'the serialised text is not JSON for an independent parser ({shape})', value=repr(v)[:100], text=text[:100], err=str(x)[:60])
            st2, eq = _ev(f"deep-equal(parse-json($t), {e})", t=text)
            if (st2, eq) != ('ok', True):
                bad(f'parse-json(serialize(v)) is not deep-equal to v ({shape})', value=repr(v)[:100], text=text[:100], got=repr((st2, eq))[:100])
        # JSON text through json-to-xml / xml-to-json
        if isinstance(v, (dict, list)) or True:
            for t in {json.dumps(v), json.dumps(v, ensure_ascii=False), json.dumps(v, indent=1)}:
                n += 1
                st3, out = _ev("xml-to-json(json-to-xml($t))", t=t)
                if st3 != 'ok':
                    bad(f'xml-to-json(json-to-xml(t)) raises ({shape})', text=t[:100], got=out)
                    continue
                try:
                    if not json_equal(json.loads(out), json.loads(t)):
                        bad(f'xml-to-json(json-to-xml(t)) denotes another JSON value ({shape})', text=t[:100], out=out[:100])
                except ValueError as x:
                    bad(f'xml-to-json output is not JSON for an independent parser ({shape})', text=t[:100], out=out[:100], err=str(x)[:60])
                st4, eq = _ev("deep-equal(parse-json($t), parse-json(xml-to-json(json-to-xml($t))))", t=t)
                if (st4, eq) != ('ok', True) and st3 == 'ok':
                    bad(f'parse-json disagrees between t and its XML round trip ({shape})', text=t[:100], got=repr((st4, eq))[:80])
    # JSON texts near the edge of the grammar: what is not JSON is rejected (not read as something else), what is JSON survives the XML form - also with
    # escaped keys next to non-string values - and whatever xml-to-json returns is JSON
    for t in ('[NaN]', '[Infinity]', '-Infinity', 'NaN', "{'a': 1}", '[1,]', '01', '1.', '.5', '"\x01"', '[1 2]', '', 'nul', '+1', '1e', '[1] x'):
        for fn_ in ('parse-json($t)', 'json-to-xml($t)'):
            n += 1
            try:
                json.loads(t, parse_constant=lambda c: (_ for _ in ()).throw(ValueError(c)))
                is_json = True
            except ValueError:
                is_json = False
            st, out = _ev(fn_, t=t)
            if not is_json and st == 'ok':
                bad(f'{fn_.split("(")[0]} accepts a text that is not JSON (without the liberal option)', text=t, got=repr(out)[:60])
    for t in ('{"a\\\\b": 1}', '{"a\\\\b": true}', '{"q\\"": null}', '{"a\\nb": [1]}', '{"a\\\\b": {"c\\td": "x"}}', '{"k": "a\\\\b"}', '["\\u0041", "\\\\"]', r'"a\/b"', r'"\\\""', r'"C:\\users"', r'{"C:\\users": 1}', r'"\\u00e9"', r'["x\\", "\\u"]'):
        for opts in ("map{'escape': true()}", "map{'escape': false()}", "map{}"):
            n += 1
            st, out = _ev(f"xml-to-json(json-to-xml($t, {opts}))", t=t)
            try:
                ok = st == 'ok' and json_equal(json.loads(out), json.loads(t))
            except ValueError:
                ok = False
            if not ok:
                bad('xml-to-json(json-to-xml(t, options)) raises or denotes another value when keys or strings need escaping', text=t, options=opts, got=repr((st, out))[:100])
    for t in ('1e400', '-1e400', '[1e400]', '1e-400', '123456789012345678901234567890', '-0', '0.0', '1E2'):
        n += 1
        st, out = _ev("xml-to-json(json-to-xml($t))", t=t)
        if st == 'ok':
            try:
                json.loads(out, parse_constant=lambda c: (_ for _ in ()).throw(ValueError(c)))
            except ValueError:
                bad('xml-to-json returns a text that is not JSON', text=t, out=repr(out)[:60])
        elif st == 'crash':
            bad('xml-to-json(json-to-xml(t)) raises a non-XPath error on a number', text=t, got=out)
    fails = [{'key': k, 'items': it[:4], 'count': len(it), 'what': f'{k}: e.g. {it[0]}'} for k, it in fam.items()]
    return {'evaluations': n, 'distinct': n, 'exhaustive': False,
            'scope': f'{len(STRINGS)} strings (escapes, control, astral, duplicate-looking keys), {len(NUMBERS)} numbers, booleans, null, all one-level wrappings, 20 '
            'hand-written nestings with empty members and seeded nested values to depth 3: serialize(json) read back by the stdlib json module and by parse-json '
            '(deep-equal); three textual forms of each value through json-to-xml / xml-to-json', 'failures': fails}


def _replay(name):
    def replay(f):
        r = {'json': json_roundtrip, 'xml': xml_roundtrip}[name]('quick', 0)
        return all(x['key'] != f['key'] for x in r['failures'])
    return replay


# ---- XML trees -----------------------------------------------------------------------------------------------------------------------------
def tree_equal(a, b):
    """Independent comparison of two ElementTree elements (tags, attributes, text, tails, children incl. comments and PIs)."""
    if callable(a.tag) or callable(b.tag):
        return callable(a.tag) and callable(b.tag) and a.tag.__name__ == b.tag.__name__ and (a.text or '') == (b.text or '')
    if a.tag != b.tag or dict(a.attrib) != dict(b.attrib) or (a.text or '') != (b.text or '') or len(a) != len(b):
        return False
    return all(tree_equal(x, y) and (x.tail or '') == (y.tail or '') for x, y in zip(a, b))


def xml_roundtrip(tier, seed):
    import xml.etree.ElementTree as ET
    fam, n = {}, 0

    def bad(k, **w):
        fam.setdefault(k, []).append(w)
    trees = list(T.exhaustive_small())[::(9 if tier == 'quick' else 2)] + list(T.enumerate_trees(4 if tier == 'quick' else 5, 6 if tier == 'quick' else 40, 7))
    el = lambda n_, kids=(), text=None, tail=None, attrs=(): ('e', n_, attrs, (), text, tail, tuple(kids))     # noqa
    trees += [el('p', [el('b', text='café', tail='été — …')], text='Un '), el('r', [el('a', tail='x & y < z > w')], text='&<>"\''),
              el('r', attrs=(('k', 'a"b<c&d\'e'), ('{urn:x}k', '\t\n')), text=' '), el('{urn:x}a', [el('{urn:y}b', [el('c')]), el('{urn:x}a')]),
              el('r', [('c', None, (), (), ' a -- b ' if False else 'note', 't', ()), ('p', 'pi', (), (), 'data ?', None, ())], text='x')]
    # text, tail and attribute values longer than the write buffers of the serializers; apostrophes and quotes in content
    big = 'x' * 70000
    trees += [el('a', [el('b', text=big, tail='t' * 9000), el('c', text="it's \"q\"", attrs=(('k', "o'clock " + 'y' * 9000),))], text="'")]
    sers = [XPath31Parser().parse('serialize(.)'), XPath31Parser().parse("serialize(., map{'omit-xml-declaration': false()})")]
    back = XPath31Parser().parse('parse-xml($t)')
    deq = XPath31Parser().parse('deep-equal($a, $b)')
    import lxml.etree as LX
    for ti, t in enumerate(trees):
      for lib in (('et', 'lxml') if ti % 5 == 0 or ti >= len(trees) - 6 else ('et',)):
        # lxml lets an element in no namespace carry a default namespace declaration, which no XML text can express: dropped for lxml
        no_default = lambda x: x[:3] + (tuple(d for d in x[3] if d[0]),) + x[4:6] + (tuple(no_default(k) for k in x[6]),)     # noqa
        root = T.realise(t if lib == 'et' else no_default(t), lib)
        if lib == 'lxml' and ti % 2 == 0:
            root.addprevious(LX.Comment(' prolog '))
            root.addnext(LX.ProcessingInstruction('epilog', 'x="1"'))
        rn = get_node_tree(ET.ElementTree(root) if lib == 'et' else LX.ElementTree(root))
        nodes = [rn] + [x for x in rn.iter_descendants() if hasattr(x, 'elem') and not callable(x.elem.tag)]
        first_text = None
        for node in nodes[: (4 if tier == 'quick' else 12)] + [rn]:
            n += 1
            ser = sers[(n + ti) % 2]
            try:
                text = ser.evaluate(XPathContext(root=rn, item=node))
                doc = back.evaluate(XPathContext(root=rn, variables={'t': text}))
            except ElementPathError as e:
                bad('serialize / parse-xml raises on a tree', tree=repr(t)[:160], err=f'{e.code}: {str(e)[:80]}')
                continue
            except Exception as e:      # noqa
                bad('serialize / parse-xml raises a non-XPath error', tree=repr(t)[:160], err=f'{type(e).__name__}: {str(e)[:80]}')
                continue
            if node is rn:
                # serialising the parts of a document in between does not change what the document serialises to
                if first_text is None:
                    first_text = (ser, text)
                elif first_text[0] is ser and first_text[1] != text:
                    bad('serialize(/) gives a different text after some of its elements have been serialized', tree=repr(t)[:160], first=first_text[1][:100], again=text[:100])
            orig = node.elem if hasattr(node, 'elem') else root
            new_root = doc.getroot().elem if hasattr(doc, 'getroot') else doc.elem
            if not tree_equal(orig, new_root):
                bad('parse-xml(serialize(node)) is a different tree (independent comparison)', tree=repr(t)[:160], text=text[:120])
            try:
                same = deq.evaluate(XPathContext(root=rn, variables={'a': node if node is not rn else rn.getroot(), 'b': doc.getroot() if hasattr(doc, 'getroot') else doc}))
            except ElementPathError as e:
                same = f'{e.code}'
            if same is not True:
                bad('parse-xml(serialize(node)) is not deep-equal to the node', tree=repr(t)[:160], text=text[:120], got=repr(same))
    # carriage returns in content, and attributes in the namespace that the caller's map binds to the empty prefix: through the public select()
    import elementpath as _ep
    for lib_name, mod in (('xml.etree', ET), ('lxml', LX)):
        for src, nsmap in (('<r a="x&#13;y">t&#13;u<b>&#13;</b>&#13;&#10;<c>&#10;&#13;</c></r>', None), ('<r>a&#13;<!--c-->b<?p d?>&#13;</r>', None),
                           ('<p:r xmlns:p="urn:d" p:a="1"/>', {'': 'urn:d'}), ('<p:r xmlns:p="urn:d" p:a="1" a="2"><p:b p:c="3"/></p:r>', {'': 'urn:d'}),
                           ('<r xmlns="urn:d" xmlns:q="urn:d" q:a="1"/>', {'': 'urn:d', 'q': 'urn:e'}), ('<p:r xmlns:p="urn:d" p:a="1"/>', {'p': 'urn:d'}),
                           ('<r xmlns="urn:d"><b a="1"/></r>', {'': 'urn:d'})):
            n += 1
            try:
                root = mod.XML(src) if mod is LX else ET.XML(src, parser=ET.XMLParser(target=ET.TreeBuilder(insert_comments=True, insert_pis=True)))
                text = _ep.select(root, 'serialize(.)', parser=XPath31Parser, namespaces=nsmap)
                same = _ep.select(root, 'deep-equal(., parse-xml(serialize(.))/*)', parser=XPath31Parser, namespaces=nsmap)
                again = LX.fromstring(text.encode('utf-8'))
            except Exception as e:      # noqa
                bad('serialize / parse-xml through select() raises', source=src, lib=lib_name, namespaces=repr(nsmap), err=f'{type(e).__name__}: {str(e)[:80]}')
                continue
            ref = LX.XML(src)
            if same is not True or not tree_equal(ref, again):
                what = 'a carriage return in the content' if '&#13;' in src else 'an attribute in the namespace bound to the empty prefix of the caller' if nsmap and '' in nsmap else 'namespaces'
                bad(f'parse-xml(serialize(e)) differs from e ({what})', source=src, lib=lib_name, namespaces=repr(nsmap), text=text[:120], deep_equal=repr(same))
    # document nodes with comments and processing instructions around the root element (lxml keeps them): the serialised text has the same document-level nodes
    # in the same order, read back by libxml2; targets starting with "xml" (xml-stylesheet, xml-model) are ordinary processing instructions, not declarations
    def doc_level(r):
        pre = [(type(x).__name__, getattr(x, 'target', None), x.text) for x in reversed(list(r.itersiblings(preceding=True)))]
        post = [(type(x).__name__, getattr(x, 'target', None), x.text) for x in r.itersiblings()]
        return pre, post
    prologs = [[('c', ' first ')], [('p', 'xml-stylesheet', 'href="a.css"')], [('c', ' c '), ('p', 'xml-stylesheet', 'href="a.css"')],
               [('c', ' c '), ('p', 'xml-stylesheet', 'href="a.css"'), ('p', 'xml-model', 'href="m.rng"')], [('p', 'pi', 'x'), ('c', 'c'), ('p', 'xmlfoo', 'y')],
               [('p', 'xml-stylesheet', 'a'), ('p', 'xml-stylesheet', 'b')]]
    for k, prolog in enumerate(prologs):
        for ser in sers:
            n += 1
            root = LX.XML('<r a="1"><?xml-stylesheet inner?><b>t</b></r>')
            for item in prolog:
                root.addprevious(LX.Comment(item[1]) if item[0] == 'c' else LX.ProcessingInstruction(item[1], item[2]))
            if k % 2:
                root.addnext(LX.ProcessingInstruction('xml-end', 'e'))
            rn = get_node_tree(LX.ElementTree(root))
            try:
                text = ser.evaluate(XPathContext(root=rn, item=rn))
                again = LX.fromstring(text.encode('utf-8'))
            except Exception as e:      # noqa
                bad('serialize of a document with a prolog raises, or gives text that libxml2 rejects', prolog=repr(prolog), err=f'{type(e).__name__}: {str(e)[:80]}')
                continue
            if doc_level(again) != doc_level(root) or not tree_equal(root, again):
                bad('serialize of a document node changes its comments / processing instructions around the root element', prolog=repr(prolog), text=text[:160],
                    got=repr(doc_level(again))[:160], want=repr(doc_level(root))[:160])
    fails = [{'key': k, 'items': it[:4], 'count': len(it), 'what': f'{k}: e.g. {it[0]}'} for k, it in fam.items()]
    return {'evaluations': n, 'distinct': n, 'exhaustive': False,
            'scope': f'{len(trees)} trees (small-scope decorations, shapes up to {4 if tier == "quick" else 5} nodes, mixed content with non-ASCII and markup characters in '
            'text, tails and attribute values, namespaces, comments, PIs): document node and element nodes through serialize / parse-xml, compared by an '
            'independent tree walk and by fn:deep-equal', 'failures': fails}


BOUNDED = [Bounded('json_round_trips', json_roundtrip, _replay('json')), Bounded('xml_round_trips', xml_roundtrip, _replay('xml'))]
