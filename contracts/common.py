"""Shared helpers for the sidecar contracts (targets, token/context stand-ins, harnesses)."""
from __future__ import annotations

import decimal
import math
import z3

import elementpath
from elementpath import XPath1Parser, XPath2Parser, XPathContext
from elementpath.xpath30 import XPath30Parser
from elementpath.xpath31 import XPath31Parser
from elementpath.exceptions import xpath_error, ElementPathError

from pyvc.values import *  # noqa
from pyvc import interp as I
from pyvc.contract import Contract, Case, Sym

PARSERS = {'1.0': XPath1Parser, '2.0': XPath2Parser, '3.0': XPath30Parser, '3.1': XPath31Parser}


def token_method(version: str, symbol: str, attr: str):
    """The function the library really calls: looked up in the live symbol table."""
    def get():
        cls = PARSERS[version].symbol_table[symbol]
        for k in cls.__mro__:
            if attr in k.__dict__:
                return k.__dict__[attr]
        raise LookupError(f'{symbol}.{attr}')
    return get


def token_class(version: str, symbol: str):
    return PARSERS[version].symbol_table[symbol]


def error_hook(ex, node, args, kwargs):
    """self.error(code, msg): the real xpath_error decides the exception class (concrete code)."""
    code = args[0].conc
    if code is NOTCONC or not isinstance(code, str):
        raise OutOfSubset('self.error with a symbolic code')
    e = xpath_error(code)
    return VExc(type(e), e.code.split(':')[-1] if isinstance(e.code, str) else code)


def mk_parser(version, compat=None, **fields):
    f = {'version': lift(version), 'compatibility_mode': lift(compat) if compat is not None else
         lift(version == '1.0')}
    f.update(fields)
    return VObj(PARSERS[version], f, name='parser')


def mk_token(version, symbol, parser=None, nitems=2, **fields):
    f = {'symbol': lift(symbol), 'parser': parser or mk_parser(version)}
    f.update(fields)
    tok = VObj(token_class(version, symbol), f, name='self')
    tok.nitems = nitems
    return tok


def std_hooks(tok, extra=None):
    hooks = {
        'self.error': error_hook,
        ('len', tok.pycls.__name__): lambda ex, v: VInt(v.nitems),
    }
    hooks.update(extra or {})
    return hooks


def mk_context(schema=False):
    from elementpath import XPathSchemaContext
    return VObj(XPathSchemaContext if schema else XPathContext, {}, name='context')


# ---- native harness ------------------------------------------------------------------

def run_native(thunk):
    try:
        return ('return', thunk())
    except Exception as e:          # noqa - the harness reports whatever escapes
        return ('raise', e)


_parsed = {}


def parse(version, expr):
    key = (version, expr)
    if key not in _parsed:
        p = PARSERS[version]()
        _parsed[key] = p.parse(expr)
    return _parsed[key]


def eval_native(version, expr, **variables):
    """Evaluate a real parsed token on real values bound to variables."""
    tok = parse(version, expr)
    ctx = XPathContext(root=None, item=1, variables=variables) if version != '1.0' else \
        XPathContext(root=elementpath.etree.ElementTree.XML('<a/>'), variables=variables)
    return run_native(lambda: tok.evaluate(ctx))


def select_native(version, expr, **variables):
    tok = parse(version, expr)
    ctx = XPathContext(root=None, item=1, variables=variables)
    return run_native(lambda: list(tok.select(ctx)))


# ---- sample generators ------------------------------------------------------------------

INT_GRID = [0, 1, -1, 2, -2, 3, -3, 5, -5, 6, -6, 7, -7, 10, -10, 12, 13, 100, -100, 2 ** 31, -2 ** 31,
            2 ** 63, -2 ** 63 - 1, 10 ** 30, -10 ** 30]


def int_pairs(rng):
    for a in INT_GRID:
        for b in INT_GRID:
            yield a, b
    while True:
        k = rng.choice([4, 8, 40, 200])
        yield rng.randint(-2 ** k, 2 ** k), rng.randint(-2 ** k, 2 ** k)


DEC_GRID = [decimal.Decimal(x) for x in ('0', '1', '-1', '0.5', '-0.5', '1.5', '-1.5', '2.5', '-2.5', '3',
                                          '-3', '0.1', '-0.1', '7.25', '-7.25', '1E+10', '-1E+10',
                                          '0.0000001', '123456789.987654321', '-6', '2', '6', '-2')]


def dec_pairs(rng):
    for a in DEC_GRID:
        for b in DEC_GRID:
            yield a, b
    while True:
        yield (decimal.Decimal(rng.randint(-10 ** 6, 10 ** 6)) / decimal.Decimal(10 ** rng.randint(0, 4)),
               decimal.Decimal(rng.randint(-10 ** 4, 10 ** 4)) / decimal.Decimal(10 ** rng.randint(0, 3)))


FLOAT_GRID = [0.0, -0.0, 1.0, -1.0, 0.5, -0.5, 1.5, -1.5, 2.5, -2.5, 3.5, 1e300, -1e300, 5e-324,
              float('inf'), float('-inf'), float('nan'), 6.5, -6.5, 4.0, 2.0 ** 53, 1e-7]
