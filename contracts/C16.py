"""C16 - function items are first-class values: closures, partial application, HOFs.

Frame contracts (deductive): creating or calling a function item must not write the syntax token
it came from, nor the caller's variables - one obligation per store statement of
_InlineFunction.*, XPathFunction.__call__/_partial_evaluate/validated_result, the dynamic call and
named-reference evaluators and the higher-order functions.  The stores that violate it are the
known architecture finding (function-item state lives on the syntax token).
Bounded stand-in: the higher-order functions against their definitional expansions, closure
capture programs, partial application, sort stability.
"""
from __future__ import annotations

import itertools

from .common import *  # noqa
from .bounded import Bounded
from .frames import FOCUS, class_methods, frame_ground, frame_replay
import elementpath.xpath30._xpath30_functions as F30
import elementpath.xpath30._xpath30_operators as O30
import elementpath.xpath31._xpath31_functions as F31
from elementpath.xpath_tokens.functions import XPathFunction


def c16_functions():
    fs = class_methods(F30._InlineFunction, exclude={'__init__', 'nud', 'led', 'source', '__repr__', '__str__'})
    fs += class_methods(XPathFunction, names={'__call__', '_partial_evaluate', 'validated_result', 'validated_argument',
                                              'to_partial_function', 'as_function', 'check_arguments_number',
                                              'match_function_test'})
    for mod in (F30, F31):
        fs += [f for n, f in vars(mod).items() if hasattr(f, '__code__') and n in (
            'select__for_each', 'select__filter', 'select__fold_left', 'select__fold_right', 'select__for_each_pair',
            'evaluate__apply', 'select__sort', 'evaluate__function_lookup', 'evaluate__function_name',
            'evaluate__function_arity', 'select__array_for_each', 'select__array_filter', 'select__array_fold_left',
            'select__array_fold_right', 'select__array_for_each_pair', 'select__array_sort', 'evaluate__array_for_each',
            'evaluate__array_filter', 'evaluate__array_fold_left', 'evaluate__array_fold_right',
            'evaluate__array_for_each_pair', 'evaluate__array_sort')]
    fs += [f for n, f in vars(O30).items() if hasattr(f, '__code__') and n.startswith(('evaluate__', 'select__'))]
    seen, out = set(), []
    for f in fs:
        if id(f.__code__) not in seen:
            seen.add(id(f.__code__))
            out.append(f)
    return out


GROUND = [Bounded('frame_function_items', frame_ground(
    'frame_function_items', c16_functions, lambda g: FOCUS,
    'every store statement of _InlineFunction methods, XPathFunction call machinery, dynamic call / named reference / '
    'partial application evaluators and the higher-order functions: target fresh or a focus field of the context'),
    frame_replay(c16_functions, lambda g: FOCUS))]
CONTRACTS = []


# ---- deductive: the higher-order functions equal their definitional expansions, for an arbitrary (uninterpreted) callee --------------------
from pyvc.values import *  # noqa: E402,F401
from pyvc.contract import Contract, Case  # noqa: E402
from pyvc.interp import LoopSpec  # noqa: E402
from pyvc.specprims import *  # noqa: E402,F401
from elementpath.xpath_tokens import XPathFunction as _XPathFunction  # noqa: E402


def hof_case(symbol, fidx, arity, result_kind):
    """fn:<symbol>(S, [zero,] f): S an arbitrary sequence of opaque items, f an arbitrary function item modelled by the uninterpreted
    callee1 / callee2 / pred1; the token's children are stand-ins, the call `func(..)` is the hook below."""
    def setup(S, ex):
        from pyvc.contract import Sym  # noqa
        seq = S.seq('S', K_ITEM)
        zero = S.item('zero')
        tok = mk_token('3.1', symbol, parser=mk_parser('3.1', False), nitems=fidx + 1, context=NONE)
        ctx = mk_context()
        fcls = PARSERS['3.1'].symbol_table['abs']
        func = VObj(fcls, {'symbol': lift('abs'), 'arity': lift(arity), 'nargs': lift(arity)}, name='func')
        operand = VObj(fcls, {'symbol': lift('(')}, name='operand')

        def index(ex, obj, idx):
            if obj is tok:
                return func if idx.conc == fidx else operand
            return None

        def call_func(ex, node, a, kw):
            if arity == 2:
                return VItem(callee2_term(a[0], a[1]))
            if result_kind == 'bool':
                return VBool(pred1_term(a[0]))
            return VItem(callee1_term(a[0]))

        def get_argument(ex, node, a, kw):
            return zero
        def isinstance_hook(ex, *rest):
            # an opaque item stands for one XDM item, never for a Python list of items
            import z3
            from pyvc import models
            if len(rest) == 2:                                     # (value, classes): the model's own hook point
                v, classes = rest
                return z3.BoolVal(False) if isinstance(v, VItem) and all(c in (list, tuple) for c in classes) else None
            node, a, kw = rest                                     # a call `isinstance(x, C)` in the code
            return VBool(models.isinstance_(ex, a[0], a[1]))
        hooks = std_hooks(tok, {'index': index, 'func': call_func, 'self[0].select': lambda ex, node, a, kw: seq, 'self.get_argument': get_argument,
                                'isinstance': isinstance_hook,
                                # the function argument of the modelled call is a named function reference (f#n: no argument tokens)
                                'func.is_reference': lambda ex, node, a, kw: VBool(True),
                                # $zero: the modelled call passes one item (a longer $zero is covered by the bounded programs only)
                                'self[1].select': lambda ex, node, a, kw: VPyList([zero]),
                                'copy': lambda ex, node, a, kw: a[0]})      # copy(context) only feeds the hooked select above
        return Case([tok, ctx], hooks=hooks, names={'zero': zero})
    return setup


def callee2_term(a, b):
    import z3
    from pyvc.values import ITEM_SORT
    return z3.Function('callee2', ITEM_SORT, ITEM_SORT, ITEM_SORT)(a.t, b.t)


def callee1_term(a):
    import z3
    from pyvc.values import ITEM_SORT
    return z3.Function('callee1', ITEM_SORT, ITEM_SORT)(a.t)


def pred1_term(a):
    import z3
    from pyvc.values import ITEM_SORT
    return z3.Function('pred1', ITEM_SORT, z3.BoolSort())(a.t)


def real_select(fname):
    """The select method of the function token class behind a proxied symbol (fn:fold-left and array:fold-left share the symbol)."""
    def get():
        for cls in PARSERS['3.1'].symbol_table.values():
            f = cls.__dict__.get('select')
            if f is not None and getattr(f, '__name__', '') == fname:
                return f
        raise LookupError(fname)
    return get


def fold_case(symbol):
    """adds the specification sequence R (the definitional expansion): R[0] = zero, R[j+1] = f(R[j], S[j]) for fold-left,
    R[j+1] = f(S[len-1-j], R[j]) for fold-right; assumed as a precondition (it is a definition, satisfiable for every S)."""
    inner = hof_case(symbol, 2, 2, 'item')

    def setup(S, ex):
        case = inner(S, ex)
        r = S.seq('R', K_ITEM)
        case.names['R'] = r
        return case
    return setup


CONTRACTS = [
    Contract('fold-left', 'C16', real_select('select__fold_left'), fold_case('fold-left'),
             pre=["len(R) == len(S) + 1", "R[0] == zero", "forall_range(0, len(S), lambda j: R[j + 1] == callee2(R[j], S[j]))"],
             post=[('equals_the_left_fold', "returned and len(out) == 1 and out[0] == R[len(S)]")],
             loops={0: LoopSpec(["_i0 <= len(S)", "result == R[_i0]"])},
             generator=K_ITEM, native=None, expect_min_obligations=3,
             notes=['the callee is an arbitrary binary function on items (uninterpreted callee2); the accumulator is a single item (a sequence-valued '
                    'accumulator is covered by the bounded programs)']),
    Contract('fold-right', 'C16', real_select('select__fold_right'), fold_case('fold-right'),
             pre=["len(R) == len(S) + 1", "R[0] == zero", "forall_range(0, len(S), lambda j: R[j + 1] == callee2(S[len(S) - 1 - j], R[j]))"],
             post=[('equals_the_right_fold', "returned and len(out) == 1 and out[0] == R[len(S)]")],
             loops={0: LoopSpec(["_i0 <= len(S)", "result == R[_i0]"])},
             generator=K_ITEM, native=None, expect_min_obligations=3),
    Contract('for-each', 'C16', real_select('select__for_each'), hof_case('for-each', 1, 1, 'item'),
             post=[('maps_every_item_in_order', "returned and len(out) == len(S) and forall_range(0, len(S), lambda j: out[j] == callee1(S[j]))")],
             loops={0: LoopSpec(["_i0 <= len(S)", "len(out) == _i0", "forall_range(0, _i0, lambda j: out[j] == callee1(S[j]))"])},
             generator=K_ITEM, native=None, expect_min_obligations=3,
             notes=['callee results are single items here; sequence-valued results (flattening) are covered by the bounded programs']),
]


def bounded_hof(tier, seed):
    from elementpath import select as ep_select
    P = PARSERS['3.1']
    fails, n, seen = [], 0, set()

    def check(expr, want, fam):
        nonlocal n
        n += 1
        seen.add(fam)
        got = run_native(lambda: ep_select(None, expr, parser=P, item=1))
        g = got[1] if got[0] == 'return' else None
        gl = g if isinstance(g, list) else [g]
        wl = want if isinstance(want, list) else [want]
        if isinstance(want, tuple) and want and want[0] == 'raise':
            ok = got[0] == 'raise' and str(getattr(got[1], 'code', '')).endswith(want[1])
        else:
            ok = got[0] == 'return' and gl == wl
        if not ok and len(fails) < 40:
            fails.append({'key': expr[:160], 'what': f'`{expr}` = {got!r}; the definitional expansion gives {want!r}', 'expr': expr,
                          'want': repr(want)})
    seqs = [list(t) for k in range(0, 4) for t in itertools.product((1, 2, 3), repeat=k)]
    funcs = {'function($x) { $x * 2 }': lambda x: [x * 2], 'function($x) { ($x, $x) }': lambda x: [x, x],
             'function($x) { () }': lambda x: [], 'abs#1': lambda x: [abs(x)]}
    for s in seqs:
        lit = '(' + ', '.join(map(str, s)) + ')'
        for fsrc, f in funcs.items():
            check(f'for-each({lit}, {fsrc})', [y for x in s for y in f(x)], ('for-each', len(s)))
        check(f'filter({lit}, function($x) {{ $x ge 2 }})', [x for x in s if x >= 2], ('filter', len(s)))
        acc = 100
        for x in s:
            acc = acc * 2 - x
        check(f'fold-left({lit}, 100, function($a, $x) {{ $a * 2 - $x }})', acc, ('fold-left', len(s)))
        acc = 100
        for x in reversed(s):
            acc = x - acc * 2
        check(f'fold-right({lit}, 100, function($x, $a) {{ $x - $a * 2 }})', acc, ('fold-right', len(s)))
        check(f'fold-left({lit}, (), function($a, $x) {{ ($x, $a) }})', s[::-1], ('fold-left-seq', len(s)))
        for t in seqs[:8]:
            lit2 = '(' + ', '.join(map(str, t)) + ')'
            check(f'for-each-pair({lit}, {lit2}, function($a, $b) {{ $a * 10 + $b }})', [a * 10 + b for a, b in zip(s, t)],
                  ('for-each-pair', len(s), len(t)))
        check(f'sort({lit})', sorted(s), ('sort', len(s)))
        # stability: sort by a key that ties
        check(f'sort({lit}, (), function($x) {{ $x mod 2 }})', sorted(s, key=lambda x: x % 2), ('sort-key', len(s)))
        check(f'array:for-each([{", ".join(map(str, s))}], function($x) {{ $x + 1 }})?*', [x + 1 for x in s], ('array:for-each', len(s)))
        check(f'array:filter([{", ".join(map(str, s))}], function($x) {{ $x gt 1 }})?*', [x for x in s if x > 1], ('array:filter', len(s)))
    check('filter((1, 2), function($x) { $x })', ('raise', 'XPTY0004'), ('filter-nonbool', 0))
    check('apply(function($a, $b) { $a - $b }, [5, 3])', 2, ('apply', 2))
    check('apply(function($a) { $a }, [5, 3])', ('raise', 'FOAP0001'), ('apply', 3))
    # closures capture the bindings in scope at creation; every evaluation gives an independent item
    progs = [
        ('let $y := 5 return (function($a) { $a + $y })(1)', 6),
        ('let $f := (let $y := 5 return function($a) { $a + $y }) return $f(1)', 6),
        ('let $f := function($a) { $a + 1 } return ($f(1), $f(2), $f($f(3)))', [2, 3, 5]),
        ('let $x := 1 return (function($x) { $x }(2), $x)', [2, 1]),
        ('for $i in (1, 2) return (function() { $i })()', [1, 2]),
        ('let $add := function($a, $b) { $a + $b } return (let $inc := $add(?, 1) return ($inc(5), $inc(7), $add(1, 1)))', [6, 8, 2]),
        ('let $f := abs#1 return ($f(-1), $f(-2))', [1, 2]),
        ('for-each((1, 2), function($i) { for-each((10, 20), function($j) { $i + $j }) })', [11, 21, 12, 22]),
        ('let $c := concat(?, "-", ?) return ($c("a", "b"), $c("c", "d"))', ['a-b', 'c-d']),
        ('(for $i in (1, 2) return function() { $i }) ! .()', [1, 2]),
        ('let $fs := (for $i in (1, 2, 3) return function($k) { $i * $k }) return for $f in $fs return $f(10)', [10, 20, 30]),
        ('let $mk := function($n) { function($k) { $n + $k } } return (let $a := $mk(1), $b := $mk(100) return ($a(1), $b(1), $a(2)))',
         [2, 101, 3]),
    ]
    progs += [
        # captured bindings win over the caller's bindings of the same name (lexical scoping)
        ('let $x := 1, $f := function() { $x } return let $x := 2 return $f()', 1),
        ('let $x := 1, $f := function() { $x } return for $x in (5, 6) return $f()', [1, 1]),
        ('let $x := 1, $f := function($a) { $a + $x } return let $x := 100 return for-each((1, 2), $f)', [2, 3]),
        ('let $x := 1, $f := function($a, $b) { $a + $b + $x } return let $x := 100 return fold-left((1, 2), 0, $f)', 5),
        ('let $x := 1, $f := function() { $x }, $g := function($x) { $f() } return $g(7)', 1),
        ('let $x := 1, $f := function() { $x }, $x := 2 return $f()', 1),
        # sort with a collation and a key function
        ("sort(('B', 'a', 'C'), 'http://www.w3.org/2005/xpath-functions/collation/html-ascii-case-insensitive', function($s) { $s })", ['a', 'B', 'C']),
        ("sort(('b', 'B', 'a', 'A'), 'http://www.w3.org/2005/xpath-functions/collation/html-ascii-case-insensitive', function($s) { $s })", ['a', 'A', 'b', 'B']),
        ("sort(('B', 'a', 'C'), 'http://www.w3.org/2005/xpath-functions/collation/html-ascii-case-insensitive')", ['a', 'B', 'C']),
        ("sort(('B', 'a', 'C'), 'http://www.w3.org/2005/xpath-functions/collation/codepoint', function($s) { $s })", ['B', 'C', 'a']),
        ("sort(('B', 'a', 'C'))", ['B', 'C', 'a']), ("sort((3, 1, 2), (), function($x) { -$x })", [3, 2, 1]),
        # partial application and the original function item are independent
        ('let $f := function($a, $b) { $a - $b }, $g := $f(?, 1) return ($f(10, 3), $g(10), function-arity($f), function-arity($g))', [7, 9, 2, 1]),
        ('let $f := substring#3, $g := $f(?, 2, ?) return ($f("hello", 1, 2), $g("hello", 3), function-arity($f))', ['he', 'ell', 3]),
        ('let $f := concat#3, $g := $f("a", ?, "c") return ($g("b"), $f("x", "y", "z"), $g("q"))', ['abc', 'xyz', 'aqc']),
        # partial application of a partial application; fixed arguments are evaluated when the partial application is evaluated
        ('let $f := concat(?, ?, ?), $g := $f("a", ?, ?) return $g("b", "c")', 'abc'),
        ('let $f := function($x, $y, $z) { $x || $y || $z }, $g := $f(?, "B", ?), $h := $g("a", ?) return $h("c")', 'aBc'),
        ('let $a := 1, $f := concat($a, ?), $a := 2 return $f("x")', '1x'),
        ('let $f := function($x, $y) { $x + $y } return (let $a := 5 return $f($a, ?))(1)', 6),
        ('let $x := 100, $f := function($x, $y) { $x + $y }, $g := $f(?, $x) return $g(1)', 101),
        # the function argument of a higher-order function is any expression that evaluates to a function item
        ('for-each((-1, -2), head((abs#1, string#1)))', [1, 2]), ('filter((1, 2, 3), head((function($x) { $x > 1 }, 1)))', [2, 3]),
        ("for-each((-1, -2), function-lookup(xs:QName('fn:abs'), 1))", [1, 2]), ('fold-left((1, 2, 3), 0, head((function($a, $b) { $a + $b })))', 6),
        ("for-each(('x', 'y'), concat('a', ?))", ['ax', 'ay']),
        # constructor functions as function items
        ("xs:boolean#1('false')", False), ("for-each(('0', 'false', 'true', '1'), xs:boolean#1)", [False, False, True, True]), ("xs:string#1(12)", '12'),
        ("string(xs:dateTime#1('2000-01-01T00:00:00'))", '2000-01-01T00:00:00'), ("function-lookup(xs:QName('xs:boolean'), 1)('0')", False),
        ("for-each(('1', '2'), xs:integer#1)", [1, 2]), ("let $f := xs:double#1 return $f('1e1')", 10.0),
        # $zero of a fold is a sequence; order of fn:sort on booleans and NaN
        ('fold-left(1 to 3, (1, 2), function($a, $b) { ($a, $b) })', [1, 2, 1, 2, 3]), ('fold-right(1 to 3, (1, 2), function($a, $b) { ($a, $b) })', [1, 2, 3, 1, 2]),
        ('fold-left((), (7, 8), function($a, $b) { $a })', [7, 8]), ('sort((true(), false(), true()))', [False, True, True]),
        ("sort(('true', '0', '1', 'false'), (), xs:boolean#1)", ['0', 'false', 'true', '1']),
        # the function argument of apply / function-arity / function-name is evaluated, also when it is a function call
        ("apply(function-lookup(xs:QName('fn:abs'), 1), [-3])", 3), ("function-arity(function-lookup(xs:QName('fn:abs'), 1))", 1),
        ("string(function-name(function-lookup(xs:QName('fn:abs'), 1)))", 'fn:abs'), ("apply(head((abs#1, 1)), [-2])", 2), ("function-arity(head((string-length#0, 1)))", 0),
        ("function-arity(concat(?, 'b', ?))", 2), ("apply(concat#3, ['a', 'b', 'c'])", 'abc'), ("apply(abs#1, [1, 2])", ('raise', 'FOAP0001')),
        # the name and arity of a partial application do not depend on what was asked of the function item before
        ("let $f := abs#1 return (string(function-name($f)), empty(function-name($f(?))), function-arity($f(?)), string(function-name($f)))", ['fn:abs', True, 1, 'fn:abs']),
        ("let $f := concat#3 return (function-arity($f), function-arity($f(?, 'b', ?)), empty(function-name($f('a', ?, ?))), string(function-name($f)))", [3, 2, True, 'fn:concat']),
        ("(empty(function-name(abs(?))), empty(function-name(function($x) { $x })), string(function-name(abs#1)))", [True, True, 'fn:abs']),
        # function conversion rules in dynamic calls: numeric promotion to the declared type (decimal/integer to xs:float and xs:double, float to double)
        ("function($x as xs:float) { $x instance of xs:float }(1.5)", True), ("function($x as xs:float) { $x instance of xs:float }(2)", True),
        ("function($x as xs:double) { $x instance of xs:double }(1)", True), ("function($x as xs:double) { $x instance of xs:double }(xs:float('1.5'))", True),
        ("for-each((1, 2.5), function($x as xs:float) as xs:float { $x * 2 }) ! (. instance of xs:float)", [True, True]),
        ("fold-left((1, 2.5), xs:float('0'), function($a as xs:float, $b as xs:float) as xs:float { $a + $b }) instance of xs:float", True),
        ("function($x as xs:decimal) as xs:float { $x }(1.5) instance of xs:float", True), ("function($x as xs:integer) as xs:double { $x }(3) instance of xs:double", True),
        ("function($x as xs:untypedAtomic) { $x instance of xs:untypedAtomic }(xs:untypedAtomic('a'))", True), ("function($x as xs:double) { $x }(xs:untypedAtomic('2')) instance of xs:double", True),
        # the key function is applied to every item, also to items that are equal as Python values but distinct as XDM values
        ("string-join(for $v in sort((2.0, 2, 1.0, 1), (), function($x) { if ($x instance of xs:integer) then 0 else 1 }) "
         "return (if ($v instance of xs:integer) then 'i' else 'd') || $v, ' ')", 'i2 i1 d2 d1'),
        ("string-join(for $v in sort((true(), 1, 0, false()), (), string#1) return (if ($v instance of xs:boolean) then 'b' else 'n') || $v, ' ')", 'n0 n1 bfalse btrue'),
        ("string-join(for $v in sort((1, 1.0e0, 2), (), function($x) { if ($x instance of xs:double) then 0 else $x }) "
         "return (if ($v instance of xs:double) then 'e' else 'i') || $v, ' ')", 'e1 i1 i2'),
        ("array:size(array:sort([1, 1.0, true()], (), function($x) { if ($x instance of xs:boolean) then 0 else if ($x instance of xs:integer) then 1 else 2 })) , "
         "array:sort([1.0, 1, true()], (), function($x) { if ($x instance of xs:boolean) then 0 else if ($x instance of xs:integer) then 1 else 2 })(1) instance of xs:boolean, "
         "array:sort([1.0, 1, true()], (), function($x) { if ($x instance of xs:boolean) then 0 else if ($x instance of xs:integer) then 1 else 2 })(2) instance of xs:integer", [3, True, True]),
        ("string-join(for $v in sort((1, xs:double('NaN'), 0)) return string($v), ' ')", 'NaN 0 1'), ("string-join(for $v in sort((xs:double('NaN'), 2, 1)) return string($v), ' ')", 'NaN 1 2'),
    ]
    for expr, want in progs:
        check(expr, want, ('closure', expr[:25]))
    # a named function reference captures the focus where it is created
    import xml.etree.ElementTree as ET
    from elementpath import XPathContext
    root = ET.XML('<root><a>x</a><b>yy</b></root>')
    for expr, want in (('let $f := /root/a/name#0 return /root/b/$f()', 'a'), ('let $f := /root/a/string#0 return /root/b/$f()', 'x'),
                       ('let $f := /root/a/local-name#0 return (/root/b/$f(), /root/a/$f())', ['a', 'a']),
                       ('let $f := /root/b/string-length#0 return /root/a/$f()', 2), ('/root/b/(let $f := name#0 return $f())', 'b')):
        n += 1
        seen.add(('focus', expr[:25]))
        try:
            got = P().parse(expr).evaluate(XPathContext(root=root))
        except Exception as e:      # noqa
            got = f'{type(e).__name__}: {e}'[:80]
        if got != want and len(fails) < 40:
            fails.append({'key': expr[:160], 'what': f'`{expr}` = {got!r}; a function reference keeps the focus of its creation: {want!r}', 'expr': expr, 'want': repr(want),
                          'doc': '<root><a>x</a><b>yy</b></root>'})
    return {'evaluations': n, 'distinct': len(seen), 'failures': fails, 'n_failures': len(fails),
            'scope': 'all sequences of length <= 3 over {1,2,3} x {for-each (4 callees incl. a named reference), filter, '
                     'fold-left, fold-right, for-each-pair, sort (with a tying key: stability), array:for-each/filter}; apply arity; '
                     '12 closure / partial-application programs; oracle: definitional expansions in Python',
            'rule': 'distinct = (function, sequence lengths) / program'}


def _replay(f):
    from elementpath import select as ep_select
    if f.get('doc'):
        import xml.etree.ElementTree as ET
        from elementpath import XPathContext
        try:
            return PARSERS['3.1']().parse(f['expr']).evaluate(XPathContext(root=ET.XML(f['doc']))) == eval(f['want'])
        except Exception:      # noqa
            return False
    got = run_native(lambda: ep_select(None, f['expr'], parser=PARSERS['3.1'], item=1))
    g = got[1] if got[0] == 'return' else None
    gl = g if isinstance(g, list) else [g]
    want = eval(f['want'])
    return got[0] == 'return' and gl == (want if isinstance(want, list) else [want])


BOUNDED = [Bounded('hof_and_closure_programs', bounded_hof, _replay)]
NOT_DECIDED = ['recursion through higher-order functions to arbitrary depth',
               'definitional equality of the HOFs for all sequences and callees: bounded stand-in only']
