"""C19 - evaluation preserves process-global state: locale, locks, environment, entities.

Deductive (real code of elementpath/collations.py, symbolic execution with ghost state for the collation lock and the
process locale; `locale.setlocale` is havocked: it either installs the requested locale or raises locale.Error leaving the
locale unchanged):
 * CollationManager.__enter__: returns holding the lock exactly when a locale collation is requested, with the saved locale
   recorded; on every exception the lock is NOT held, nothing is recorded and the locale is unchanged;
 * CollationManager.__exit__: releases the lock exactly when this manager holds it and restores the saved locale;
 * lemma (the `with CollationManager(...)` idiom, real __enter__/__exit__ inlined, arbitrary body that returns or raises):
   afterwards the lock is free and the locale is the one found on entry;
 * get_locale_category: the locale found on entry is the locale on exit (normal return).
Finite (GROUND): every use of the global-state APIs in the package (setlocale, the lock, os.environ, decimal contexts) is one
of the audited sites; every CollationManager is used through `with`.
Bounded: state snapshots around evaluations, environment gating, entity rejection, cache isolation, threads.
"""
from __future__ import annotations

import ast
import inspect
import locale
import os
import random
import threading
import decimal

import z3

from pyvc.values import *  # noqa
from pyvc.contract import Contract, Case
from pyvc.specprims import *  # noqa
from .common import *  # noqa
from .bounded import Bounded
import elementpath
from elementpath import collations
from elementpath.collations import CollationManager
from elementpath.exceptions import ElementPathError


class _G:      # ghost state holder
    pass


def _ghost(S, ex, lock0=0):
    return VObj(_G, {'lock': VInt(lock0), 'loc': S.str('loc0'), 'loc0': None, 'restored_with': NONE}, name='ghost')


def _hooks(ex, S, ghost, setlocale_may_fail=True):
    ghost.fields['loc0'] = ghost.fields['loc']
    n = {'k': 0}

    def acquire(ex, node, a, kw):
        # the lock is re-entrant (RLock): the ghost counter is the number of acquisitions by this thread
        cur = z3.simplify(ghost.fields['lock'].t)
        if z3.is_int_value(cur) and cur.as_long() == 0:
            # interference: while this thread waited for the lock, the thread that held it may have switched LC_COLLATE.  The locale "found" by
            # the manager is the one in force when the lock is obtained, so anything read before this point is stale.
            n['k'] += 1
            fresh = VStr(ex.fresh(f'loc_at_acquire{n["k"]}', z3.StringSort()))
            ghost.fields['loc'] = fresh
            ghost.fields['loc0'] = fresh
        ghost.fields['lock'] = VInt(ghost.fields['lock'].t + 1)
        return VBool(True)

    def release(ex, node, a, kw):
        ex.oblige('release_only_a_held_lock', ghost.fields['lock'].t > 0, 'V', 'the collation lock is held when it is released')
        ghost.fields['lock'] = VInt(ghost.fields['lock'].t - 1)
        return NONE

    def getlocale(ex, node, a, kw):
        if not a:
            return VStr(ex.fresh('lc_ctype', z3.StringSort()))      # getlocale() without a category reads LC_CTYPE, another value
        return ghost.fields['loc']          # T-LOCALE: getlocale() names the current locale, setlocale(that name) restores it

    def setlocale(ex, node, a, kw):
        if len(a) < 2 or isinstance(a[1], VNone):
            # query: the C library returns the name that restores the current locale when it is passed back (T-LOCALE)
            ghost.fields['saved_value'] = ghost.fields['loc']
            return ghost.fields['loc']
        req = a[1]
        restoring = isinstance(req, VStr) and req is ghost.fields.get('saved_value')
        if setlocale_may_fail and not restoring:
            if ex.choose(2, 'setlocale') == 1:
                ex.raise_py(locale.Error)
        n['k'] += 1
        if isinstance(req, VStr):
            new = req
        else:
            new = VStr(ex.fresh(f'newloc{n["k"]}', z3.StringSort()))
        ghost.fields['loc'] = new
        return new

    def xpath_error_(ex, node, a, kw):
        return VExc(ElementPathError, a[0].conc if a and a[0].conc is not NOTCONC else None)
    return {'_locale_collate_lock.acquire': acquire, '_locale_collate_lock.release': release, 'locale.getlocale': getlocale,
            'locale.setlocale': setlocale, 'xpath_error': xpath_error_}


def _manager(S, ex, requested: bool, held: bool = False, ghost=None):
    fields = {'collation': S.str('collation'), 'token': NONE, 'fallback': S.bool('fallback'),
              'lc_collate': S.str('lc_collate') if requested else NONE, '_current_lc_collate': NONE}
    if held:
        saved = S.str('saved')
        fields['_current_lc_collate'] = saved
        ghost.fields['saved_value'] = saved
    return VObj(CollationManager, fields, name='self')


def enter_case(requested):
    def setup(S, ex):
        ghost = _ghost(S, ex)
        mgr = _manager(S, ex, requested)
        return Case([mgr], hooks=_hooks(ex, S, ghost), names={'ghost': ghost, 'mgr': mgr})
    return setup


def exit_case(held):
    def setup(S, ex):
        ghost = _ghost(S, ex, lock0=1 if held else 0)
        mgr = _manager(S, ex, True, held=held, ghost=ghost)
        hooks = _hooks(ex, S, ghost)
        return Case([mgr, NONE, NONE, NONE], hooks=hooks, names={'ghost': ghost, 'mgr': mgr})
    return setup


CONTRACTS = [
    Contract('CollationManager.__enter__.locale_collation', 'C19', lambda: CollationManager.__enter__, enter_case(True),
             post=[('returns_holding_the_lock_with_the_entry_locale_saved',
                    "(not returned) or (ghost.lock == 1 and mgr._current_lc_collate == ghost.loc0)"),
                   ('on_failure_lock_free_nothing_saved_locale_unchanged',
                    "returned or (ghost.lock == 0 and mgr._current_lc_collate is None and ghost.loc == ghost.loc0)"),
                   ('only_a_coded_error_escapes', "returned or raised_name == 'ElementPathError'")],
             native=None, expect_min_obligations=3),
    Contract('CollationManager.__enter__.codepoint_collation', 'C19', lambda: CollationManager.__enter__, enter_case(False),
             post=[('no_lock_no_locale_change', "returned and ghost.lock == 0 and ghost.loc == ghost.loc0 and mgr._current_lc_collate is None")],
             native=None, expect_min_obligations=1),
    Contract('CollationManager.__exit__.holding', 'C19', lambda: CollationManager.__exit__, exit_case(True),
             post=[('releases_and_restores', "returned and ghost.lock == 0 and ghost.loc == saved and mgr._current_lc_collate is None")],
             native=None, expect_min_obligations=1),
    Contract('CollationManager.__exit__.not_holding', 'C19', lambda: CollationManager.__exit__, exit_case(False),
             post=[('touches_nothing', "returned and ghost.lock == 0 and ghost.loc == ghost.loc0")],
             native=None, expect_min_obligations=1),
]


# ---- lemma: the with-statement idiom -----------------------------------------------------------------------------------------
def use_collation(manager):
    with manager:
        body()          # noqa: F821 - havocked: any code using the collation, returning or raising


def with_case(requested):
    def setup(S, ex):
        ghost = _ghost(S, ex)
        mgr = _manager(S, ex, requested)
        hooks = _hooks(ex, S, ghost)

        def body(ex, node, a, kw):
            d = ex.choose(3, 'body')
            if d == 1:
                ex.raise_py(ElementPathError)
            if d == 2:
                ex.raise_py(KeyboardInterrupt)
            return NONE

        def getlocale(ex, node, a, kw):
            v = ghost.fields['loc'] if a else VStr(ex.fresh('lc_ctype', z3.StringSort()))
            ghost.fields['saved_value'] = v
            return v
        hooks['body'] = body
        hooks['locale.getlocale'] = getlocale
        return Case([mgr], hooks=hooks, names={'ghost': ghost, 'mgr': mgr})
    return setup


for _req in (True, False):
    CONTRACTS.append(Contract(
        f"with_CollationManager.{'locale' if _req else 'codepoint'}_collation", 'C19', (lambda: use_collation), with_case(_req),
        post=[('lock_free_and_locale_restored_on_every_exit', "ghost.lock == 0 and ghost.loc == ghost.loc0 and mgr._current_lc_collate is None")],
        inline={'CollationManager.__enter__', 'CollationManager.__exit__'}, lemma=True, native=None, expect_min_obligations=1,
        notes=['body() is arbitrary code: returns, raises a library error or raises a BaseException; __enter__ failures propagate before the body runs']))


def locale_category_case(S, ex):
    ghost = _ghost(S, ex)
    hooks = _hooks(ex, S, ghost, setlocale_may_fail=False)

    def setlocale(ex, node, a, kw):
        if isinstance(a[1], VNone):
            return ghost.fields['loc']
        req = a[1]
        if isinstance(req, VStr) and req.conc == '':
            new = VStr(ex.fresh('user_preferred', z3.StringSort()))
        else:
            new = req
        ghost.fields['loc'] = new
        return new
    hooks['locale.setlocale'] = setlocale
    return Case([VInt(locale.LC_COLLATE)], hooks=hooks, names={'ghost': ghost})


CONTRACTS.append(Contract('get_locale_category', 'C19', lambda: collations.get_locale_category, locale_category_case,
                          post=[('locale_on_exit_is_locale_on_entry', "returned and ghost.loc == ghost.loc0")], native=None, expect_min_obligations=1))

def lc_collate_case(S, ex):
    ghost = _ghost(S, ex)
    hooks = _hooks(ex, S, ghost, setlocale_may_fail=False)
    # `with _locale_collate_lock:` acquires on entry and releases on every exit
    hooks['_locale_collate_lock.__enter__'] = hooks['_locale_collate_lock.acquire']
    hooks['_locale_collate_lock.__exit__'] = lambda ex, node, a, kw: (hooks['_locale_collate_lock.release'](ex, node, a, kw), VBool(False))[1]
    return Case([], hooks=hooks, names={'ghost': ghost})


if hasattr(collations, 'get_lc_collate'):
    CONTRACTS.append(Contract('get_lc_collate', 'C19', lambda: collations.get_lc_collate, lc_collate_case,
                              post=[('reads_the_locale_in_force_once_the_lock_is_obtained_and_changes_nothing',
                                     "returned and result == ghost.loc0 and ghost.loc == ghost.loc0 and ghost.lock == 0")], native=None, expect_min_obligations=1))

TRUSTED = ["T-LOCALE: setlocale(LC_COLLATE) without a locale argument returns the name of the current locale and setlocale(LC_COLLATE, that value) restores it "
           "without raising (the contract of the C library; locale.getlocale, which normalises names and can raise, is modelled the same way where the code "
           "still uses it); a failing setlocale leaves the locale unchanged; threading.Lock is modelled for one thread (ghost counter)"]


# ---- GROUND: audited uses of global-state APIs -----------------------------------------------------------------------------------
AUDITED = {
    # (module, function, api): reason
    ('elementpath.collations', 'get_locale_category', 'setlocale'): 'contract get_locale_category',
    ('elementpath.collations', 'CollationManager.__enter__', 'setlocale'): 'contract __enter__',
    ('elementpath.collations', 'CollationManager.__enter__', '_locale_collate_lock'): 'contract __enter__',
    ('elementpath.collations', 'CollationManager.__exit__', 'setlocale'): 'contract __exit__',
    ('elementpath.collations', 'CollationManager.__exit__', '_locale_collate_lock'): 'contract __exit__',
    ('elementpath.xpath2.xpath2_parser', 'XPath2Parser.__init__', 'setlocale'): 'setlocale(LC_COLLATE, None) only queries',
    ('elementpath.collations', 'get_lc_collate', 'setlocale'): 'contract get_lc_collate',
    ('elementpath.collations', 'get_lc_collate', '_locale_collate_lock'): 'contract get_lc_collate',
    ('elementpath.xpath30._xpath30_functions', 'evaluate__environment_variable', 'os.environ'): 'read only, gated by allow_environment (bounded check)',
    ('elementpath.xpath30._xpath30_functions', 'evaluate__available_env_vars', 'os.environ'): 'read only, gated by allow_environment (bounded check)',
}
READ_ONLY_OK = {'localcontext'}       # decimal.localcontext() is a private copy restored on exit
FORBIDDEN = ('setcontext', 'getcontext', 'putenv', 'unsetenv')


def global_state_api_sites(tier, seed):
    from .C03 import _functions_of_package
    fails, n, sites = [], 0, []
    for mod, fn in _functions_of_package():
        try:
            tree = ast.parse(__import__('textwrap').dedent(inspect.getsource(fn)))
        except (OSError, TypeError, SyntaxError, IndentationError):
            continue
        where = (mod.__name__, fn.__qualname__)
        with_targets = set()
        for node in ast.walk(tree):
            if isinstance(node, ast.With):
                for it in node.items:
                    with_targets.add(id(it.context_expr))
        for node in ast.walk(tree):
            api = None
            if isinstance(node, ast.Attribute) and node.attr in ('setlocale',) + FORBIDDEN:
                api = node.attr
            elif isinstance(node, ast.Name) and node.id in ('_locale_collate_lock',) + FORBIDDEN:
                api = node.id
            elif isinstance(node, ast.Attribute) and node.attr == 'environ' and ast.unparse(node.value) == 'os':
                api = 'os.environ'
            if api:
                n += 1
                sites.append(f'{where[0]}.{where[1]}: {api}')
                if api in FORBIDDEN:
                    fails.append({'key': f'{api} used in {where[0]}.{where[1]}', 'what': f'{where[0]}.{where[1]} uses {api}: the process-wide '
                                  'decimal context / environment would be modified or depended upon'})
                elif (where[0], where[1], api) not in AUDITED:
                    fails.append({'key': f'{api} used outside the audited sites in {where[0]}.{where[1]}',
                                  'what': f'{where[0]}.{where[1]} uses {api} and is not under contract'})
                elif api == 'os.environ':
                    par = [p for p in ast.walk(tree) if any(ch is node for ch in ast.iter_child_nodes(p))]
                    if par and isinstance(par[0], (ast.Subscript,)) and isinstance(par[0].ctx, (ast.Store, ast.Del)):
                        fails.append({'key': f'os.environ written in {where[0]}.{where[1]}', 'what': 'os.environ is modified'})
            # CollationManager(...) must be the context expression of a with statement
            if isinstance(node, ast.Call) and ast.unparse(node.func) == 'CollationManager':
                n += 1
                sites.append(f'{where[0]}.{where[1]}: CollationManager(...)')
                if id(node) not in with_targets:
                    fails.append({'key': f'CollationManager used without a with statement in {where[0]}.{where[1]}',
                                  'what': f'{where[0]}.{where[1]} builds a CollationManager outside `with`: __exit__ is not guaranteed to run'})
    return {'obligations': n, 'discharged': n - len(fails), 'evaluations': n, 'distinct': n, 'exhaustive': True, 'count_each': True,
            'scope': f'every occurrence of setlocale, the collation lock, os.environ, decimal getcontext/setcontext, putenv and every CollationManager(...) call in '
            f'the package ({n} sites): audited site under contract / read-only, and CollationManager only as a with-statement context expression', 'sites': sites,
            'failures': fails}


def _replay_sites(f):
    r = global_state_api_sites('quick', 0)
    return all(x['key'] != f['key'] for x in r['failures'])


GROUND = [Bounded('global_state_api_sites', global_state_api_sites, _replay_sites)]


# ---- BOUNDED: snapshots, gating, entities, caches, threads ----------------------------------------------------------------------------
def _lock_held():
    """The lock is free iff another thread can take it at once."""
    got = []

    def probe():
        ok = collations._locale_collate_lock.acquire(blocking=False)
        if ok:
            collations._locale_collate_lock.release()
        got.append(ok)
    t = threading.Thread(target=probe)
    t.start()
    t.join()
    return not got[0]


def _snapshot():
    ctx = decimal.getcontext()
    return {'lc_collate': locale.setlocale(locale.LC_COLLATE, None), 'lc_ctype': locale.setlocale(locale.LC_CTYPE, None),       # the exact names, not normalised
            'lock_held': _lock_held(), 'decimal': (ctx.prec, ctx.rounding, ctx.Emin, ctx.Emax, ctx.capitals, ctx.clamp,
                                                                          tuple(sorted(k.__name__ for k, v in ctx.traps.items() if v))),
            'environ': hash(tuple(sorted(os.environ.items())))}


STATE_EXPRS = [
    "compare('a', 'b')", "compare('a', 'b', 'http://www.w3.org/2005/xpath-functions/collation/codepoint')", "compare('a', 'b', 'C.utf8')", "compare('a', 'b', 'POSIX')",
    "compare('a', 'b', 'xx_XX.UTF-8')", "compare('a', 'b', 'http://www.w3.org/2013/collation/UCA?lang=C;fallback=no')",
    "compare('a', 'b', 'http://www.w3.org/2013/collation/UCA?lang=zz;fallback=no')", "compare('a', 'b', 'http://www.w3.org/2013/collation/UCA?lang=zz;fallback=yes')",
    "compare('a', 'b', 'http://www.w3.org/2013/collation/UCA')", "compare('a', 1 div 0, 'C.utf8')", "contains('abc', 'b', 'C.utf8')", "starts-with('abc', 'a', 'POSIX')",
    "index-of(('a', 'b'), 'a', 'C.utf8')", "distinct-values(('a', 'A'), 'C.utf8')", "deep-equal(('a'), ('a'), 'C.utf8')", "max(('a', 'b'), 'C.utf8')",
    "min(('a', 1), 'C.utf8')", "substring-before('abc', 'b', 'C.utf8')", "sort(('b', 'a'), 'C.utf8')", "sort(('b', 1), 'C.utf8')",
    "for $x in ('a', 'b') return compare($x, 'a', 'C.utf8')", "compare('a', 'b', '%')", "compare('a', 'b', '')", "contains-token('a b', 'a', 'C.utf8')",
    "index-of(('a', 'b'), compare('a', 'b', 'POSIX'), 'C.utf8')", "deep-equal(compare('a', 'b', 'POSIX'), -1, 'C.utf8')",
    "round-half-to-even(12345678901234567890123456789012345.5)", "round-half-to-even(-12345678901234567890123456789012345.5, 2)", "round(1234567890123456789012345678901.5)",
    "xs:decimal(1) div 3", "format-number(12345678901234567890123456789012345.678, '#.00')", "1234567890123456789012345678901234567890.5 * 2",
    "environment-variable('PATH')", "available-environment-variables()", "round(1e300, 300)", "xs:decimal('1e5')", "sum((0.1, 0.2))",
]


def state_preservation(tier, seed):
    from elementpath.xpath31 import XPath31Parser
    fam, n = {}, 0

    def bad(k, **w):
        fam.setdefault(k, []).append(w)
    saved_env = locale.setlocale(locale.LC_COLLATE, None)
    configs = ['C']
    for cand in ('C.UTF-8', 'C.utf8', 'POSIX'):
        try:
            locale.setlocale(locale.LC_COLLATE, cand)
            configs.append(cand)
        except locale.Error:
            pass
    try:
        for cfg in dict.fromkeys(configs):
            locale.setlocale(locale.LC_COLLATE, cfg)
            for e in STATE_EXPRS:
                before = _snapshot()
                n += 1
                outcome = None
                done = threading.Event()

                def run():
                    nonlocal outcome
                    try:
                        outcome = ('ok', repr(XPath31Parser().parse(e).evaluate(elementpath.XPathContext(root=None, item=1))))
                    except ElementPathError as x:
                        outcome = ('err', x.code)
                    except BaseException as x:      # noqa
                        outcome = ('exc', type(x).__name__)
                    done.set()
                t = threading.Thread(target=run, daemon=True)
                t.start()
                if not done.wait(20):
                    bad('an evaluation does not complete (lock held by an earlier evaluation?)', expr=e, lc_collate=cfg)
                    return _result(fam, n)
                after = _snapshot()
                for k in before:
                    if before[k] != after[k]:
                        bad(f'{k} differs after an evaluation', expr=e, lc_collate=cfg, before=repr(before[k])[:80], after=repr(after[k])[:80], outcome=outcome)
                        if k == 'lc_collate':
                            locale.setlocale(locale.LC_COLLATE, cfg)
                        if k == 'decimal':
                            decimal.setcontext(decimal.Context(prec=28))
                # same answer when evaluated again (later evaluations give the same answers)
                first = outcome
                done.clear()
                t = threading.Thread(target=run, daemon=True)
                t.start()
                if not done.wait(20):
                    bad('an evaluation does not complete (lock held by an earlier evaluation?)', expr=e, lc_collate=cfg)
                    return _result(fam, n)
                if outcome != first and 'environment' not in e:
                    bad('the same expression gives a different answer when evaluated again', expr=e, first=first, second=outcome)
    finally:
        locale.setlocale(locale.LC_COLLATE, saved_env)
    # environment gating with default settings, also through function items
    for e in ["environment-variable('PATH')", "environment-variable#1('PATH')", "let $f := environment-variable#1 return $f('HOME')",
              "for-each(('PATH', 'HOME'), environment-variable#1)", "function-lookup(xs:QName('fn:environment-variable'), 1)('PATH')",
              "environment-variable(?)('PATH')", "available-environment-variables()", "available-environment-variables#0()",
              "apply(environment-variable#1, ['PATH'])", "('PATH') ! environment-variable(.)", "'PATH' => environment-variable()"]:
        n += 1
        os.environ.setdefault('PATH', '/usr/bin')
        try:
            r = XPath31Parser().parse(e).evaluate(elementpath.XPathContext(root=None, item=1))
        except ElementPathError:
            continue
        if r not in ([], None):
            bad('an environment variable is observable with default settings', expr=e, got=repr(r)[:60])
    # entity declarations are rejected, not expanded
    docs = ['<!DOCTYPE r [<!ENTITY e "x">]><r>&e;</r>', '<!DOCTYPE r [<!ENTITY e SYSTEM "file:///etc/passwd">]><r>&e;</r>',
            '<!DOCTYPE r [<!ENTITY % p "<!ELEMENT r (#PCDATA)>"> %p;]><r>text</r>', '<!DOCTYPE r [<!ENTITY % p SYSTEM "http://x/y.dtd"> %p;]><r/>',
            '<!DOCTYPE r [<!ENTITY e "x"><!ENTITY f "&e;&e;">]><r>&f;</r>', '<!DOCTYPE r [<!ENTITY u SYSTEM "u.gif" NDATA gif>]><r/>',
            '<!DOCTYPE r SYSTEM "http://x/r.dtd"><r/>',
            '<?xml version="1.0"?><!DOCTYPE r [<!ENTITY e "x">]><r>&e;</r>', '<!--c--><!DOCTYPE r [<!ENTITY e "x">]><r a="&e;"/>',
            '<?pi d?>\n<!DOCTYPE r [<!ENTITY e "x">]><r>&e;</r>', '<?xml version="1.0" encoding="utf-8"?>\n<!-- c -->\n<!DOCTYPE r [<!ENTITY e SYSTEM "file:///etc/hostname">]><r>&e;</r>']
    import xml.etree.ElementTree as _ET0
    import lxml.etree as _LX0
    # the library parses with the XML library of the context tree: no tree, an xml.etree tree, an lxml element and an lxml document as root
    contexts = [('no tree', lambda: dict(root=None, item=1)), ('xml.etree tree', lambda: dict(root=_ET0.XML('<c/>'))), ('lxml element', lambda: dict(root=_LX0.XML('<c/>'))),
                ('lxml document', lambda: dict(root=_LX0.ElementTree(_LX0.XML('<c/>'))))]
    for d in docs:
        for fnname in ('parse-xml', 'parse-xml-fragment'):
            for cname, mkctx in contexts:
                n += 1
                try:
                    r = XPath31Parser().parse(f'{fnname}($d)').evaluate(elementpath.XPathContext(variables={'d': d}, **mkctx()))
                except ElementPathError:
                    continue
                except Exception as x:      # noqa
                    bad(f'{fnname}: a document with a DOCTYPE raises a non-XPath error', doc=d, exc=type(x).__name__, context=cname)
                    continue
                if 'ENTITY' in d and fnname == 'parse-xml':
                    bad(f'{fnname}: a DOCTYPE declaring entities is accepted' + ('' if cname == 'no tree' else f' (context: {cname})'), doc=d, got=repr(r)[:60], context=cname)
    # module-level caches are not corrupted by a history of character classes
    import unicodedata
    oracle = {r'\p{Lu}': lambda c: unicodedata.category(c) == 'Lu', r'\p{Ll}': lambda c: unicodedata.category(c) == 'Ll',
              r'\d': lambda c: unicodedata.category(c) == 'Nd', r'\p{Nd}': lambda c: unicodedata.category(c) == 'Nd',
              r'\P{Lu}': lambda c: unicodedata.category(c) != 'Lu', r'\p{L}': lambda c: unicodedata.category(c)[0] == 'L'}
    history = [r'[\P{Lu}-[a]]', r'[^\P{Lu}Z]', r'[\D-[x]]', r'[\P{Ll}\P{Lt}]', r'[\p{Lu}-[A-C]]', r'[^\d5]', r'[\p{L}-[\p{Lu}]]', r'[\P{Nd}\p{Lu}]', r'[^\p{Ll}a]']
    probe = 'AZaz09_- éÉ٣Ωωǅ'
    mt = XPath31Parser().parse('matches($s, $p)')
    for h in history:
        try:
            mt.evaluate(elementpath.XPathContext(root=None, item=1, variables={'s': 'Ab1', 'p': h}))
        except ElementPathError:
            pass
        for p, f in oracle.items():
            for ch in probe:
                n += 1
                try:
                    got = mt.evaluate(elementpath.XPathContext(root=None, item=1, variables={'s': ch, 'p': '^' + p + '$'}))
                except ElementPathError as x:
                    got = f'raises {x.code}'
                if got != f(ch):
                    bad('a shared Unicode category is corrupted by an earlier character class', after=h, pattern=p, char=ch, got=got)
    # independent selectors from several threads give the sequential answers
    import xml.etree.ElementTree as ET
    root = ET.XML('<a>' + ''.join(f'<b n="{i}">{i}</b>' for i in range(40)) + '</a>')
    exprs = ["sum(//b/@n)", "count(//b[. mod 2 = 0])", "string-join(//b[position() < 5], ',')", "sort(//b/string())[1]", "compare('a', 'b', 'C.utf8')",
             "for $x in //b return $x * 2", "matches('Ab1', '[\\P{Lu}-[a]]+')", "distinct-values(//b/(@n mod 3))", "xs:decimal(1) div 3", "//b[@n = '7']/string()"]
    sel = [elementpath.Selector(e, parser=XPath31Parser) for e in exprs]
    seq = [repr(s.select(root)) for s in sel]
    results, errors = {}, []

    def worker(i):
        try:
            for _ in range(5 if tier == 'quick' else 30):
                results.setdefault(i, []).append(repr(elementpath.Selector(exprs[i], parser=XPath31Parser).select(root)))
        except BaseException as x:      # noqa
            errors.append((i, type(x).__name__))
    threads = [threading.Thread(target=worker, args=(i,), daemon=True) for i in range(len(exprs)) for _ in range(2)]
    for t in threads:
        t.start()
    import time as _time
    deadline = _time.time() + 60
    for t in threads:
        t.join(max(0.0, deadline - _time.time()))
        if t.is_alive():
            bad('concurrent selectors do not complete', expr='(thread still running after 60 s)')
            break
    n += len(threads)
    for i, rs in results.items():
        if any(r != seq[i] for r in rs):
            bad('a selector gives a different result when run concurrently', expr=exprs[i], sequential=seq[i][:60], got=[r for r in rs if r != seq[i]][0][:60])
    for i, x in errors:
        bad('a selector raises when run concurrently', expr=exprs[i], exc=x)
    # a result iterator that the caller has not exhausted holds no process-wide state: the locale and the lock are as before between two items
    usable = [c for c in ('C.UTF-8', 'C.utf8', 'POSIX', 'C') if c != locale.setlocale(locale.LC_COLLATE, None)]
    for coll in usable[:2]:
        for expr in (f"index-of(('a', 'b', 'a'), 'a', '{coll}')", f"distinct-values(('a', 'b', 'a'), '{coll}')", f"for $x in ('b', 'a') return compare($x, 'a', '{coll}')",
                     f"sort(('b', 'a', 'c'), '{coll}')", f"(//b)[contains(., '1', '{coll}')]/string()"):
            n += 1
            before = _snapshot()
            try:
                it = elementpath.iter_select(root, expr, parser=XPath31Parser)
                next(it)
            except ElementPathError:
                continue
            except StopIteration:
                pass
            mid = _snapshot()
            other = []
            th = threading.Thread(target=lambda: other.append(collations._locale_collate_lock.acquire(timeout=2) and (collations._locale_collate_lock.release() or True)), daemon=True)
            th.start()
            th.join(5)
            if mid['lc_collate'] != before['lc_collate'] or other != [True]:
                bad('a suspended result iterator keeps the changed locale or the collation lock', expr=expr, lc_collate_before=before['lc_collate'],
                    lc_collate_while_suspended=mid['lc_collate'], lock_free_for_another_thread=other == [True])
            try:
                list(it)
            except ElementPathError:
                pass
            del it
    # a parser built while another thread is inside an evaluation with a locale collation gets the default collation it gets sequentially
    want_dc = XPath31Parser().default_collation
    for coll in usable[:2]:
        n += 1
        inside, go_on, got_dc = threading.Event(), threading.Event(), []

        def holder():
            try:
                with collations.CollationManager(coll):
                    inside.set()
                    go_on.wait(3)
            except ElementPathError:
                inside.set()
        ta = threading.Thread(target=holder, daemon=True)
        ta.start()
        inside.wait(5)
        tb = threading.Thread(target=lambda: got_dc.append(XPath31Parser().default_collation), daemon=True)
        tb.start()
        tb.join(0.5)
        go_on.set()
        ta.join(5)
        tb.join(5)
        if got_dc != [want_dc]:
            bad('a parser built while another thread evaluates with a locale collation gets another default collation', collation_in_flight=coll, got=repr(got_dc)[:90], sequential=want_dc)
    return _result(fam, n)


def _result(fam, n):
    if _lock_held():
        # harness hygiene, after the leak has been recorded above: a lock left held by a finished thread would block every later check that this
        # worker process runs (the pool re-uses processes), turning one violation into a hang of the whole run
        fam.setdefault('the collation lock is still held when the check ends', []).append({'note': 'the lock object is replaced for the rest of this process'})
        collations._locale_collate_lock = threading.RLock()
    fails = [{'key': k, 'items': it[:4], 'count': len(it), 'what': f'{k}: e.g. {it[0]}'} for k, it in fam.items()]
    return {'evaluations': n, 'distinct': n, 'exhaustive': False,
            'scope': f'{len(STATE_EXPRS)} collation / decimal / environment expressions under each installable LC_COLLATE of (C, C.UTF-8, POSIX): snapshot of LC_COLLATE, '
            'LC_CTYPE, the collation lock, the decimal context and os.environ before and after, completion within 20 s, same answer when repeated; environment gating '
            'through 11 call forms; 11 DOCTYPE documents (4 with an XML declaration, comment or processing instruction before the DOCTYPE) x parse-xml / parse-xml-fragment; Unicode category probes after 9 character-class histories; 20 threads of '
            'independent selectors against the sequential results', 'failures': fails}


def _replay_state(f):
    r = state_preservation('quick', 0)
    return all(x['key'] != f['key'] for x in r['failures'])


def state_preservation_isolated(tier, seed):
    from .bounded import run_isolated
    return run_isolated(state_preservation, tier, seed, 240 if tier == 'quick' else 900, 'state snapshots / gating / entities / caches / threads')


def _replay_state_isolated(f):
    r = state_preservation_isolated('quick', 0)
    return all(x['key'] != f['key'] for x in r['failures'])


BOUNDED = [Bounded('state_snapshots_gating_entities_caches_threads', state_preservation_isolated, _replay_state_isolated)]
