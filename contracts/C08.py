"""C08 - sequence expressions and sequence functions equal the F&O list model.

The input sequence is the havoc point self[0].select(context): an arbitrary sequence S of opaque
items of any length.  Each generator function is proved to yield exactly the sequence the F&O
definition prescribes, stated elementwise (length + forall j. out[j] == S[idx(j)]).
A-LEN: sequences have fewer than 2**53 items (positions are exactly representable as doubles).
"""
from __future__ import annotations

import decimal
import math

from pyvc.values import *  # noqa
from pyvc.contract import Contract, Case
from pyvc.interp import LoopSpec
from pyvc.specprims import *  # noqa
from .common import *  # noqa
from .bounded import Bounded


def seq_case(version, symbol, nitems, extra=None, method='select'):
    """extra(S, ex) -> dict name -> value for get_argument by index (1, 2, ...)"""
    def setup(S, ex):
        seq = S.seq('S', K_ITEM)
        argvals = extra(S, ex) if extra else {}
        tok = mk_token(version, symbol, parser=mk_parser(version, False), nitems=nitems, context=NONE)
        ctx = mk_context()

        def get_argument(ex, node, a, kw):
            idx = kw.get('index', a[1] if len(a) > 1 else VInt(0)).conc
            return argvals[idx]
        hooks = std_hooks(tok, {
            'self[0].select': lambda ex, node, a, kw: seq,
            'self[0].atomization': lambda ex, node, a, kw: seq,
            'self.get_argument': get_argument,
        })
        for k, v in argvals.items():
            if isinstance(v, VSeq):
                hooks[f'self[{k}].select'] = (lambda v: lambda ex, node, a, kw: v)(v)
        names = {f'arg{k}': v for k, v in argvals.items()}
        return Case([tok, ctx], hooks=hooks, names=names)
    return setup


ITEMS = [[], ['a'], ['a', 'b'], ['a', 'b', 'c'], [1, 2, 3, 4, 5], ['x', 'x', 'y']]


def seq_native(version, template, names):
    def native(i):
        vars_ = {'s': i['S']}
        for n, v in names.items():
            vars_[v] = i[n]
        r = select_native(version, template, **vars_)
        return r
    return native


def remove_samples(rng):
    for s in ITEMS:
        for p in (-1, 0, 1, 2, 3, 5, 6, 10 ** 30):
            yield {'S': s, 'p': p}


CONTRACTS = [
    Contract('remove', 'C08', token_method('2.0', 'remove', 'select'),
             seq_case('2.0', 'remove', 2, lambda S, ex: {1: S.int('p')}),
             post=[
                 ('length', "returned and len(out) == len(S) - (1 if 1 <= p and p <= len(S) else 0)"),
                 ('items_before_position', "returned and forall_range(0, min(max(p - 1, 0), len(out)), lambda j: out[j] == S[j])"),
                 ('items_after_position',
                  "returned and forall_range(max(p - 1, 0), len(out), lambda j: out[j] == S[j + (1 if p >= 1 else 0)])"),
             ],
             loops={0: LoopSpec([
                 "_i0 <= len(S)",
                 "len(out) == _i0 - (1 if 1 <= p and p <= _i0 else 0)",
                 "forall_range(0, len(out), lambda j: out[j] == S[j + (1 if p >= 1 and j >= p - 1 else 0)])",
             ])},
             generator=K_ITEM, native=seq_native('2.0', 'remove($s, $p)', {'p': 'p'}), samples=remove_samples),
]


def num_kinds():
    return {'int': lambda S, n, ex: S.int(n), 'float': lambda S, n, ex: S.float(n, ex=ex), 'dec': lambda S, n, ex: S.dec(n)}


def fn_round(x):
    """fn:round: nearest integer, ties toward positive infinity"""
    return floor_(exact_div(2 * exact(x) + 1, 2))


def lo_pos(a):
    """first selected position of subsequence(S, a ...): max(round(a), 1); anything for NaN/INF handled apart"""
    return max(fn_round(a), 1)


NK = num_kinds()
SUBSEQ_INV2 = [
    "_i0 <= len(S)",
    "len(out) == max(0, _i0 - min(_i0, lo_pos(arg1) - 1))",
    "forall_range(0, len(out), lambda j: out[j] == S[j + lo_pos(arg1) - 1])",
]


def subseq_samples(kinds):
    grid = {'int': [-2, 0, 1, 2, 3, 6, 10 ** 20], 'dec': [decimal.Decimal(x) for x in ('0.5', '1.5', '2.5', '-0.5', '2.49')],
            'float': [0.5, 1.5, 2.5, -0.5, 3.0, float('inf'), float('-inf'), float('nan'), 1e300]}

    def gen(rng):
        import itertools
        names = ['arg1', 'arg2'][:len(kinds)]
        for s in ITEMS:
            for combo in itertools.product(*[grid[k] for k in kinds]):
                d = {'S': s}
                d.update(dict(zip(names, combo)))
                yield d
    return gen


for k1 in ('int', 'dec', 'float'):
    CONTRACTS.append(Contract(
        f'subsequence2.{k1}', 'C08', token_method('2.0', 'subsequence', 'select'),
        seq_case('2.0', 'subsequence', 2, lambda S, ex, k1=k1: {1: NK[k1](S, 'arg1', ex)}),
        post=[
            ('finite_start', "not is_finite(arg1) or (returned and len(out) == max(0, len(S) - lo_pos(arg1) + 1) and "
                             "forall_range(0, len(out), lambda j: out[j] == S[j + lo_pos(arg1) - 1]))"),
            ('minus_inf_start_is_whole_sequence',
             "inf_sign(arg1) != -1 or (returned and len(out) == len(S) and forall_range(0, len(S), lambda j: out[j] == S[j]))"),
            ('nan_or_plus_inf_start_is_empty', "not (is_nan(arg1) or inf_sign(arg1) == 1) or (returned and len(out) == 0)"),
            ('only_coded_errors', "returned or raised_code is not None"),
        ],
        loops={0: LoopSpec([
            "_i0 <= len(S)",
            "implies(is_finite(arg1), len(out) == max(0, _i0 - min(_i0, lo_pos(arg1) - 1)))",
            "implies(is_finite(arg1), forall_range(0, len(out), lambda j: out[j] == S[j + lo_pos(arg1) - 1]))",
            "implies(inf_sign(arg1) == -1, len(out) == _i0 and forall_range(0, _i0, lambda j: out[j] == S[j]))",
            "implies(is_nan(arg1) or inf_sign(arg1) == 1, len(out) == 0)",
        ])},
        pre=['len(S) < 2 ** 53'], generator=K_ITEM, specs=[fn_round, lo_pos], inline={'round_number'},
        native=seq_native('2.0', 'subsequence($s, $a)', {'arg1': 'a'}), samples=subseq_samples([k1]), timeout_s=20))


def hi_pos(a, b, n):
    """one past the last selected position: min(round(a) + round(b), n + 1)"""
    return min(fn_round(a) + fn_round(b), n + 1)


for k1 in ('int', 'float'):
    for k2 in ('int', 'float'):
        CONTRACTS.append(Contract(
            f'subsequence3.{k1}.{k2}', 'C08', token_method('2.0', 'subsequence', 'select'),
            seq_case('2.0', 'subsequence', 3, lambda S, ex, k1=k1, k2=k2: {1: NK[k1](S, 'arg1', ex), 2: NK[k2](S, 'arg2', ex)}),
            post=[
                ('finite_window',
                 "not (is_finite(arg1) and is_finite(arg2)) or (returned and "
                 "len(out) == max(0, hi_pos(arg1, arg2, len(S)) - lo_pos(arg1)) and "
                 "forall_range(0, len(out), lambda j: out[j] == S[j + lo_pos(arg1) - 1]))"),
                ('nan_gives_empty', "not (is_nan(arg1) or is_nan(arg2)) or (returned and len(out) == 0)"),
                ('minus_inf_plus_inf_is_nan_hence_empty',
                 "not (inf_sign(arg1) == -1 and inf_sign(arg2) == 1) or (returned and len(out) == 0)"),
                ('finite_start_infinite_length',
                 "not (is_finite(arg1) and inf_sign(arg2) == 1) or (returned and len(out) == max(0, len(S) - lo_pos(arg1) + 1) "
                 "and forall_range(0, len(out), lambda j: out[j] == S[j + lo_pos(arg1) - 1]))"),
                ('only_coded_errors', "returned or raised_code is not None"),
            ],
            loops={1: LoopSpec([
                "_i1 <= len(S)",
                "implies(is_finite(arg1) and is_finite(arg2), "
                "len(out) == max(0, min(hi_pos(arg1, arg2, len(S)), _i1 + 1) - min(lo_pos(arg1), _i1 + 1)))",
                "implies(is_finite(arg1) and (is_finite(arg2) or inf_sign(arg2) == 1), "
                "forall_range(0, len(out), lambda j: out[j] == S[j + lo_pos(arg1) - 1]))",
                "implies(is_finite(arg1) and inf_sign(arg2) == 1, len(out) == max(0, _i1 - min(_i1, lo_pos(arg1) - 1)))",
                "implies(is_nan(arg1) or is_nan(arg2) or inf_sign(arg1) == 1 or inf_sign(arg2) == -1 or "
                "(inf_sign(arg1) == -1), len(out) == 0)",
            ])},
            pre=['len(S) < 2 ** 53'], generator=K_ITEM, specs=[fn_round, lo_pos, hi_pos], inline={'round_number'},
            native=seq_native('2.0', 'subsequence($s, $a, $b)', {'arg1': 'a', 'arg2': 'b'}),
            samples=subseq_samples([k1, k2]), timeout_s=20))


# ---- insert-before, reverse, tail, head, count, cardinality functions, empty/exists ---------------

def ins_case(S, ex):
    return {1: S.int('p'), 2: S.seq('I', K_ITEM)}


def ins_native(i):
    return select_native('2.0', 'insert-before($s, $p, $i)', s=i['S'], p=i['p'], i=i['I'])


def ins_samples(rng):
    for s in ITEMS[:5]:
        for ins in ([], ['z'], ['y', 'z']):
            for p in (-3, 0, 1, 2, 3, 4, 6, 100):
                yield {'S': s, 'p': p, 'I': ins}


def q_pos(p, n):
    """0-based insertion point: clamp(p - 1, 0, n)"""
    return min(max(p - 1, 0), n)


CONTRACTS += [
    Contract('insert-before', 'C08', token_method('2.0', 'insert-before', 'select'),
             seq_case('2.0', 'insert-before', 3, ins_case),
             pre=['len(S) < 2 ** 53'],
             post=[
                 ('length', "returned and len(out) == len(S) + len(arg2)"),
                 ('prefix', "returned and forall_range(0, q_pos(p, len(S)), lambda j: out[j] == S[j])"),
                 ('inserted', "returned and forall_range(0, len(arg2), lambda j: out[q_pos(p, len(S)) + j] == arg2[j])"),
                 ('suffix', "returned and forall_range(q_pos(p, len(S)), len(S), lambda j: out[j + len(arg2)] == S[j])"),
             ],
             loops={0: LoopSpec([
                 "_i0 <= len(S)",
                 "insert_at_pos == max(0, p - 1)",
                 "inserted == (_i0 > insert_at_pos)",
                 "len(out) == _i0 + (len(arg2) if inserted else 0)",
                 "forall_range(0, min(_i0, insert_at_pos), lambda j: out[j] == S[j])",
                 "implies(inserted, forall_range(0, len(arg2), lambda j: out[insert_at_pos + j] == arg2[j]))",
                 "implies(inserted, forall_range(insert_at_pos, _i0, lambda j: out[j + len(arg2)] == S[j]))",
             ])},
             generator=K_ITEM, specs=[q_pos], native=ins_native, samples=ins_samples, timeout_s=20),
    Contract('reverse', 'C08', token_method('2.0', 'reverse', 'select'), seq_case('2.0', 'reverse', 1),
             post=[('reversed', "returned and len(out) == len(S) and forall_range(0, len(S), lambda j: out[j] == S[len(S) - 1 - j])")],
             generator=K_ITEM, native=lambda i: select_native('2.0', 'reverse($s)', s=i['S']),
             samples=lambda rng: ({'S': s} for s in ITEMS)),
    Contract('tail', 'C08', token_method('3.0', 'tail', 'select'), seq_case('3.0', 'tail', 1),
             post=[('all_but_first', "returned and len(out) == max(len(S) - 1, 0) and "
                                     "forall_range(0, len(out), lambda j: out[j] == S[j + 1])")],
             loops={0: LoopSpec(["_i0 <= len(S)", "len(out) == max(_i0 - 1, 0)",
                                 "forall_range(0, len(out), lambda j: out[j] == S[j + 1])"])},
             generator=K_ITEM, native=lambda i: select_native('3.0', 'tail($s)', s=i['S']),
             samples=lambda rng: ({'S': s} for s in ITEMS)),
    Contract('count', 'C08', token_method('2.0', 'count', 'evaluate'), seq_case('2.0', 'count', 1),
             post=[('is_length', "returned and result == len(S)")],
             native=lambda i: eval_native('2.0', 'count($s)', s=i['S']), samples=lambda rng: ({'S': s} for s in ITEMS)),
]

CONTRACTS += [
    Contract('empty', 'C08', token_method('2.0', 'empty', 'select'), seq_case('2.0', 'empty', 1),
             post=[('true_iff_no_item', "returned and len(out) == 1 and out[0] == (len(S) == 0)")],
             generator=K_BOOL, native=lambda i: select_native('2.0', 'empty($s)', s=i['S']), samples=lambda rng: ({'S': s} for s in ITEMS)),
    Contract('exists', 'C08', token_method('2.0', 'exists', 'select'), seq_case('2.0', 'exists', 1),
             post=[('true_iff_some_item', "returned and len(out) == 1 and out[0] == (len(S) > 0)")],
             generator=K_BOOL, native=lambda i: select_native('2.0', 'exists($s)', s=i['S']), samples=lambda rng: ({'S': s} for s in ITEMS)),
]

CONTRACTS.append(Contract(
    'head', 'C08', token_method('3.0', 'head', 'evaluate'), seq_case('3.0', 'head', 1, method='evaluate'),
    post=[('first_item_or_empty', "returned and ((len(S) == 0 and is_empty_list(result)) or (len(S) > 0 and result == S[0]))")],
    loops={0: LoopSpec(["_i0 == 0"])},
    native=lambda i: eval_native('3.0', 'head($s)', s=i['S']), samples=lambda rng: ({'S': s} for s in ITEMS)))

for sym, code, ok, bad in (('zero-or-one', 'FORG0003', "len(S) <= 1", "len(S) > 1"),
                           ('one-or-more', 'FORG0004', "len(S) >= 1", "len(S) == 0"),
                           ('exactly-one', 'FORG0005', "len(S) == 1", "len(S) != 1")):
    CONTRACTS.append(Contract(
        sym, 'C08', token_method('2.0', sym, 'select'), seq_case('2.0', sym, 1),
        post=[
            ('identity_when_cardinality_fits', f"not ({ok}) or (returned and len(out) == len(S) and "
                                               "forall_range(0, len(S), lambda j: out[j] == S[j]))"),
            ('coded_error_otherwise', f"not ({bad}) or raised_code == '{code}'"),
        ],
        loops={0: LoopSpec(["1 <= iter_pos(results) and iter_pos(results) <= len(S)", "len(out) == iter_pos(results)",
                            "forall_range(0, len(out), lambda j: out[j] == S[j])"])} if sym == 'one-or-more' else {},
        generator=K_ITEM, native=lambda i, sym=sym: select_native('2.0', f'{sym}($s)', s=i['S']),
        samples=lambda rng: ({'S': s} for s in ITEMS)))


# ---- bounded stand-in: the remaining constructs against a Python list model ---------------------

def bounded_sequences(tier, seed):
    import itertools
    from fractions import Fraction
    from elementpath import select as ep_select
    palette = [1, 2, 3, 2, decimal.Decimal('2.5'), 2.0, -1, 'a', 'b', 'a']
    nums = [1, 2, 3, 2, decimal.Decimal('2.5'), 2.0, -1, 0, decimal.Decimal('-0.5'), 1e300]
    maxlen = 3 if tier == 'quick' else 4
    seqs = [list(t) for k in range(maxlen + 1) for t in itertools.product([1, 2, 'a', 2.0], repeat=k)]
    numseqs = [list(t) for k in range(maxlen + 1) for t in itertools.product([1, 2, decimal.Decimal('2.5'), -1.5], repeat=k)]
    fails, n, seen = [], 0, set()

    def ev(expr, **v):
        return run_native(lambda: ep_select(None, expr, parser=PARSERS['3.1'], item=1, variables=v))

    def same(a, b):
        if isinstance(a, float) and isinstance(b, float) and math.isnan(a) and math.isnan(b):
            return True
        if isinstance(a, int) and not isinstance(a, bool) and isinstance(b, decimal.Decimal):
            return a == b        # xs:integer is substitutable for the xs:decimal the F&O rules name
        return type(a) is type(b) and a == b

    def check(expr, want, **v):
        nonlocal n
        n += 1
        got = ev(expr, **v)
        if isinstance(want, tuple) and want and want[0] == 'raise':
            ok = got[0] == 'raise' and str(getattr(got[1], 'code', '')).endswith(want[1])
        else:
            g = got[1] if got[0] == 'return' else None
            if not isinstance(g, list):
                g = [g] if g is not None and g != [] else ([] if g == [] else None)
            w = want if isinstance(want, list) else [want]
            ok = g is not None and len(g) == len(w) and all(same(x, y) for x, y in zip(g, w))
        if not ok and len(fails) < 40:
            fails.append({'key': f'{expr}|{v!r}', 'what': f'{expr} with {v!r}: got {got!r}, list model gives {want!r}'})

    def fround(x):
        return math.floor(Fraction(x) + Fraction(1, 2))
    for s in seqs:
        seen.add(('basic', len(s), tuple(type(x).__name__ for x in s)))
        check('count($s)', len(s), s=s)
        check('empty($s)', not s, s=s)
        check('exists($s)', bool(s), s=s)
        check('head($s)', s[:1], s=s)
        check('tail($s)', s[1:], s=s)
        check('reverse($s)', s[::-1], s=s)
        check('($s, $s)', s + s, s=s)
        check('for $x in $s return ($x, $x)', [y for x in s for y in (x, x)], s=s)
        check('$s ! (., 0)', [y for x in s for y in (x, 0)], s=s)
        # the inner focus of E1 ! E2: item, position and size come from E1, whatever the focus outside is
        check('$s ! last()', [len(s)] * len(s), s=s)
        check('$s ! position()', list(range(1, len(s) + 1)), s=s)
        check('$s ! (position() = last())', [k == len(s) for k in range(1, len(s) + 1)], s=s)
        check('(7, 8) ! ($s ! last())', [len(s)] * (2 * len(s)), s=s)
        check('(7, 8)[1] ! ($s ! (position(), last()))', [y for k in range(1, len(s) + 1) for y in (k, len(s))], s=s)
        check('$s ! (., 0)[last()]', [0] * len(s), s=s)
        check('for $x in $s return last()', [1] * len(s), s=s)
        # range variables are local to the expression that binds them
        check('for $x in (1, 2) return ((for $x in $s return $x), $x)', [y for o in (1, 2) for y in s + [o]], s=s)
        check('let $x := 0 return ((for $x in $s return $x), $x)', s + [0], s=s)
        check('for $x in (1, 2) return ((some $x in $s satisfies $x instance of xs:string), $x)', [y for o in (1, 2) for y in (any(isinstance(v, str) for v in s), o)], s=s)
        check('for $x in (1, 2) return ((every $x in $s satisfies $x instance of xs:string), $x)', [y for o in (1, 2) for y in (all(isinstance(v, str) for v in s), o)], s=s)
        check('for $x in (1, 2), $y in ($x, 5) return ((for $y in $s return $y), $x, $y)', [y for o in (1, 2) for i in (o, 5) for y in s + [o, i]], s=s)
        check('let $x := 1 return ((let $x := $s return count($x)), $x)', [len(s), 1], s=s)
        check('for $x in $s, $y in $s return ($x, $y)', [z for x in s for y in s for z in (x, y)], s=s)
        check('$s[position() = last()]', s[-1:], s=s)
        check('$s[position() lt 3]', s[:2], s=s)
        check('$s[last()]', s[-1:], s=s)
        for k in (-1, 0, 1, 2, 3, 4, 5):
            check(f'$s[{k}]', s[k - 1:k] if k >= 1 else [], s=s)
        check('$s[2.0]', s[1:2], s=s)
        check('$s[2.5]', [], s=s)
        check('$s[true()]', s, s=s)
        check('$s[false()]', [], s=s)
        for a, b in ((0, 2), (1.5, 1), (2, 10), (-1, 3), (2.5, 1.5), (1, 0)):
            lo_, hi_ = fround(a), fround(a) + fround(b)
            want = [x for p, x in enumerate(s, 1) if lo_ <= p < hi_]
            check(f'subsequence($s, {a}, {b})', want, s=s)
            check(f'$s[round({a}) le position() and position() lt round({a}) + round({b})]', want, s=s)
        for p in (0, 1, 2, 5):
            check(f'remove($s, {p})', [x for k, x in enumerate(s, 1) if k != p], s=s)
            check(f'insert-before($s, {p}, ("z", "w"))', s[:max(p - 1, 0)] + ['z', 'w'] + s[max(p - 1, 0):], s=s)
    for s in numseqs:
        seen.add(('num', len(s), tuple(type(x).__name__ for x in s)))
        check('some $x in $s satisfies $x = 2', any(x == 2 for x in s), s=s)
        check('every $x in $s satisfies $x > 0', all(x > 0 for x in s), s=s)
        check('(every $x in $s satisfies $x > 0) = not(some $x in $s satisfies not($x > 0))', True, s=s)
        check('(some $x in $s satisfies $x > 1) = not(every $x in $s satisfies not($x > 1))', True, s=s)
        check('$s[. > 1]', [x for x in s if x > 1], s=s)
        check('index-of($s, 2)', [k for k, x in enumerate(s, 1) if x == 2], s=s)
        has_f = any(isinstance(x, float) for x in s)
        has_d = any(isinstance(x, decimal.Decimal) for x in s)
        if s:
            tot = sum(Fraction(x) for x in s)

            def typed(fr, allow_int=True):
                if has_f:
                    return float(fr)
                if has_d or not allow_int or fr.denominator != 1:
                    return decimal.Decimal(fr.numerator) / decimal.Decimal(fr.denominator)
                return int(fr)
            check('sum($s)', typed(tot), s=s)
            check('avg($s)', typed(tot / len(s), allow_int=False) if (has_f or has_d or (tot / len(s)).denominator != 1)
                  else typed(tot / len(s)), s=s)
            mx = max(s, key=Fraction)
            mn = min(s, key=Fraction)
            check('max($s)', float(mx) if has_f else (decimal.Decimal(mx) if has_d else mx), s=s)
            check('min($s)', float(mn) if has_f else (decimal.Decimal(mn) if has_d else mn), s=s)
        else:
            check('sum($s)', 0, s=s)
            check('avg($s)', [], s=s)
            check('max($s)', [], s=s)
        dv = []
        for x in s:
            if not any(Fraction(x) == Fraction(y) for y in dv):
                dv.append(x)
        got = ev('distinct-values($s)', s=s)
        n += 1
        if not (got[0] == 'return' and sorted(Fraction(x) for x in (got[1] if isinstance(got[1], list) else [got[1]])) ==
                sorted(Fraction(x) for x in dv)):
            fails.append({'key': f'distinct-values {s!r}', 'what': f'distinct-values({s!r}) = {got!r}, expected values {dv!r}'})
    for a in range(-2, 4):
        for b in range(-2, 5):
            seen.add(('to', a <= b))
            check(f'{a} to {b}', list(range(a, b + 1)))
            check(f'count({a} to {b})', max(0, b - a + 1))
    for strs in ([], ['a'], ['a', 'b'], ['a', '', 'c']):
        seen.add(('join', len(strs)))
        check('string-join($s, ",")', ','.join(strs), s=strs)
        check('string-join($s, "")', ''.join(strs), s=strs)
    # multi-variable clauses: lexicographic product, outer variable slowest
    for k in (2, 3):
        vs = ['$x', '$y', '$z'][:k]
        clause = ', '.join(f'{v} in (1, 2)' for v in vs)
        seen.add(('product', k))
        check(f'for {clause} return ({", ".join(vs)})', [c for t in itertools.product((1, 2), repeat=k) for c in t])
        check(f'some {clause} satisfies {" + ".join(vs)} = {2 * k}', True)
        check(f'some {clause} satisfies {" + ".join(vs)} = {2 * k + 1}', False)
        check(f'every {clause} satisfies {" + ".join(vs)} lt {2 * k}', False)
        check(f'every {clause} satisfies {" + ".join(vs)} le {2 * k}', True)
        check(f'count(for {clause} return 1)', 2 ** k)
    # string / anyURI mixes are promoted to xs:string
    check('min(("a", "c", xs:anyURI("b")))', 'a')
    check('max(("a", "c", xs:anyURI("b")))', 'c')
    check('min((xs:anyURI("b"), "a", "c")) instance of xs:string', True)
    check('max(("a", xs:anyURI("b"), xs:anyURI("c"))) instance of xs:string', True)
    # distinct-values: numeric equality across types
    for expr, cnt in (('(1, 1.0)', 1), ('(1.0, 1)', 1), ('(1 to 5, 3.0, 4e0)', 5), ('(2e0, 2, 2.0)', 1), ('(xs:float(1), 1, 1e0)', 1),
                      ('(1, 2, 1.5, 2.0)', 3), ('("a", "a", "b")', 2), ('(xs:double("NaN"), xs:double("NaN"), 1)', 2)):
        seen.add(('distinct', expr))
        check(f'count(distinct-values({expr}))', cnt)
    check('sum((1, 2, xs:double("NaN")))', float('nan'))
    check('max((1, xs:double("NaN"), 3))', float('nan'))
    check('distinct-values((xs:double("NaN"), xs:double("NaN"), 1))', [float('nan'), 1]) if False else None
    # fn:sum on one item and on items that are not numbers (F&O 14.4.5: untypedAtomic is cast to xs:double, anything but numbers and durations is FORG0006)
    for expr, want in (("sum(xs:untypedAtomic('3')) instance of xs:double", True), ("sum(xs:untypedAtomic('3'))", 3.0), ("sum((xs:untypedAtomic('3'), 1)) instance of xs:double", True),
                       ("sum('a')", ('raise', 'FORG0006')), ("sum(xs:anyURI('a'))", ('raise', 'FORG0006')), ("sum(xs:duration('P1Y'))", ('raise', 'FORG0006')),
                       ("sum(true())", ('raise', 'FORG0006')), ("sum((true(), 1))", ('raise', 'FORG0006')), ("sum(xs:date('2020-01-01'))", ('raise', 'FORG0006')),
                       ("sum((xs:QName('a'), 1))", ('raise', 'FORG0006')), ("sum(xs:untypedAtomic('abc'))", ('raise', 'FORG0001')), ("sum((xs:untypedAtomic('abc'), 1))", ('raise', 'FORG0001')),
                       ("sum(xs:dayTimeDuration('P1D')) instance of xs:dayTimeDuration", True), ("sum((xs:dayTimeDuration('P1D'), xs:dayTimeDuration('PT12H'))) eq xs:dayTimeDuration('P1DT12H')", True),
                       ("sum((xs:dayTimeDuration('P1D'), 1))", ('raise', 'FORG0006')), ("sum(5) instance of xs:integer", True), ("sum(5.0) instance of xs:decimal", True),
                       ("sum(xs:float('1.5')) instance of xs:float", True), ("sum((), 'z')", 'z'), ("sum((), ())", []), ("sum(1, 'z')", 1)):
        seen.add(('sum types', expr[:30]))
        check(expr, want)
    # insert-before / remove with positions outside 1..n, as list model
    for s in ([], [10], [10, 20, 30]):
        for p in range(-5, 7):
            seen.add(('insert-before position', len(s), p < 1, p > len(s)))
            q = min(max(p - 1, 0), len(s))
            check(f'insert-before($s, {p}, (7, 8))', s[:q] + [7, 8] + s[q:], s=s)
            check(f'remove($s, {p})', [x for k, x in enumerate(s, 1) if k != p], s=s)
    # a numeric predicate of any numeric type selects by position (also xs:decimal values that are computed)
    for pred, want in (('2.0', [20]), ('4 div 2', [20]), ('last() div 2', [20]), ('avg((1, 3))', [20]), ('xs:decimal(3)', [30]), ('1.5', []), ('0.0', []), ('xs:float(2)', [20]),
                       ('2e0', [20]), ('xs:decimal(4)', [40]), ('5.0', []), ('-1.0', []), ('last() - 1.0', [30])):
        seen.add(('decimal predicate', pred))
        check(f'(10, 20, 30, 40)[{pred}]', want)
        check(f'$s[{pred}]', want, s=[10, 20, 30, 40])
    # quantified expressions: the test is evaluated with the focus of the quantified expression, whatever the domains are (atomic, node, several variables)
    import xml.etree.ElementTree as _ET
    from elementpath import XPathContext as _Ctx
    doc = _ET.XML('<r><a>1</a><a>2</a><a>3</a><b>2</b></r>')
    for expr, want in (('every $x in (1, 2, 3) satisfies a[. = $x]', True), ('some $x in (5, 2) satisfies a[. = $x]', True), ('every $x in (1, 4) satisfies a[. = $x]', False),
                       ('every $y in a satisfies a[. = $y]', True), ('some $x in (1, 2), $y in a satisfies name(.) = "a"', False), ('some $x in (1, 2), $y in a satisfies name(.) = "r"', True),
                       ('every $x in (1, 2), $y in a satisfies exists(a[. = $y])', True), ('every $x in (1, 2), $y in (2, 3) satisfies a[. = $x + 1][. = $y or true()]', True),
                       ('every $x in a, $y in b satisfies count(a) = 3 and count(b) = 1', True), ('some $x in a satisfies b[. = $x] and name(.) = "r"', True),
                       ('for $y in a return name(.)', ['r', 'r', 'r']), ('(every $x in a satisfies a[. = $x]) = not(some $x in a satisfies not(a[. = $x]))', True)):
        for version in ('2.0', '3.1'):
            n += 1
            seen.add(('quantifier focus', expr[:24]))
            got = run_native(lambda: PARSERS[version]().parse(expr).evaluate(_Ctx(root=doc, item=doc)))
            g = got[1] if got[0] == 'return' else got
            if g != want:
                fails.append({'key': f'quantifier focus {expr}', 'what': f'XPath {version}: `{expr}` on <r><a>1</a><a>2</a><a>3</a><b>2</b></r> with r as context item = {got!r}; '
                              f'the test is evaluated with the focus of the quantified expression: {want!r}'})
    # index-of / distinct-values use 'eq': pairs without an 'eq' (boolean/number, untypedAtomic/number) never match
    for expr, want in (("index-of((xs:untypedAtomic('1'), 1), 1)", [2]), ("index-of((1, true()), true())", [2]), ("index-of((1, true()), 1)", [1]), ("index-of((0, false(), 0.0), false())", [2]),
                       ("count(distinct-values((xs:untypedAtomic('1'), 1)))", 2), ("count(distinct-values((1, true())))", 2), ("count(distinct-values((0, false())))", 2),
                       ("count(distinct-values((true(), 1.0, 1e0)))", 2), ("count(distinct-values((1, true(), 'a', xs:date('2000-01-01'))))", 4), ("index-of(('a', xs:untypedAtomic('a'), xs:anyURI('a')), 'a')", [1, 2, 3]),
                       ("count(distinct-values(('a', xs:untypedAtomic('a'))))", 1), ("index-of((1, 1.0, 2), 1e0)", [1, 2])):
        seen.add(('eq pairs', expr[:30]))
        check(expr, want)
    check('zero-or-one((1, 2))', ('raise', 'FORG0003'))
    check('one-or-more(())', ('raise', 'FORG0004'))
    check('exactly-one(())', ('raise', 'FORG0005'))
    return {'evaluations': n, 'distinct': len(seen), 'failures': fails, 'n_failures': len(fails),
            'scope': f'all sequences of length <= {maxlen} over {{1, 2, "a", 2.0}} (basic constructs, predicates, for/!, '
                     f'subsequence equivalence) and over {{1, 2, 2.5, -1.5}} (quantifiers and duality, aggregates, index-of, '
                     'distinct-values); ranges a to b for a,b in -2..4; string-join; oracle: Python list model with exact '
                     'rational arithmetic',
            'rule': 'distinct = (construct family, length, item class tuple)'}


# ---- eq_comparable: the pairs that fn:index-of / fn:distinct-values may compare with Python equality -------------------------------------------
# For every pair of item kinds and ALL values of those kinds: the function answers False exactly for the pairs on which Python equality would conflate
# values that the 'eq' operator does not compare (xs:boolean with a number, xs:untypedAtomic - compared as a string - with a non-string value).
import itertools as _it         # noqa: E402
import elementpath.xpath2._xpath2_functions as _F2       # noqa: E402
from elementpath.datatypes import UntypedAtomic as _UA, AnyURI as _URI, DayTimeDuration as _DTD, QName as _QN       # noqa: E402

_EQ_KINDS = {
    'bool': lambda S, n, ex: S.bool(n), 'int': lambda S, n, ex: S.int(n), 'dec': lambda S, n, ex: S.dec(n), 'float': lambda S, n, ex: S.float(n, ex=ex),
    'str': lambda S, n, ex: S.str(n), 'untyped': lambda S, n, ex: VObj(_UA, {'value': S.str(n + '_s')}, name=n),
    'anyuri': lambda S, n, ex: VObj(_URI, {'value': S.str(n + '_s')}, name=n), 'duration': lambda S, n, ex: VObj(_DTD, {}, name=n), 'qname': lambda S, n, ex: VObj(_QN, {}, name=n),
}


def _eq_spec(k1, k2):
    if 'bool' in (k1, k2):
        return k1 == k2
    if 'untyped' in (k1, k2):
        return {k1, k2} <= {'untyped', 'str', 'anyuri'}
    return True


def _eq_case(k1, k2):
    def setup(S, ex):
        a, b = _EQ_KINDS[k1](S, 'a', ex), _EQ_KINDS[k2](S, 'b', ex)
        return Case([a, b], names={'a': a, 'b': b})
    return setup


if hasattr(_F2, 'eq_comparable'):
    for _k1, _k2 in _it.product(_EQ_KINDS, repeat=2):
        CONTRACTS.append(Contract(f'eq_comparable.{_k1}.{_k2}', 'C08', (lambda: _F2.eq_comparable), _eq_case(_k1, _k2),
                                  post=[('matches_the_eq_operator_table', f"returned and result == {_eq_spec(_k1, _k2)}")], native=None, expect_min_obligations=1))

BOUNDED = [Bounded('sequence_constructs_small_scope', bounded_sequences)]
NOT_DECIDED = [
    'order of double additions in sum/avg (IEEE arithmetic inside CPython)',
    'predicates, for/some/every, simple map, range, aggregates, distinct-values, string-join: bounded stand-in only '
    '(their evaluators delegate to select_with_focus / iter_product, which are outside the subset brought under contract)',
]


# ---- select_with_focus: the inner focus (position/size/item) and its restoration ----------------------
from elementpath.xpath_tokens.base import XPathToken as _XPathToken      # noqa: E402
from elementpath.xpath_tokens.axes import XPathAxis as _XPathAxis        # noqa: E402
from elementpath import XPathContext as _XPathContext                    # noqa: E402


def focus_case(reverse=None):
    def setup(S, ex):
        results = S.seq('S', K_ITEM)
        item0, size0, pos0 = S.item('item0'), S.int('size0'), S.int('pos0')
        ctx = VObj(_XPathContext, {'item': item0, 'size': size0, 'position': pos0, 'axis': VStr('entry-axis')}, name='context')
        fields = {'symbol': VStr('x'), 'parser': mk_parser('2.0')}
        if reverse is not None:
            fields['reverse_axis'] = VBool(reverse)
        tok = VObj(_XPathAxis if reverse is not None else _XPathToken, fields, name='self')

        def at_yield(ex, v, env):
            i = env.lookup('_i0') or env.lookup('_i1')
            idx = i.t
            n = results.len
            want_pos = (n - idx) if reverse else (idx + 1)
            ex.oblige('focus_at_each_yield',
                      z3.And(ctx.fields['position'].t == want_pos, ctx.fields['size'].t == n,
                             ctx.fields['item'].t == z3.Select(results.arr, idx), v.t == z3.Select(results.arr, idx),
                             z3.BoolVal(isinstance(ctx.fields['axis'], VNone))), 'V',
                      'position/size/item of the context at the i-th yield')
        hooks = {'self.select': lambda ex, node, a, kw: results, 'yield': at_yield}
        return Case([tok, ctx], hooks=hooks, names={'ctx': ctx, 'item0': item0})
    return setup


import z3  # noqa: E402,F811

for name, target, rev, loop in (('XPathToken.select_with_focus', lambda: _XPathToken.select_with_focus, None, 0),
                                ('XPathAxis.select_with_focus.forward', lambda: _XPathAxis.select_with_focus, False, 1),
                                ('XPathAxis.select_with_focus.reverse', lambda: _XPathAxis.select_with_focus, True, 0)):
    CONTRACTS.append(Contract(
        name, 'C08', target, focus_case(rev),
        pre=['len(S) < 2 ** 53'],
        post=[
            ('yields_the_selection_in_order', "returned and len(out) == len(S) and forall_range(0, len(S), lambda j: out[j] == S[j])"),
            ('focus_restored_on_exhaustion',
             "returned and ctx.item == item0 and ctx.size == size0 and ctx.position == pos0 and ctx.axis == 'entry-axis'"),
        ],
        loops={loop: LoopSpec([f"_i{loop} <= len(S)", f"len(out) == _i{loop}",
                               f"forall_range(0, _i{loop}, lambda j: out[j] == S[j])", "ctx.size == len(S)", "ctx.axis is None"] +
                              ([f"ctx.position == len(S) - _i{loop}"] if rev else []))},
        generator=K_ITEM, expect_min_obligations=3,
        notes=['A-FOCUS: the consumer of the generator does not write context.position/size between two yields',
               'abandoning the generator before exhaustion skips the restore code (stated gap)']))
