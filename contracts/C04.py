"""C04 - token trees realise the XPath grammar; source text round-trips.

Deductive part: the Pratt loop Parser.expression(rbp) returns with next_token.lbp <= rbp and calls
led only on tokens with lbp > rbp (loop exit condition, for arbitrary token streams).
Finite part (GROUND, completely enumerated): for every XPath version and every ordered pair of
operators of that version, (a) the binding-power table extracted from the live symbol table orders
the pair as the W3C EBNF precedence levels do (K(o1) >= lbp(o2) <=> o1 groups first), and (b) the
real parser's tree for `a o1 b o2 c` equals the tree of a reference precedence-climbing parser
written from the EBNF (or both reject).  Bounded part: source round-trip and comment/whitespace
insensitivity on operator chains.
"""
from __future__ import annotations

import ast
import inspect
import itertools
import re

from pyvc.values import *  # noqa
from pyvc.contract import Contract, Case
from pyvc.interp import LoopSpec
from pyvc.specprims import *  # noqa
from .common import *  # noqa
from .bounded import Bounded
from elementpath.tdop import Parser
from elementpath.exceptions import ElementPathError

# ---- W3C EBNF precedence levels (higher binds tighter); assoc: 'left' or 'none' -------------------
# XPath 1.0 REC section 3 (OrExpr .. UnionExpr, PathExpr); XPath 2.0 REC A.4; 3.0/3.1 REC A.4.
CMP2 = ['eq', 'ne', 'lt', 'le', 'gt', 'ge', '=', '!=', '<', '<=', '>', '>=', 'is', '<<', '>>']


def grammar(version):
    if version == '1.0':
        return [
            (['or'], 'left'), (['and'], 'left'), (['=', '!='], 'left'), (['<', '<=', '>', '>='], 'left'),
            (['+', '-'], 'left'), (['*', 'div', 'mod'], 'left'), ('UNARY', None), (['|'], 'left'),
            (['/', '//'], 'left'),
        ]
    g = [(['or'], 'left'), (['and'], 'left'), (CMP2, 'none')]
    if version >= '3.0':
        g.append((['||'], 'left'))
    g += [(['to'], 'none'), (['+', '-'], 'left'), (['*', 'div', 'idiv', 'mod'], 'left'),
          (['union', '|'], 'left'), (['intersect', 'except'], 'left'),
          (['instance of'], 'type'), (['treat as'], 'type'), (['castable as'], 'type'), (['cast as'], 'type')]
    g.append(('UNARY', None))
    if version >= '3.0':
        g.append((['!'], 'left'))
    g.append((['/', '//'], 'left'))
    return g


def levels(version):
    lv, assoc = {}, {}
    unary = None
    for k, (ops, a) in enumerate(grammar(version)):
        if ops == 'UNARY':
            unary = k
            continue
        for o in ops:
            lv[o] = k
            assoc[o] = a
    return lv, assoc, unary


class RefError(Exception):
    pass


def ref_tree(tokens, version):
    """handles the place of unary minus: an operand `-x` parsed at the unary level: operators that bind
    tighter than unary attach inside the minus, looser ones outside"""
    lv, assoc, unary_level = levels(version)

    def parse(tokens):
        pos = 0

        def peek():
            return tokens[pos] if pos < len(tokens) else None

        def expr(min_level):
            nonlocal pos
            t = peek()
            if t == '-':
                if min_level > unary_level:
                    raise RefError('unary minus not allowed at this level')
                pos += 1
                left = ('-', expr(unary_level + 1) if peek() != '-' else expr(unary_level))
                cur_min = min_level
            else:
                if t is None or t in lv:
                    raise RefError('operand expected')
                pos += 1
                left = t
            last_none_level = None
            after_type_level = None
            while True:
                op = peek()
                if op is None or op not in lv or lv[op] < min_level:
                    return left
                if isinstance(left, tuple) and left[0] == '-' and len(left) == 2 and lv[op] > unary_level:
                    raise RefError('internal: tighter operator after unary')
                if after_type_level is not None and lv[op] > after_type_level:
                    raise RefError('operator cannot follow a sequence type')
                a = assoc[op]
                if a == 'none' and last_none_level == lv[op]:
                    raise RefError('non-associative operator chained')
                pos += 1
                if a == 'type':
                    if peek() != 'xs:integer':
                        raise RefError('type expected')
                    pos += 1
                    if op in ('instance of', 'treat as') and peek() in ('+', '*'):
                        # XPath grammar constraint xgc:occurrence-indicators: the sign belongs to the type
                        raise RefError('occurrence indicator')
                    left = (op.split()[0], left, 'xs:integer')
                    after_type_level = lv[op]
                    last_none_level = lv[op]
                    continue
                right = expr(lv[op] + 1)
                left = (op, left, right)
                after_type_level = None
                last_none_level = lv[op] if a == 'none' else None
        tree = expr(0)
        if pos != len(tokens):
            raise RefError('trailing tokens')
        return tree
    return parse(tokens)


def real_tree(version, text):
    def shape(t):
        if len(t) == 0:
            return t.source
        if t.symbol == ':' and len(t) == 2 and len(t[0]) == 0 and len(t[1]) == 0:
            return t.source
        return (t.symbol,) + tuple(shape(c) for c in t)
    return shape(PARSERS[version]().parse(text))


def binary_ops(version):
    lv, assoc, _ = levels(version)
    return [o for o in lv]


def family(version, toks, o1, o2, lead):
    """known-finding families (see known_findings.json); anything else is reported individually"""
    lv, assoc, unary_level = levels(version)
    if version == '1.0' and lv[o1] in (2, 3) and lv[o2] in (2, 3):
        return 'XPath 1.0: chained comparison operators are rejected or grouped against the 1.0 grammar'
    if version == '1.0' and lead and '|' in (o1, o2):
        return 'XPath 1.0: unary minus binds tighter than | (the 1.0 grammar puts UnionExpr inside UnaryExpr)'
    return None


def ground_operator_pairs(tier, seed):
    fails, n, accepted_invalid = [], 0, 0
    fams = {}
    for version in ('1.0', '2.0', '3.0', '3.1'):
        ops = binary_ops(version)
        lv, assoc, unary_level = levels(version)
        for o1, o2 in itertools.product(ops, repeat=2):
            for lead in ('', '-'):
                toks = ([lead] if lead else []) + ['a', o1] + (['xs:integer'] if assoc[o1] == 'type' else ['b']) + [o2] + \
                    (['xs:integer'] if assoc[o2] == 'type' else ['c'])
                text = ' '.join(toks)
                try:
                    want = ref_tree(toks, version)
                except RefError as why:
                    # not an expression of the language; the associativity rules are part of the property: a chain of
                    # non-associative operators has to be rejected, other ill-formed inputs are C03's business
                    try:
                        got = real_tree(version, text)
                        accepted_invalid += 1
                        if 'non-associative' in str(why) and version != '1.0':
                            n += 1
                            fails.append({'key': f'a chain of non-associative operators is accepted ({o1} then {o2})', 'version': version, 'text': text,
                                          'want': 'REJECT', 'what': f'XPath {version}: `{text}` is parsed as {got!r}; the EBNF makes these operators non-associative'})
                    except Exception:
                        if 'non-associative' in str(why) and version != '1.0':
                            n += 1
                    continue
                n += 1
                try:
                    got = real_tree(version, text)
                except ElementPathError as e:
                    got = ('ERROR', str(e)[:60])
                except Exception as e:
                    got = ('CRASH', repr(e)[:80])
                if want != got:
                    fam = family(version, toks, o1, o2, lead)
                    rec = {'key': fam or f'{version}: {text}',
                           'what': f'XPath {version}: `{text}` parsed as {got!r}; the EBNF gives {want!r}',
                           'version': version, 'text': text, 'want': repr(want)}
                    if fam:
                        if fam not in fams:
                            fams[fam] = rec
                            rec['count'] = 0
                        fams[fam]['count'] += 1
                    else:
                        fails.append(rec)
    fails = list(fams.values()) + fails
    return {'obligations': n, 'discharged': n - sum(f.get('count', 1) for f in fails), 'evaluations': n, 'distinct': n,
            'exhaustive': True, 'accepted_although_not_in_the_grammar': accepted_invalid,
            'scope': 'every ordered pair of binary operators of each of the 4 XPath versions, with and without a leading '
                     'unary minus, that the W3C EBNF accepts: tree of the real parser == tree of a reference '
                     'precedence-climbing parser built from the EBNF levels', 'failures': fails[:30]}


def replay_pair(f):
    try:
        got = real_tree(f['version'], f['text'])
    except Exception as e:
        got = ('ERROR', str(e)[:60])
    if f['want'] == 'REJECT':
        return isinstance(got, tuple) and got[:1] == ('ERROR',)
    return repr(got) == f['want']


GROUND = [Bounded('operator_pair_trees_vs_EBNF', ground_operator_pairs, replay_pair)]
CONTRACTS = []


# ---- deductive: the Pratt loop exit condition --------------------------------------------------------

class _Tok:
    """stand-in class for tokens produced by the tokenizer (only lbp and nud/led matter here)"""


def expression_case(S, ex):
    rbp = S.int('rbp')
    parser = VObj(Parser, {}, name='self')
    calls = {'led_lbp_gt_rbp': z3.BoolVal(True), 'n': 0}

    def advance(ex, node, a, kw):
        # consumes one token: token := next_token, next_token := an arbitrary new token
        nt = parser.fields.get('next_token')
        calls['n'] += 1
        lbp = VInt(ex.fresh('lbp', z3.IntSort()))
        ex.assume(lbp.t >= 0)
        tok = nt if nt is not None else VObj(_Tok, {'lbp': VInt(ex.fresh('lbp0', z3.IntSort()))}, name='tok0')
        parser.fields['token'] = tok
        parser.fields['next_token'] = VObj(_Tok, {'lbp': lbp}, name=f'tok{calls["n"]}')
        return NONE

    def nud(ex, node, a, kw):
        return VObj(_Tok, {'lbp': VInt(0)}, name='nud-result')

    def led(ex, node, a, kw):
        # ghost: every led call happens on a token whose lbp exceeds rbp
        ex.oblige('led_only_on_tokens_binding_tighter_than_rbp', parser.fields['token'].fields['lbp'].t > rbp.t, 'V',
                  'self.token.lbp > rbp at every led call')
        return VObj(_Tok, {'lbp': VInt(0)}, name='led-result')
    hooks = {'self.advance': advance, 'self.token.nud': nud, 'self.token.led': led}
    expression_case.parser = parser
    return Case([parser, rbp], hooks=hooks, names={'parser': parser})


def havoc_parser_tokens(ex, env):
    """at the loop head the token stream position is arbitrary: token and next_token are any tokens"""
    parser = expression_case.parser
    for f in ('token', 'next_token'):
        lbp = VInt(ex.fresh(f + '_lbp', z3.IntSort()))
        ex.path.pc.append(lbp.t >= 0)
        parser.fields[f] = VObj(_Tok, {'lbp': lbp}, name=f + '!havoc')


import z3  # noqa: E402

CONTRACTS.append(Contract(
    'Parser.expression', 'C04', lambda: Parser.expression, expression_case,
    pre=["rbp >= 0"],
    post=[('returns_when_next_token_does_not_bind_tighter', "returned and parser.next_token.lbp <= rbp")],
    loops={0: LoopSpec(["True"], havoc_hook=havoc_parser_tokens)},
    notes=['A-PRATT: from this exit condition and the canonical led shape `self[:] = left, expression(K)` follows the grouping '
           'rule (a o1 b) o2 c  <=>  K(o1) >= lbp(o2) (meta-theorem, trusted); the ground check compares the resulting trees',
           'A-TERM-PARSE: termination of the loop is not proved']))


# ---- finite: binding-power table against the EBNF levels --------------------------------------------

def extract_bp(version, symbol):
    """(lbp, K) of an operator token class: K is the constant passed to parser.expression() in its led"""
    cls = PARSERS[version].symbol_table[symbol]
    led = None
    for k in cls.__mro__:
        if 'led' in k.__dict__:
            led = k.__dict__['led']
            break
    K = None
    if led is not None:
        fn = getattr(led, '__func__', led)
        if fn.__closure__ and 'bp' in fn.__code__.co_freevars:
            bp = fn.__closure__[fn.__code__.co_freevars.index('bp')].cell_contents
            K = bp - 1 if 'infixr' in fn.__qualname__ else bp
        else:
            try:
                src = inspect.getsource(fn)
                import textwrap
                for n in ast.walk(ast.parse(textwrap.dedent(src))):
                    if isinstance(n, ast.Call) and isinstance(n.func, ast.Attribute) and n.func.attr == 'expression':
                        arg = (n.args[0] if n.args else next((kw.value for kw in n.keywords if kw.arg == 'rbp'), None))
                        if isinstance(arg, ast.Constant):
                            K = arg.value
            except (OSError, TypeError):
                pass
    return cls.lbp, K


TOKEN_OF = {'instance of': 'instance', 'treat as': 'treat', 'castable as': 'castable', 'cast as': 'cast'}


def ground_bp_table(tier, seed):
    """K(o1) >= lbp(o2)  <=>  the EBNF groups (a o1 b) o2 c, for every pair of left-associative / different-level
    operators of each version (ground formulas over the extracted table, discharged with z3)."""
    fails, n = [], 0
    s = z3.Solver()
    for version in ('1.0', '2.0', '3.0', '3.1'):
        lv, assoc, unary_level = levels(version)
        table = {}
        for o in lv:
            lbp, K = extract_bp(version, TOKEN_OF.get(o, o))
            table[o] = (lbp, K)
        for o1, o2 in itertools.product(lv, repeat=2):
            if assoc[o1] == 'type' or assoc[o2] == 'type':
                continue            # their right operand is a type, not an expression: no K
            if lv[o1] == lv[o2] and assoc[o1] == 'none':
                continue            # rejected by a guard, see the tree check
            if version == '1.0' and lv[o1] in (2, 3) and lv[o2] in (2, 3):
                continue            # known finding (XPath 1.0 comparison chains)
            n += 1
            (l1, k1), (l2, k2) = table[o1], table[o2]
            if k1 is None:
                fails.append({'key': f'{version} K({o1})', 'what': f'XPath {version}: cannot extract the right binding power of {o1!r}'})
                continue
            expect_left = lv[o1] >= lv[o2]
            s.push()
            s.add(z3.Not((z3.IntVal(k1) >= z3.IntVal(l2)) == z3.BoolVal(expect_left)))
            if s.check() != z3.unsat:
                fails.append({'key': f'{version} {o1} {o2}', 'what': f'XPath {version}: K({o1})={k1}, lbp({o2})={l2} but the EBNF levels '
                                                                 f'{lv[o1]} vs {lv[o2]} require {"left" if expect_left else "right"} grouping'})
            s.pop()
    return {'obligations': n, 'discharged': n - len(fails), 'evaluations': n, 'distinct': n, 'exhaustive': True,
            'scope': 'binding powers (lbp, K) extracted from the live symbol tables and led closures/ASTs of the 4 parser '
                     'classes x all ordered operator pairs', 'failures': fails[:30]}


GROUND.append(Bounded('binding_power_table_vs_EBNF', ground_bp_table))


# ---- bounded: source round-trip, whitespace and comment insensitivity ---------------------------------

V2, V3, V31 = ('2.0', '3.0', '3.1'), ('3.0', '3.1'), ('3.1',)
XSD_DEFAULT = {'namespaces': {'': 'http://www.w3.org/2001/XMLSchema'}}
VALUE_ROUNDTRIP = [
    (('1.0',) + V2, "'it''s \"x\"'"), (('1.0',) + V2, "\"a'b\""), (('1.0',) + V2, "'a\nb'"), (('1.0',) + V2, "concat('x', \"'\", '\"')"), (('1.0',) + V2, "'back\\slash'"),
    (V3, "(1, 2) instance of Q{http://www.w3.org/2001/XMLSchema}integer+"), (V3, "(abs#1, abs#1) instance of function(*)+"), (V3, "(abs#1) instance of function(xs:integer) as xs:integer"),
    (V31, "[/r/@k] instance of array(attribute())"), (V31, "[/r/@k] instance of array(attribute(k))"), (V2, "/r/@k instance of attribute(k)"), (V2, "/r/@k instance of attribute()+"),
    (V2, "/r/attribute(k)"), (V2, "/r/attribute::k"), (V2, "1e3 instance of xs:double"), (V2, "5. instance of xs:decimal"), (V2, "0.0000001 instance of xs:decimal"), (V2, "1.50 instance of xs:decimal"),
    (V31, "let $k := 'a' return map{$k : 1}?a"), (V31, "map{'a': 1}?a"), (V31, "map{1: 'x', 2: 'y'}(2)"), (V2, "(1, 2) treat as item()+"), (V31, "() instance of array(xs:integer)?"),
    (V2, "/r instance of element(r)+"), (V3, "function($x as xs:integer+) as xs:string* { 'a' }(1)"), (V2, "-1 cast as xs:string"), (V31, "(map{}, map{}) instance of map(*)*"),
    # unprefixed type names (the XSD namespace as default element namespace) keep their occurrence indicator
    (V2, "(1, 2) instance of integer+", XSD_DEFAULT), (V2, "(1, 2) treat as integer+", XSD_DEFAULT), (V2, "() cast as integer?", XSD_DEFAULT),
    (V2, "() castable as integer?", XSD_DEFAULT), (V2, "(1, 2) instance of integer*", XSD_DEFAULT), (V2, "1 instance of integer", XSD_DEFAULT),
    (V3, "concat(?, 'a')('x')"), (V3, "let $f := concat('a', ?, ?) return $f('b', 'c')"),
    (V2, "$a instance of xs:integer"), (V2, "1 instance of xs:integer?"), (V2, "2 cast as xs:double?"), (V2, "'1' castable as xs:integer?"), (V2, "(1, 2) instance of xs:integer+"),
    (V2, "/r/a instance of element(a, xs:untyped)"), (V2, "//text() instance of text()+"), (V2, "/ instance of document-node(element(r))") , (V3, "(1, 'a') ! (. instance of xs:string)"),
    (V3, "let $f := function($a, $b) { $a || $b } return $f('x', 'y')"), (V31, "[1, 2]?*"), (V31, "(1, 2) => sum()"), (V2, "if (1) then 'a' else \"b\""), (V2, "for $x in (1, 2) return $x * 2"),
    (V31, "(1, 2) => fn:sum()"), (V31, "[3, 1] => array:sort() => array:head()"), (V31, "(1, 2) => sum()"), (V3, "abs#1(-1)"), (V3, "fn:abs#1(-1)"),
    (V2, "some $x in (1, 2) satisfies $x = 2"), (V2, "(1 to 3)[. > 1]"), (V2, "/r/a/text()"), (V2, "/r/@k = 'v'"), (V2, "xs:date('2000-01-01') + xs:dayTimeDuration('P1D')"),
]


def bounded_roundtrip(tier, seed):
    fails, n, seen = [], 0, set()
    for version in ('1.0', '2.0', '3.0', '3.1'):
        lv, assoc, unary_level = levels(version)
        ops = [o for o in lv]
        chains = []
        for o1, o2 in itertools.product(ops, repeat=2):
            for form in ('{a} {o1} {b} {o2} {c}', '({a} {o1} {b}) {o2} {c}', '{a} {o1} ({b} {o2} {c})', '- {a} {o1} {b} {o2} {c}'):
                b = 'xs:integer' if assoc[o1] == 'type' else '$b'
                c = 'xs:integer' if assoc[o2] == 'type' else '3'
                if ('({b}' in form and assoc[o1] == 'type') or (form.startswith('({a}') and False):
                    continue
                chains.append(form.format(a='$a' if version != '1.0' or True else 'a', b=b, c=c, o1=o1, o2=o2))
        for text in chains:
            try:
                t1 = PARSERS[version]().parse(text)
            except ElementPathError:
                continue
            n += 1
            seen.add((version, text.count('(')))
            try:
                t2 = PARSERS[version]().parse(t1.source)
                same = real_tree(version, text) == real_tree(version, t1.source)
            except Exception as e:
                same = False
            if not same and len(fails) < 30:
                fails.append({'key': f'source {version}: {text}', 'what': f'XPath {version}: source of `{text}` is `{t1.source}`, '
                                                                        'which does not re-parse to the same tree'})
            # whitespace / comments between tokens
            variants = [text.replace(' ', '  '), text.replace(' ', '\n')]
            if version != '1.0':
                variants.append(text.replace(' ', ' (: c (: nested :) :) '))
            for v in variants:
                n += 1
                try:
                    ok = real_tree(version, v) == real_tree(version, text)
                except Exception:
                    ok = False
                if not ok and len(fails) < 30:
                    fails.append({'key': f'ws {version}: {v}', 'what': f'XPath {version}: `{v}` does not parse like `{text}`'})
    # value-level round trip: the source text evaluates to the same value, of the same type, as the original
    import xml.etree.ElementTree as ET
    from elementpath import XPathContext
    root = ET.XML('<r k="v"><a>1</a></r>')
    for versions, text, *opt in VALUE_ROUNDTRIP:
        kw = opt[0] if opt else {}
        for version in versions:
            n += 1
            seen.add((version, 'value', text[:12]))

            def run(src):
                try:
                    tok = PARSERS[version](**kw).parse(src)
                    before = tok.source
                    v = tok.evaluate(XPathContext(root, variables={'a': 1}))
                    if tok.source != before and src == text:
                        fails.append({'key': 'the source text of a parsed expression changes when the expression is evaluated', 'expr': text,
                                      'what': f'XPath {version}: `{text}` has the source `{before}` after parsing and `{tok.source}` after one evaluation'})
                        tok = PARSERS[version](**kw).parse(src)
                    return tok, ('value', [(type(x).__name__, str(getattr(x, 'name', x))) for x in (v if isinstance(v, list) else [v])])
                except ElementPathError as e:
                    return None, ('error', e.code)
                except Exception as e:      # noqa
                    return None, ('crash', type(e).__name__)
            t1, v1 = run(text)
            if t1 is None:
                continue        # not an expression of this version / this tree: nothing to round-trip
            t2, v2 = run(t1.source)
            if v2 != v1:
                kind = ('a numeric literal changes its type (1e3 becomes 1000.0, 5. becomes 5, 0.0000001 becomes 1E-7)' if re.search(r'\d(e\d|\.\s|\.0{5})', text + ' ')
                        else 'a map constructor with a variable or name key' if 'map{$' in text or 'map{a' in text else text)
                fails.append({'key': f'value of the source text differs: {kind}'[:160], 'what': f'XPath {version}: `{text}` evaluates to {v1}, its source '
                              f'`{t1.source}` to {v2}', 'expr': text})
    return {'evaluations': n, 'distinct': len(seen), 'failures': fails, 'n_failures': len(fails),
            'scope': f'{len(VALUE_ROUNDTRIP)} expressions with literals, sequence types and constructors evaluated before and after the source round trip (value and type); '
                     'all two-operator chains (4 parenthesisations incl. a leading unary minus) per version: '
                     'parse(parse(s).source) == parse(s); doubled blanks / newlines / nested (: :) comments between tokens',
            'rule': 'distinct = (version, number of parentheses); every chain counted in evaluations'}


# ---- finite list: grouping probes decided by value (unary vs arrow/cast/union/path; keyword-like names; deep comments; sequence types) -----
PROBES = [
    # (versions, expression, expected value as Python repr or 'ERROR') - expected values follow from the EBNF grouping
    (('3.1',), '-5 => abs()', '5'), (('3.1',), '- 2 => abs() => string()', "'2'"), (('3.1',), '-1 => string() => string-length()', '2'),
    (('3.1',), '2 + -3 => abs()', '5'), (('3.1',), "-1 cast as xs:string => string-length()", '2'),
    (('2.0', '3.0', '3.1'), '-1 cast as xs:string', "'-1'"), (('2.0', '3.0', '3.1'), '- 1 instance of xs:integer', 'True'),
    (('2.0', '3.0', '3.1'), '2 * -3', '-6'), (('1.0', '2.0', '3.0', '3.1'), '- - 2', '2'), (('1.0', '2.0', '3.0', '3.1'), '1 - - 2', '3'),
    (('2.0', '3.0', '3.1'), '-(1, 2)[2]', '-2'), (('3.0', '3.1'), "-2 ! (. + 1)", '-3'), (('2.0', '3.0', '3.1'), '1 to 2 + 1', '[1, 2, 3]'),
    (('2.0', '3.0', '3.1'), '2 idiv 2 * 3', '3'), (('3.0', '3.1'), "'a' || 'b' = 'ab'", 'True'), (('3.0', '3.1'), "1 + 1 || 2", "'22'"),
    (('2.0', '3.0', '3.1'), '1 (: a (: b (: c (: d :) c :) b :) a :) + 2', '3'), (('2.0', '3.0', '3.1'), '(: x :) 1 (: (: :) (: (: :) :) :)', '1'),
    (('2.0', '3.0', '3.1'), "'(: not a comment :)'", "'(: not a comment :)'"), (('2.0', '3.0', '3.1'), '1 (: unterminated', 'ERROR'),
    (('2.0', '3.0', '3.1'), '(1, 2) instance of item()+', 'True'), (('2.0', '3.0', '3.1'), '() instance of item()+', 'False'),
    (('2.0', '3.0', '3.1'), '() instance of node()?', 'True'), (('2.0', '3.0', '3.1'), '(1, 2) instance of xs:integer*', 'True'),
    (('3.0', '3.1'), '(abs#1) instance of function(*)+', 'True'), (('3.1',), '[1] instance of array(*)?', 'True'),
    # string literals: only the delimiter is escaped by doubling; comments between a function name and its parenthesis may contain anything
    (('1.0', '2.0', '3.0', '3.1'), "string-length(\"it''s\")", '5'), (('1.0', '2.0', '3.0', '3.1'), "string-length('say \"\"hi\"\"')", '10'),
    (('2.0', '3.0', '3.1'), "string-length('it''s')", '4'), (('2.0', '3.0', '3.1'), 'string-length("a""b")', '3'),
    (('2.0', '3.0', '3.1'), 'count (: a:b :) ((1, 2))', '2'), (('2.0', '3.0', '3.1'), 'count(: x::y :)((1, 2, 3))', '3'), (('2.0', '3.0', '3.1'), "concat (: p:q, 'z' :) ('a', 'b')", "'ab'"),
    (('2.0', '3.0', '3.1'), 'string-length (: one :) (: two :) ("ab")', '2'),
    (('2.0', '3.0', '3.1'), 'count (: a\nb :) ((1, 2))', '2'), (('2.0', '3.0', '3.1'), "string (: x \n y :) (1)", "'1'"), (('2.0', '3.0', '3.1'), 'xs:int (: a\n :) (1)', '1'),
    (('3.1',), "map (: a\nb :) {1: 2}(1)", '2'), (('3.1',), 'array (: a\nb :) {1, 2}(2)', '2'), (('2.0', '3.0', '3.1'), 'count(/r/attribute (: c\n :) (*))', '0'),
    (('2.0', '3.0', '3.1'), 'attribute (: c :) = 1', 'False'), (('2.0', '3.0', '3.1'), 'attribute = 1', 'False'), (('2.0', '3.0', '3.1'), 'count(attribute (: c :) :: attribute)', '0'),
    (('2.0', '3.0', '3.1'), 'element (: c :) = 1', 'False'), (('2.0', '3.0', '3.1'), 'count(/ (: c :) r)', '1'),
    # a comment does not change the role of the token that follows it (placeholder, unary lookup, occurrence indicator)
    (('3.0', '3.1'), "concat((: c :) ?, 'a')('x')", "'xa'"), (('3.0', '3.1'), "concat(?, (: c :) ?)('a', 'b')", "'ab'"), (('3.0', '3.1'), "concat(?, (: c :) (: d :) ?)('a', 'b')", "'ab'"),
    (('3.0', '3.1'), "concat( (: c (: n :) :) ?, 'a')('x')", "'xa'"), (('3.1',), "map{'a': 1} (: c :) ? (: d :) a", '[1]'), (('3.1',), '[1, 2] (: c :) ?2', '[2]'),
    (('2.0', '3.0', '3.1'), '1 instance of xs:integer (: c :) ?', 'True'), (('2.0', '3.0', '3.1'), '(1, 2) instance of xs:integer (: c :) +', 'True'),
    # XPath 1.0: the union binds tighter than the unary minus (value on <r/>: number(()) is NaN, so the sign of a parse is not visible; trees are compared in operator_pair_trees_vs_EBNF)
    # arrow operator with function names shared by the fn: and array: namespaces
    (('3.1',), '(3, 1, 2) => sort() => head()', '1'), (('3.1',), '(3, 1, 2) => reverse()', '[2, 1, 3]'), (('3.1',), '(3, 1, 2) => tail() => count()', '2'),
    (('3.1',), '(1, -2) => for-each(abs#1) => sum()', '3'), (('3.1',), '(3, 1) => sort() => head()', '1'),
]
NAME_PROBES = ['div.b', 'mod.c', 'to.y', 'for.v', 'and.x', 'or.y', 'if.then', 'union.a', 'eq.b', 'is.c', 'div-b', 'mod_c', 'then', 'else.x', 'return.x', 'instance.of',
               'cast.as', 'idiv.z', 'except.w', 'text.node', 'node.x', 'comment.y', 'element.z', 'item.q']


def ground_probes(tier, seed):
    import xml.etree.ElementTree as ET
    from elementpath import XPathContext
    fails, n = [], 0
    for versions, expr, want in PROBES:
        for v in versions:
            n += 1
            try:
                tok = PARSERS[v]().parse(expr)
                src = tok.source            # before any evaluation (what an evaluation does to the source text is judged in source_roundtrip_and_whitespace)
                got = repr(tok.evaluate(XPathContext(root=ET.XML('<r/>'))))
                try:
                    again = repr(PARSERS[v]().parse(src).evaluate(XPathContext(root=ET.XML('<r/>'))))
                except ElementPathError as e:
                    again = f'ERROR {e.code}'
            except ElementPathError:
                got, again, src = 'ERROR', 'ERROR', None
            if got != want:
                fails.append({'key': f'grouping probe: {expr}', 'version': v, 'expr': expr, 'want': want,
                              'what': f'XPath {v}: `{expr}` evaluates to {got}; the EBNF grouping gives {want}'})
            elif again != got:
                fails.append({'key': f'source round trip: {expr}', 'version': v, 'expr': expr, 'want': want,
                              'what': f'XPath {v}: source of `{expr}` is `{src}`, which evaluates to {again} instead of {got}'})
    for name in NAME_PROBES:
        doc = ET.XML(f'<r><{name} {name}="1">t</{name}></r>')
        for v in ('1.0', '2.0', '3.0', '3.1'):
            for expr, want in ((f'count(/r/{name})', 1), (f'count(//{name})', 1), (f'count(/r/{name}/@{name})', 1), (f'count(/r/*[self::{name}])', 1),
                               (f'count(/r/child::{name})', 1)):
                n += 1
                try:
                    got = PARSERS[v]().parse(expr).evaluate(XPathContext(root=doc))
                except ElementPathError as e:
                    got = f'ERROR {e.code}'
                if got != want:
                    fails.append({'key': f'a name starting with a keyword is not read as a name ({name.split(".")[0]}.)', 'version': v, 'expr': expr, 'want': repr(want),
                                  'what': f'XPath {v}: `{expr}` gives {got!r}; `{name}` is an NCName and selects the element'})
    # one parser instance across parses: after an expression that fails to parse, later expressions are parsed like by a fresh instance
    FAILING = ['1 => nope:abs()', "'a' => xs:exp()", '1 => (', '1 +', 'abs(', '(1, 2', 'for $x in', 'a[', 'concat(1, ', 'map{1:', '1 instance of', 'Q{u', "'unterminated",
               '1 (: open comment', 'function($a', 'a::b::c', '$', '1 treat as', 'if (1) then', 'let $x :=', '[1, 2', 'a =>', '?', '1 cast as xs:nope']
    AFTER = ['abs(-1)', "concat('a', 'b')", 'position()', 'count((1, 2)) + 1', '(1, 2) => sum()', "xs:int('7')", "string-join(('a', 'b'), '-')", 'a/b[1]', '1 to 3']
    for v in ('1.0', '2.0', '3.0', '3.1'):
        shared = PARSERS[v]()
        for bad_expr in FAILING:
            try:
                shared.parse(bad_expr)
                continue            # valid in this version: not a failing parse
            except ElementPathError:
                pass
            for expr in AFTER:
                n += 1
                def tree(p):
                    try:
                        return p.parse(expr).tree
                    except ElementPathError as e:
                        return f'ERROR {e.code}'
                    except Exception as e:      # noqa - a non-XPath error is also a difference from the fresh instance (C03 judges the exception type)
                        return f'EXCEPTION {type(e).__name__}'
                got, want = tree(shared), tree(PARSERS[v]())
                if got != want:
                    fails.append({'key': 'after a failing parse the same parser instance parses a later expression differently', 'version': v, 'expr': expr,
                                  'want': want, 'what': f'XPath {v}: after the failing parse of `{bad_expr}` the same instance parses `{expr}` as {got}; a fresh instance '
                                  f'gives {want}'})
    uniq = {}
    for f in fails:
        uniq.setdefault(f['key'], f)
    return {'obligations': n, 'discharged': n - len(fails), 'evaluations': n, 'distinct': n, 'exhaustive': True, 'count_each': True,
            'scope': f'{len(PROBES)} grouping probes whose value is fixed by the EBNF (unary against arrow / cast / union / path / simple map, range and concat levels, '
            f'comments nested up to four levels, sequence types with occurrence indicators; each also through its `source`) and {len(NAME_PROBES)} names that start '
            'with a keyword, as element and attribute name tests, in every version; 24 failing parses x 9 later expressions on one parser instance per version against a fresh instance', 'failures': list(uniq.values())}


def replay_probe(f):
    import xml.etree.ElementTree as ET
    from elementpath import XPathContext
    r = ground_probes('quick', 0)
    return all(x['key'] != f['key'] for x in r['failures'])


GROUND.append(Bounded('grouping_probes_keyword_names_comments', ground_probes, replay_probe))


def ground_hash_seed(tier, seed):
    """Tokenisation and parse results do not depend on the interpreter's hash seed: the same expressions in fresh interpreters with different seeds."""
    import subprocess
    import sys
    exprs = ["1 + 2 * 3", "a/b[1] | c", "for $x in (1, 2) return $x", "1 eq 2 or 3 lt 4", "map{'a': 1}?a", "abs#1(-1)", "'a' || 'b'", "xs:integer('1') instance of xs:int",
             "Q{u}a:b", "fn:string-length('x')", "math:pi()", "array:size([1])", "$v => string()", "child::div/div", "-1 div 2 mod 3", "//*[@a and @b]", "a idiv b union c", "a<=b", "a<<b", "a!=b", "a!b", "a||b", "a|b", "a::b", "$a:=1", "a/..//.", "1=>f()", "a>=b>>c",
             "x:*", "*:x", "Q{u}*", "1e3", "1.5", ".5", "a--1", "a - -1", "div div div", "map{1:2}", "a?1", "a ? *", "(:c:)1", "fn:abs#1", "xs:int?", "item()*"]
    code = ("import sys, json; sys.path.insert(0, '/repo'); from elementpath import XPath2Parser; from elementpath.xpath30 import XPath30Parser; "
            "from elementpath.xpath31 import XPath31Parser; from elementpath import XPath1Parser; out = {}\n"
            "for P in (XPath1Parser, XPath2Parser, XPath30Parser, XPath31Parser):\n"
            "    p = P(namespaces={'a': 'urn:a'})\n"
            "    for e in json.loads(sys.argv[1]):\n"
            "        try: out[P.__name__ + ' ' + e] = p.parse(e).tree\n"
            "        except Exception as x: out[P.__name__ + ' ' + e] = 'ERR ' + type(x).__name__\n"
            "    for e in json.loads(sys.argv[1]): out[P.__name__ + ' tokens ' + e] = [''.join(m) for m in p.tokenizer.findall(e)]\n"
            "print(json.dumps(out, sort_keys=True))")
    import json as _json
    import os
    results = []
    for hs in ('0', '1', '7', '12345', '4242'):
        env = dict(os.environ, PYTHONHASHSEED=hs)
        r = subprocess.run([sys.executable, '-c', code, _json.dumps(exprs)], capture_output=True, text=True, env=env, timeout=120)
        results.append((hs, r.stdout.strip() or r.stderr[-300:]))
    fails, n = [], 0
    base = _json.loads(results[0][1]) if results[0][1].startswith('{') else {}
    for hs, out in results[1:]:
        cur = _json.loads(out) if out.startswith('{') else {'crash': out}
        for k in sorted(set(base) | set(cur)):
            n += 1
            if base.get(k) != cur.get(k):
                what = 'token sequence' if ' tokens ' in k else 'parse tree'
                fails.append({'key': f'the {what} depends on the hash seed', 'case': k, 'seed': hs,
                              'what': f'{k}: PYTHONHASHSEED=0 gives {str(base.get(k))[:80]!r}, PYTHONHASHSEED={hs} gives {str(cur.get(k))[:80]!r}'})
    uniq = {}
    for f in fails:
        uniq.setdefault(f['key'], f)
    return {'obligations': max(n, 1), 'discharged': max(n, 1) - len(fails), 'evaluations': n, 'distinct': n, 'exhaustive': True, 'count_each': True,
            'scope': f'{len(exprs)} expressions x 4 parsers in 5 fresh interpreters with PYTHONHASHSEED in (0, 1, 7, 12345, 4242): identical parse trees and token sequences (the text of the tokenizer pattern may differ in the order of its alternatives)',
            'failures': list(uniq.values())}


GROUND.append(Bounded('hash_seed_independence', ground_hash_seed, lambda f: all(x['key'] != f['key'] for x in ground_hash_seed('quick', 0)['failures'])))

BOUNDED = [Bounded('source_roundtrip_and_whitespace', bounded_roundtrip)]
NOT_DECIDED = [
    'tokenisation independent of PYTHONHASHSEED (needs an overlap lemma over look-around regexes; not attempted)',
    '`source` round-trip and precedence for every expression: the finite pair sets are exhaustive for two operators; longer '
    'chains follow by the Pratt grouping argument (A-PRATT), not by enumeration',
]
