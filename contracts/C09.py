"""C09 - string functions agree with their F&O definitions on all Unicode strings.

Postconditions are the F&O 3.1 section 5.4 / 5.5 definitions:
  fn:substring($s, $start[, $len]) = the characters at positions p (1-based) with
      fn:round($start) <= p [< fn:round($start) + fn:round($len)], fn:round = half toward +INF
  fn:substring-before/after, fn:contains, fn:starts-with, fn:ends-with under the Unicode
  codepoint collation (minimal match = first occurrence), and the identity
      contains(s,t) => concat(substring-before(s,t), t, substring-after(s,t)) = s
Strings are z3 strings (A-STR: alphabet up to 0x2FFFF); len() is the code point count.
"""
from __future__ import annotations

import decimal
import math

from pyvc.values import *  # noqa
from pyvc.contract import Contract, Case
from pyvc.specprims import *  # noqa
from .common import *  # noqa
from .bounded import Bounded
from elementpath.collations import CollationManager, UNICODE_CODEPOINT_COLLATION
import elementpath.xpath1._xpath1_functions as F1
import elementpath.xpath2._xpath2_functions as F2


def fn_round(x):
    """F&O 4.4.4: nearest integer, ties toward positive infinity."""
    return floor_(exact_div(2 * exact(x) + 1, 2))


def substring3_spec(s, start, length):
    """finite start and length"""
    rs = fn_round(start)
    lo = max(rs, 1)
    hi = min(rs + fn_round(length), len(s) + 1)
    return s[lo - 1:hi - 1] if hi > lo else ''


def substring2_spec(s, start):
    rs = fn_round(start)
    lo = max(rs, 1)
    return s[lo - 1:] if lo <= len(s) else ''


SPECS = [fn_round, substring3_spec, substring2_spec]
NUM = {'int': lambda S, n, ex: S.int(n), 'dec': lambda S, n, ex: S.dec(n), 'float': lambda S, n, ex: S.float(n, ex=ex)}


def args_case(version, symbol, maker, nitems, fields=None):
    """maker(S, ex) -> list of argument values by index (the havoc point self.get_argument)."""
    def setup(S, ex):
        vals = maker(S, ex)
        f = {'context': NONE}
        f.update(fields or {})
        tok = mk_token(version, symbol, parser=mk_parser(version, False, **(
            {'default_collation': VStr(UNICODE_CODEPOINT_COLLATION)} if version != '1.0' else {})),
            nitems=nitems, **f)
        ctx = mk_context()

        def get_argument(ex, node, a, kw):
            idx = kw.get('index', a[1] if len(a) > 1 else VInt(0)).conc
            return vals[idx]
        hooks = std_hooks(tok, {'self.get_argument': get_argument})
        if version != '1.0':
            def mk_manager(ex, node, a, kw):
                # CollationManager(collation, token) for the Unicode codepoint collation: the
                # fields its methods read, as __init__ sets them for that URI
                # (checked natively by GROUND collation_manager_fields)
                if a[0].conc != UNICODE_CODEPOINT_COLLATION:
                    raise OutOfSubset('collation other than the codepoint collation')
                from elementpath import collations
                return VObj(CollationManager, {
                    'lc_collate': NONE, 'strxfrm': VNative(collations.unicode_codepoint_strxfrm),
                    'strcoll': VNative(collations.unicode_codepoint_strcoll),
                    '_current_lc_collate': NONE, 'fallback': VBool(False)}, name='manager')
            hooks['CollationManager'] = mk_manager
        return Case([tok, ctx], hooks=hooks)
    return setup


INLINE = {'CollationManager.__enter__', 'CollationManager.__exit__', 'CollationManager.contains',
          'CollationManager.find', 'CollationManager.startswith', 'CollationManager.endswith',
          'unicode_codepoint_strxfrm', 'evaluate__substring_before_or_after_functions',
          'evaluate__substring_functions', 'round_half_up'}

STRS = ['', 'a', 'ab', '12345', 'abcabc', 'motor car', '\U0001F600x\U0001F600', 'ée', ' a  b ', 'aaa']


def str_num_samples(kinds):
    grid = {'int': [0, 1, 2, 3, -1, 5, 6, 10 ** 6, -10 ** 6],
            'dec': [decimal.Decimal(x) for x in ('0.5', '1.5', '2.5', '-0.5', '-1.5', '3.49', '0', '1', '2.25', '100')],
            'float': [0.5, 1.5, 2.5, -0.5, -1.5, 3.5, 0.0, -0.0, 1.0, 2.0, 1e300, -1e300, float('inf'), float('-inf'),
                      float('nan'), 4.5]}

    def gen(rng):
        names = ['start', 'length'][:len(kinds)]
        import itertools
        for s in STRS:
            for combo in itertools.product(*[grid[k] for k in kinds]):
                d = {'s': s}
                d.update(dict(zip(names, combo)))
                yield d
    return gen


def sub_native(version, nargs):
    def native(i):
        if nargs == 2:
            return eval_native(version, 'substring($s, $a)', s=i['s'], a=i['start'])
        return eval_native(version, 'substring($s, $a, $b)', s=i['s'], a=i['start'], b=i['length'])
    return native


CONTRACTS = []
for k1 in ('int', 'dec', 'float'):
    CONTRACTS.append(Contract(
        f'substring2.{k1}', 'C09', token_method('2.0', 'substring', 'evaluate'),
        args_case('2.0', 'substring', lambda S, ex, k1=k1: [S.str('s'), NUM[k1](S, 'start', ex)], 2),
        post=[
            ('positions_from_round_half_up',
             "not is_finite(start) or (returned and result == substring2_spec(s, start))"),
            ('nan_or_plus_inf_start_gives_empty',
             "not (is_nan(start) or inf_sign(start) == 1) or (returned and result == '')"),
            ('minus_inf_start_gives_whole_string', "inf_sign(start) != -1 or (returned and result == s)"),
            ('only_coded_errors', "returned or raised_code is not None"),
        ],
        specs=SPECS, inline=INLINE, native=sub_native('2.0', 2), samples=str_num_samples([k1]), timeout_s=20))
    for k2 in ('int', 'dec', 'float'):
        CONTRACTS.append(Contract(
            f'substring3.{k1}.{k2}', 'C09', token_method('2.0', 'substring', 'evaluate'),
            args_case('2.0', 'substring',
                      lambda S, ex, k1=k1, k2=k2: [S.str('s'), NUM[k1](S, 'start', ex), NUM[k2](S, 'length', ex)], 3),
            post=[
                ('positions_from_round_half_up',
                 "not (is_finite(start) and is_finite(length)) or "
                 "(returned and result == substring3_spec(s, start, length))"),
                ('nan_gives_empty', "not (is_nan(start) or is_nan(length)) or (returned and result == '')"),
                ('inf_start_gives_empty', "inf_sign(start) == 0 or (returned and result == '')"),
                ('inf_length', "not (is_finite(start) and inf_sign(length) != 0) or (returned and result == "
                               "(substring2_spec(s, start) if inf_sign(length) == 1 else ''))"),
                ('only_coded_errors', "returned or raised_code is not None"),
            ],
            specs=SPECS, inline=INLINE, native=sub_native('2.0', 3), samples=str_num_samples([k1, k2]), timeout_s=20))


# substring-before / substring-after / contains / starts-with / ends-with ----------------------

def two_strings(S, ex):
    return [S.str('s'), S.str('t')]


def str2_samples(rng):
    for s in STRS:
        for t in ['', 'a', 'b', 'ab', 'bc', 'c', '\U0001F600', 'e', '́', ' ', 'aa', 'motor', 'car']:
            yield {'s': s, 't': t}


def str2_native(version, expr):
    return lambda i: eval_native(version, expr, s=i['s'], t=i['t'])


def first_occurrence(s, t, i):
    """i is the position of the first occurrence of t in s (0-based), or -1 if there is none"""
    return i == s.find(t)


for version in ('1.0', '2.0'):
    v = version.replace('.', '')
    for sym in ('substring-before', 'substring-after'):
        spec = "s[:s.find(t)]" if sym == 'substring-before' else "s[s.find(t) + len(t):]"
        CONTRACTS.append(Contract(
            f'{sym}.v{v}', 'C09', token_method(version, sym, 'evaluate'),
            args_case(version, sym, two_strings, 2),
            post=[
                ('value', f"returned and result == ({spec} if t in s else '')"),
                ('prefix_or_suffix_of_s', "returned and (s.startswith(result) if %s else s.endswith(result))"
                 % (sym == 'substring-before')),
            ],
            inline=INLINE, native=str2_native(version, f'{sym}($s, $t)'), samples=str2_samples, timeout_s=20))
    for sym, spec in (('contains', 't in s'), ('starts-with', 's.startswith(t)')) + \
            ((('ends-with', 's.endswith(t)'),) if version != '1.0' else ()):
        CONTRACTS.append(Contract(
            f'{sym}.v{v}', 'C09', token_method(version, sym, 'evaluate'),
            args_case(version, sym, two_strings, 2),
            post=[('value', f"returned and result == ({spec})")],
            inline=INLINE, native=str2_native(version, f'{sym}($s, $t)'), samples=str2_samples, timeout_s=20))


# concat(substring-before(s,t), t, substring-after(s,t)) = s whenever contains(s,t):
# a lemma over the two real evaluators (inlined, binding-checked).

def lemma_concat_identity_v1(tok_before, tok_after, ctx, t):
    return F1.evaluate__substring_before_or_after_functions(tok_before, ctx) + t + \
        F1.evaluate__substring_before_or_after_functions(tok_after, ctx)


def lemma_concat_identity_v2(tok_before, tok_after, ctx, t):
    return F2.evaluate__substring_functions(tok_before, ctx) + t + \
        F2.evaluate__substring_functions(tok_after, ctx)


def identity_case(version):
    def setup(S, ex):
        s, t = S.str('s'), S.str('t')
        inner = args_case(version, 'substring-before', lambda S2, ex2: [s, t], 2)(S, ex)
        tb = inner.args[0]
        ta = mk_token(version, 'substring-after', parser=tb.fields['parser'], nitems=2, context=NONE)
        inner.hooks[('len', ta.pycls.__name__)] = lambda ex, v: VInt(2)
        return Case([tb, ta, inner.args[1], t], hooks=inner.hooks)
    return setup


for version, lem in (('1.0', lemma_concat_identity_v1), ('2.0', lemma_concat_identity_v2)):
    CONTRACTS.append(Contract(
        f'concat_identity.v{version.replace(".", "")}', 'C09', (lambda lem=lem: lem), identity_case(version),
        post=[('before_t_after_is_s', "t not in s or (returned and result == s)")],
        inline=INLINE, lemma=True,
        native=lambda i, version=version: eval_native(
            version, 'concat(substring-before($s,$t), $t, substring-after($s,$t))', s=i['s'], t=i['t']),
        samples=str2_samples, timeout_s=30))

# string-length
for version in ('1.0', '2.0'):
    CONTRACTS.append(Contract(
        f'string-length.v{version.replace(".", "")}', 'C09', token_method(version, 'string-length', 'evaluate'),
        args_case(version, 'string-length', lambda S, ex: [S.str('s')], 1),
        post=[('code_point_count', "returned and result == len(s)")],
        native=lambda i, version=version: eval_native(version, 'string-length($s)', s=i['s']),
        samples=lambda rng: ({'s': s} for s in STRS)))
