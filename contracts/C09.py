"""C09 - string functions agree with their F&O definitions on all Unicode strings.

Postconditions are the F&O 3.1 section 5.4 / 5.5 definitions:
  fn:substring($s, $start[, $len]) = the characters at positions p (1-based) with
      fn:round($start) <= p [< fn:round($start) + fn:round($len)], fn:round = half toward +INF
  fn:substring-before/after, fn:contains, fn:starts-with, fn:ends-with under the Unicode
  codepoint collation (minimal match = first occurrence), and the identity
      contains(s,t) => concat(substring-before(s,t), t, substring-after(s,t)) = s
Strings are z3 strings (A-STR: alphabet up to 0x2FFFF); len() is the code point count.
"""
from __future__ import annotations

import decimal
import math

from pyvc.values import *  # noqa
from pyvc.contract import Contract, Case
from pyvc.specprims import *  # noqa
from .common import *  # noqa
from .bounded import Bounded
from elementpath.collations import CollationManager, UNICODE_CODEPOINT_COLLATION
import elementpath.xpath1._xpath1_functions as F1
import elementpath.xpath2._xpath2_functions as F2


def fn_round(x):
    """F&O 4.4.4: nearest integer, ties toward positive infinity."""
    return floor_(exact_div(2 * exact(x) + 1, 2))


def substring3_spec(s, start, length):
    """finite start and length"""
    rs = fn_round(start)
    lo = max(rs, 1)
    hi = min(rs + fn_round(length), len(s) + 1)
    return s[lo - 1:hi - 1] if hi > lo else ''


def substring2_spec(s, start):
    rs = fn_round(start)
    lo = max(rs, 1)
    return s[lo - 1:] if lo <= len(s) else ''


SPECS = [fn_round, substring3_spec, substring2_spec]
NUM = {'int': lambda S, n, ex: S.int(n), 'dec': lambda S, n, ex: S.dec(n), 'float': lambda S, n, ex: S.float(n, ex=ex)}


def args_case(version, symbol, maker, nitems, fields=None):
    """maker(S, ex) -> list of argument values by index (the havoc point self.get_argument)."""
    def setup(S, ex):
        vals = maker(S, ex)
        f = {'context': NONE}
        f.update(fields or {})
        tok = mk_token(version, symbol, parser=mk_parser(version, False, **(
            {'default_collation': VStr(UNICODE_CODEPOINT_COLLATION)} if version != '1.0' else {})),
            nitems=nitems, **f)
        ctx = mk_context()

        def get_argument(ex, node, a, kw):
            idx = kw.get('index', a[1] if len(a) > 1 else VInt(0)).conc
            return vals[idx]
        hooks = std_hooks(tok, {'self.get_argument': get_argument})
        if version != '1.0':
            def mk_manager(ex, node, a, kw):
                # CollationManager(collation, token) for the Unicode codepoint collation: the
                # fields its methods read, as __init__ sets them for that URI
                # (checked natively by GROUND collation_manager_fields)
                if a[0].conc != UNICODE_CODEPOINT_COLLATION:
                    raise OutOfSubset('collation other than the codepoint collation')
                from elementpath import collations
                return VObj(CollationManager, {
                    'lc_collate': NONE, 'strxfrm': VNative(collations.unicode_codepoint_strxfrm),
                    'strcoll': VNative(collations.unicode_codepoint_strcoll),
                    '_current_lc_collate': NONE, 'fallback': VBool(False)}, name='manager')
            hooks['CollationManager'] = mk_manager
        return Case([tok, ctx], hooks=hooks)
    return setup


INLINE = {'CollationManager.__enter__', 'CollationManager.__exit__', 'CollationManager.contains',
          'CollationManager.find', 'CollationManager.find_match', 'CollationManager.startswith', 'CollationManager.endswith',
          'unicode_codepoint_strxfrm', 'evaluate__substring_before_or_after_functions',
          'evaluate__substring_functions', 'round_half_up'}

STRS = ['', 'a', 'ab', '12345', 'abcabc', 'motor car', '\U0001F600x\U0001F600', 'ée', ' a  b ', 'aaa']


def str_num_samples(kinds):
    grid = {'int': [0, 1, 2, 3, -1, 5, 6, 10 ** 6, -10 ** 6],
            'dec': [decimal.Decimal(x) for x in ('0.5', '1.5', '2.5', '-0.5', '-1.5', '3.49', '0', '1', '2.25', '100')],
            'float': [0.5, 1.5, 2.5, -0.5, -1.5, 3.5, 0.0, -0.0, 1.0, 2.0, 1e300, -1e300, float('inf'), float('-inf'),
                      float('nan'), 4.5]}

    def gen(rng):
        names = ['start', 'length'][:len(kinds)]
        import itertools
        for s in STRS:
            for combo in itertools.product(*[grid[k] for k in kinds]):
                d = {'s': s}
                d.update(dict(zip(names, combo)))
                yield d
    return gen


def sub_native(version, nargs):
    def native(i):
        if nargs == 2:
            return eval_native(version, 'substring($s, $a)', s=i['s'], a=i['start'])
        return eval_native(version, 'substring($s, $a, $b)', s=i['s'], a=i['start'], b=i['length'])
    return native


CONTRACTS = []
for k1 in ('int', 'dec', 'float'):
    CONTRACTS.append(Contract(
        f'substring2.{k1}', 'C09', token_method('2.0', 'substring', 'evaluate'),
        args_case('2.0', 'substring', lambda S, ex, k1=k1: [S.str('s'), NUM[k1](S, 'start', ex)], 2),
        post=[
            ('positions_from_round_half_up',
             "not is_finite(start) or (returned and result == substring2_spec(s, start))"),
            ('nan_or_plus_inf_start_gives_empty',
             "not (is_nan(start) or inf_sign(start) == 1) or (returned and result == '')"),
            ('minus_inf_start_gives_whole_string', "inf_sign(start) != -1 or (returned and result == s)"),
            ('only_coded_errors', "returned or raised_code is not None"),
        ],
        specs=SPECS, inline=INLINE, native=sub_native('2.0', 2), samples=str_num_samples([k1]), timeout_s=20))
    for k2 in ('int', 'dec', 'float'):
        CONTRACTS.append(Contract(
            f'substring3.{k1}.{k2}', 'C09', token_method('2.0', 'substring', 'evaluate'),
            args_case('2.0', 'substring',
                      lambda S, ex, k1=k1, k2=k2: [S.str('s'), NUM[k1](S, 'start', ex), NUM[k2](S, 'length', ex)], 3),
            post=[
                ('positions_from_round_half_up',
                 "not (is_finite(start) and is_finite(length)) or "
                 "(returned and result == substring3_spec(s, start, length))"),
                ('nan_gives_empty', "not (is_nan(start) or is_nan(length)) or (returned and result == '')"),
                ('inf_start_gives_empty', "inf_sign(start) == 0 or (returned and result == '')"),
                ('inf_length', "not (is_finite(start) and inf_sign(length) != 0) or (returned and result == "
                               "(substring2_spec(s, start) if inf_sign(length) == 1 else ''))"),
                ('only_coded_errors', "returned or raised_code is not None"),
            ],
            specs=SPECS, inline=INLINE, native=sub_native('2.0', 3), samples=str_num_samples([k1, k2]), timeout_s=20))


# substring-before / substring-after / contains / starts-with / ends-with ----------------------

def two_strings(S, ex):
    return [S.str('s'), S.str('t')]


def str2_samples(rng):
    for s in STRS:
        for t in ['', 'a', 'b', 'ab', 'bc', 'c', '\U0001F600', 'e', '́', ' ', 'aa', 'motor', 'car']:
            yield {'s': s, 't': t}


def str2_native(version, expr):
    return lambda i: eval_native(version, expr, s=i['s'], t=i['t'])


def first_occurrence(s, t, i):
    """i is the position of the first occurrence of t in s (0-based), or -1 if there is none"""
    return i == s.find(t)


for version in ('1.0', '2.0'):
    v = version.replace('.', '')
    for sym in ('substring-before', 'substring-after'):
        spec = "s[:s.find(t)]" if sym == 'substring-before' else "s[s.find(t) + len(t):]"
        CONTRACTS.append(Contract(
            f'{sym}.v{v}', 'C09', token_method(version, sym, 'evaluate'),
            args_case(version, sym, two_strings, 2),
            post=[
                ('value', f"returned and result == ({spec} if t in s else '')"),
                ('prefix_or_suffix_of_s', "returned and (s.startswith(result) if %s else s.endswith(result))"
                 % (sym == 'substring-before')),
            ],
            inline=INLINE, native=str2_native(version, f'{sym}($s, $t)'), samples=str2_samples, timeout_s=20))
    for sym, spec in (('contains', 't in s'), ('starts-with', 's.startswith(t)')) + \
            ((('ends-with', 's.endswith(t)'),) if version != '1.0' else ()):
        CONTRACTS.append(Contract(
            f'{sym}.v{v}', 'C09', token_method(version, sym, 'evaluate'),
            args_case(version, sym, two_strings, 2),
            post=[('value', f"returned and result == ({spec})")],
            inline=INLINE, native=str2_native(version, f'{sym}($s, $t)'), samples=str2_samples, timeout_s=20))


# concat(substring-before(s,t), t, substring-after(s,t)) = s whenever contains(s,t):
# a lemma over the two real evaluators (inlined, binding-checked).

def lemma_concat_identity_v1(tok_before, tok_after, ctx, t):
    return F1.evaluate__substring_before_or_after_functions(tok_before, ctx) + t + \
        F1.evaluate__substring_before_or_after_functions(tok_after, ctx)


def lemma_concat_identity_v2(tok_before, tok_after, ctx, t):
    return F2.evaluate__substring_functions(tok_before, ctx) + t + \
        F2.evaluate__substring_functions(tok_after, ctx)


def identity_case(version):
    def setup(S, ex):
        s, t = S.str('s'), S.str('t')
        inner = args_case(version, 'substring-before', lambda S2, ex2: [s, t], 2)(S, ex)
        tb = inner.args[0]
        ta = mk_token(version, 'substring-after', parser=tb.fields['parser'], nitems=2, context=NONE)
        inner.hooks[('len', ta.pycls.__name__)] = lambda ex, v: VInt(2)
        return Case([tb, ta, inner.args[1], t], hooks=inner.hooks)
    return setup


for version, lem in (('1.0', lemma_concat_identity_v1), ('2.0', lemma_concat_identity_v2)):
    CONTRACTS.append(Contract(
        f'concat_identity.v{version.replace(".", "")}', 'C09', (lambda lem=lem: lem), identity_case(version),
        post=[('before_t_after_is_s', "t not in s or (returned and result == s)")],
        inline=INLINE, lemma=True,
        native=lambda i, version=version: eval_native(
            version, 'concat(substring-before($s,$t), $t, substring-after($s,$t))', s=i['s'], t=i['t']),
        samples=str2_samples, timeout_s=30))

# string-length
for version in ('1.0', '2.0'):
    CONTRACTS.append(Contract(
        f'string-length.v{version.replace(".", "")}', 'C09', token_method(version, 'string-length', 'evaluate'),
        args_case(version, 'string-length', lambda S, ex: [S.str('s')], 1),
        post=[('code_point_count', "returned and result == len(s)")],
        native=lambda i, version=version: eval_native(version, 'string-length($s)', s=i['s']),
        samples=lambda rng: ({'s': s} for s in STRS)))


# ---- is_xml_codepoint: the XML 1.0 Char production, for all integers (codepoints-to-string raises FOCH0001 exactly outside it; the JSON functions
#      replace exactly the characters outside it) -----------------------------------------------------------------------------------------------------
from elementpath import helpers as _helpers          # noqa: E402


def xml_char(cp):
    """XML 1.0 (5th ed.) production [2] Char ::= #x9 | #xA | #xD | [#x20-#xD7FF] | [#xE000-#xFFFD] | [#x10000-#x10FFFF]"""
    return cp == 9 or cp == 10 or cp == 13 or (32 <= cp and cp <= 55295) or (57344 <= cp and cp <= 65533) or (65536 <= cp and cp <= 1114111)


CONTRACTS.append(Contract(
    'is_xml_codepoint', 'C09', lambda: _helpers.is_xml_codepoint, lambda S, ex: Case([S.int('cp')]),
    post=[('is_the_Char_production_for_every_integer', "returned and result == xml_char(cp)")],
    specs=[xml_char], native=lambda i: run_native(lambda: _helpers.is_xml_codepoint(i['cp'])),
    samples=lambda rng: ({'cp': c} for c in (-1, 0, 8, 9, 10, 11, 13, 31, 32, 0xD7FF, 0xD800, 0xDFFF, 0xE000, 0xFFFD, 0xFFFE, 0xFFFF, 0x10000, 0x10FFFF, 0x110000)),
    expect_min_obligations=1))

# ---- bounded stand-ins: functions outside the solver's reach (labelled bounded) -----------------
import itertools          # noqa: E402
from fractions import Fraction    # noqa: E402

ALPHA = ['\x7f', '\x80', '~', 'a', 'b', 'A', '1', ' ', '\t', '\n', ' ', ' ', '\U0001F600', 'é'[1], 'é', '%', '/', "'", '-']


def spec_translate(arg, m, t):
    out = []
    for ch in arg:
        i = m.find(ch)          # first occurrence wins (F&O 5.4.9)
        if i < 0:
            out.append(ch)
        elif i < len(t):
            out.append(t[i])
    return ''.join(out)


def spec_normalize_space(s):
    ws = ' \t\n\r'               # XML whitespace only (F&O 5.4.5 -> XML S production)
    words, cur = [], ''
    for ch in s:
        if ch in ws:
            if cur:
                words.append(cur)
            cur = ''
        else:
            cur += ch
    if cur:
        words.append(cur)
    return ' '.join(words)


def spec_pct(s, keep):
    return ''.join(ch if keep(ch) else ''.join('%%%02X' % b for b in ch.encode('utf-8')) for ch in s)


UNRESERVED = set('ABCDEFGHIJKLMNOPQRSTUVWXYZabcdefghijklmnopqrstuvwxyz0123456789-_.~')
IRI_ESCAPED_ASCII = set('<>" {}|\\^`')


def spec_decimal_string(d):
    """xs:decimal -> xs:string (F&O 19.1.2.3... canonical form: no exponent, no trailing zeros)"""
    fr = Fraction(d)
    sign = '-' if fr < 0 else ''
    fr = abs(fr)
    ip = fr.numerator // fr.denominator
    rest = fr - ip
    digits = ''
    while rest:
        rest *= 10
        dgt = rest.numerator // rest.denominator
        digits += str(dgt)
        rest -= dgt
    return sign + str(ip) + ('.' + digits if digits else '')


def _strings(n, alphabet):
    for k in range(n + 1):
        for tup in itertools.product(alphabet, repeat=k):
            yield ''.join(tup)


def bounded_strings(tier, seed):
    n = 3 if tier == 'quick' else 4
    small = ['a', 'b', ' ', '\t', ' ', '\U0001F600']
    fails, evals, seen = [], 0, set()

    def check(expr, want, **vars_):
        nonlocal evals
        evals += 1
        got = eval_native('2.0', expr, **vars_)
        ok = got[0] == 'return' and got[1] == want and type(got[1]) is type(want)
        if not ok and len(fails) < 40:
            fails.append({'key': f'{expr}|{vars_!r}', 'what': f'{expr} with {vars_!r}: got {got!r}, F&O value {want!r}'})
    # translate: all (arg, map, trans) over a 3-letter alphabet, lengths <= 3 (incl. duplicates in map)
    for arg in _strings(2, 'abc'):
        for m in _strings(3, 'abc'):
            for t in _strings(3, 'xya'):
                seen.add(('translate', len(arg), len(m), len(t), len(set(m)) < len(m)))
                check('translate($s, $m, $t)', spec_translate(arg, m, t), s=arg, m=m, t=t)
    for s in _strings(n, small):
        seen.add(('normalize-space', len(s), tuple(sorted(set(s)))))
        check('normalize-space($s)', spec_normalize_space(s), s=s)
    for s in _strings(2, ALPHA):
        seen.add(('uri', tuple(sorted(set(s)))))
        check('encode-for-uri($s)', spec_pct(s, lambda c: c in UNRESERVED), s=s)
        check('iri-to-uri($s)', spec_pct(s, lambda c: '\x21' <= c <= '\x7e' and c not in IRI_ESCAPED_ASCII), s=s)
        check('escape-html-uri($s)', spec_pct(s, lambda c: '\x20' <= c <= '\x7e'), s=s)
        check('string-to-codepoints($s)', [ord(c) for c in s] if len(s) != 1 else ord(s), s=s) if False else None
        check('codepoints-to-string(string-to-codepoints($s))', s, s=s)
        check('string-length($s)', len(s), s=s)
    for a in _strings(2, ['a', 'b', 'é', '\U0001F600']):
        for b in _strings(2, ['a', 'b', 'é', '\U0001F600']):
            seen.add(('compare', len(a), len(b)))
            check('compare($a, $b)', (a > b) - (a < b), a=a, b=b)
            check('codepoint-equal($a, $b)', a == b, a=a, b=b)
    # codepoints-to-string accepts exactly the code points of the XML Char production (FOCH0001 otherwise)
    def is_xml_char(c):
        return c in (0x9, 0xA, 0xD) or 0x20 <= c <= 0xD7FF or 0xE000 <= c <= 0xFFFD or 0x10000 <= c <= 0x10FFFF
    for c in [0, 1, 8, 9, 0xA, 0xB, 0xC, 0xD, 0xE, 0x1F, 0x20, 0x7F, 0x85, 0xD7FF, 0xD800, 0xDBFF, 0xDC00, 0xDFFF, 0xE000, 0xFFFD, 0xFFFE, 0xFFFF, 0x10000, 0x1FFFE, 0x10FFFF,
              0x110000, -1]:
        seen.add(('codepoints-to-string', is_xml_char(c)))
        for version in ('2.0', '3.1'):
            evals += 1
            got = eval_native(version, 'codepoints-to-string((97, $c, 98))', c=c)
            ok = got == ('return', 'a' + chr(c) + 'b') if is_xml_char(c) else (got[0] == 'raise' and str(getattr(got[1], 'code', '')).endswith('FOCH0001'))
            if not ok:
                fails.append({'key': f'codepoints-to-string on U+{c:04X}' if c >= 0 else 'codepoints-to-string on -1',
                              'what': f'XPath {version}: codepoints-to-string((97, {c}, 98)) = {got!r}; ' +
                              ('a character of the XML Char production' if is_xml_char(c) else 'not an XML character: FOCH0001')})
    # xs:double to xs:string (F&O 19.1.2.2 / XPath 2.0 17.1.2): decimal notation for 1e-6 <= |v| < 1e6, otherwise scientific notation with a mantissa that has a
    # fraction part, 'E' and an exponent without sign or leading zeros; the digits are the shortest that identify the double
    def spec_double_string(v):
        if v != v:
            return 'NaN'
        if v in (math.inf, -math.inf):
            return 'INF' if v > 0 else '-INF'
        sign, digits, exponent = decimal.Decimal(repr(v)).as_tuple()
        digits = list(digits)
        while len(digits) > 1 and digits[-1] == 0:
            digits.pop()
            exponent += 1
        if digits == [0]:
            return '-0' if sign else '0'
        if 1e-6 <= abs(v) < 1e6:
            t = format(decimal.Decimal(repr(v)), 'f')
            return t.rstrip('0').rstrip('.') if '.' in t else t
        return ('-' if sign else '') + str(digits[0]) + '.' + (''.join(map(str, digits[1:])) or '0') + 'E' + str(len(digits) - 1 + exponent)
    for v in [0.0, -0.0, 1.0, -1.5, 100.0, 0.1, 999999.9, 0.0001, 0.00012345, 0.000001, 0.0000015, 0.00001, 123456.789, 1e6, 1234567.8, 1e15, 123456789012.0, 1e16, 1e21, 1e100, 1.7976931348623157e308,
              1e-7, 1.5e-7, -1e-10, 5e-324, 0.30000000000000004, math.inf, -math.inf, math.nan]:
        mag = 'below 1e-6' if 0 < abs(v) < 1e-6 else 'from 1e-6 to 1e-4' if 1e-6 <= abs(v) < 1e-4 else 'from 1e6 up' if 1e6 <= abs(v) < math.inf else \
            'between 1e-4 and 1e6, zero, INF and NaN'
        seen.add(('double-string', mag))
        for expr in ('string($d)', 'concat($d, "")', 'xs:string($d)'):
            evals += 1
            got = eval_native('2.0', expr, d=v)
            if got != ('return', spec_double_string(v)):
                key = f'xs:double to xs:string, magnitude {mag}'
                if not any(f['key'] == key for f in fails):
                    fails.append({'key': key, 'what': f'{expr} with $d = {v!r}: got {got!r}, F&O gives {spec_double_string(v)!r}'})
    # arguments are atomized: nodes and (3.1) arrays in codepoints-to-string / string-join
    import xml.etree.ElementTree as _ET
    from elementpath import select as _sel
    doc = _ET.XML('<r><c>65</c><c>66</c><s>x</s></r>')
    for version, expr, want in (('2.0', 'codepoints-to-string(c)', 'AB'), ('3.1', 'codepoints-to-string((c, 67))', 'ABC'), ('2.0', 'codepoints-to-string(s)', 'FORG0001'),
                                ('3.1', 'codepoints-to-string([65, 66])', 'AB'), ('3.1', "string-join([1, 2, 3], ',')", '1,2,3'), ('3.1', "string-join((['a', 'b'], 'c'), '-')", 'a-b-c'),
                                ('3.1', "string-join(c, '+')", '65+66'), ('2.0', "string-join(c, '+')", '65+66'), ('3.1', "string-join((c, s, 1), '')", '6566x1'),
                                ('2.0', 'string-to-codepoints(s)', [120]), ('3.1', "string-join(abs#1, '')", 'FOTY0013')):
        evals += 1
        seen.add(('atomized arguments', expr[:24]))
        got = run_native(lambda: _sel(doc, expr, parser=PARSERS[version]))
        ok = (got[0] == 'raise' and str(getattr(got[1], 'code', '')).endswith(want)) if isinstance(want, str) and want[:2] == 'FO' else got == ('return', want)
        if not ok:
            fails.append({'key': f'arguments are atomized: {expr}', 'what': f'XPath {version}: {expr} on <r><c>65</c><c>66</c><s>x</s></r> = {got!r}; the function conversion rules give {want!r}'})
    # XPath 3.1: fn:string-join takes xs:anyAtomicType*: every item is cast to xs:string (the same strings as fn:string, concat and ||)
    for lit, want in (('(1e0, 2.50, true())', '1|2.5|true'), ("(xs:double('INF'), xs:float('-INF'), xs:double('NaN'))", 'INF|-INF|NaN'), ('(1, 1.0, 1.0e0)', '1|1|1'),
                      ("(xs:untypedAtomic('u'), xs:anyURI('v'), 'w')", 'u|v|w'), ("(xs:date('2000-01-01'), xs:dayTimeDuration('PT60S'))", '2000-01-01|PT1M'),
                      ('(false(), 0.10, -0.0e0)', 'false|0.1|-0'), ('(1e21, 1.5e-7)', None)):
        evals += 1
        seen.add(('string-join atomics', lit[:12]))
        got = eval_native('3.1', f"string-join({lit}, '|')")
        ref = eval_native('3.1', f"string-join(for $x in {lit} return string($x), '|')")
        if got != ref or (want is not None and got != ('return', want)):
            fails.append({'key': f'string-join of non-string atomic values {lit}', 'what': f"XPath 3.1: string-join({lit}, '|') = {got!r}; the items cast to xs:string give "
                          f'{want!r} (string() on each item: {ref!r})'})
    for d in ['0', '1', '10', '100', '1000', '-100', '0.5', '100.50', '10.0', '-0.001', '1E+2', '1E+3', '12345678901234567890.5',
              '0.000001', '1000000', '-120', '1.10', '20', '3E+1', '-0', '-0.0', '-0.00', '0.0', '-0E+2', '-0.10']:
        seen.add(('decimal-string', d))
        check('string($d)', spec_decimal_string(decimal.Decimal(d)), d=decimal.Decimal(d))
        check('concat($d, "px")', spec_decimal_string(decimal.Decimal(d)) + 'px', d=decimal.Decimal(d))
    return {'evaluations': evals, 'distinct': len(seen), 'failures': fails, 'n_failures': len(fails),
            'scope': f'translate: all args<=2,map<=3,trans<=3 over 3 letters; normalize-space: all strings <= {n} over '
                     f'{small!r}; URI escaping/codepoints/string-length: all strings <= 2 over {len(ALPHA)} characters; '
                     'compare/codepoint-equal: all pairs <= 2 over 4 characters; decimal->string on 19 values; '
                     'oracles written from F&O 5.3-5.4, 6.x',
            'rule': 'distinct = (function, lengths / character-set class of the arguments)'}


# ---- the html-ascii-case-insensitive collation: compare = code point comparison of the folded strings (folding itself: uninterpreted, checked on all 128 ASCII
#      characters and a sample beyond by the bounded stand-in collation_aware_functions) ---------------------------------------------------------------
from elementpath import collations as _coll          # noqa: E402
_FOLD = z3.Function('ascii_fold', z3.StringSort(), z3.StringSort())


def strcoll_case(S, ex):
    a, b = S.str('s1'), S.str('s2')
    return Case([a, b], hooks={'s1.translate': lambda ex, node, args, kw: VStr(_FOLD(a.t)), 's2.translate': lambda ex, node, args, kw: VStr(_FOLD(b.t))},
                names={'f1': VStr(_FOLD(a.t)), 'f2': VStr(_FOLD(b.t))})


CONTRACTS.append(Contract(
    'html_ascii_case_insensitive_strcoll', 'C09', lambda: _coll.html_ascii_case_insensitive_strcoll, strcoll_case,
    post=[('sign_of_the_code_point_comparison_of_the_folded_strings',
           "returned and result == (1 if f1 > f2 else -1 if f1 < f2 else 0)"),
          ('zero_iff_the_folded_strings_are_equal', "returned and (result == 0) == (f1 == f2)")],
    native=None, expect_min_obligations=2,
    notes=['str.translate(ASCII_LOWER_TABLE) is an uninterpreted function here; that it folds exactly A-Z is checked by the bounded stand-in collation_aware_functions']))


def xpath10_strings_vs_libxml2(tier, seed):
    """The XPath 1.0 string functions with the XPath 1.0 parser against libxml2 (lxml) on the same document: every argument form the 1.0 grammar
    allows (string literals, node-sets, numbers incl. NaN/Infinity, booleans: 1.0 converts arguments with string()/number())."""
    import lxml.etree as LX
    import xml.etree.ElementTree as ET
    from elementpath import select as ep_select, XPath1Parser
    src = '<r><a> x  y </a><n>12.50</n><e/><u>\u00e9\U0001F600x</u></r>'
    r, lx = ET.XML(src), LX.XML(src)
    strs = ["''", "'12345'", "'abc'", "' a  b '", "u", "a", "n", "e", "zz", "'a'", "'1'", "'ab'"]
    nums = ['0', '1', '2', '1.5', '2.5', '-1', '0.5', '1 div 0', '-1 div 0', '0 div 0', '3', '100', "'2'", "'x'", 'true()', 'n', '1.4999', '-0.5']
    exprs = []
    for s_ in strs:
        exprs += [f'string-length({s_})', f'normalize-space({s_})', f'string({s_})', f"concat({s_}, '|', {s_})", f"translate({s_}, 'abx', 'B')"]
        for t in strs:
            exprs += [f'contains({s_}, {t})', f'starts-with({s_}, {t})', f'substring-before({s_}, {t})', f'substring-after({s_}, {t})', f'concat({s_}, {t})']
        for a in nums:
            exprs.append(f'substring({s_}, {a})')
            for b in nums[:12]:
                exprs.append(f'substring({s_}, {a}, {b})')
    # numbers as arguments of string functions: only values whose 1.0 string form is unambiguous (no exponent form in either implementation)
    for a in nums + ['1.0', '-0', '12345.678', '-0.0', '.5', '5.', '0.25', '1000000', '-12.5', 'true()', 'false()']:
        exprs += [f'string({a})', f"concat({a}, '')", f'string-length({a})', f'string-length(string({a}))', f"starts-with({a}, '1')", f"contains({a}, 'n')"]
    fams, n, seen = {}, 0, set()
    for e in exprs:
        n += 1
        fname = e.split('(')[0]
        got = run_native(lambda: ep_select(r, e, parser=XPath1Parser))
        want = lx.xpath(e)
        seen.add((fname, e.count(','), 'div' in e, "'" in e))
        if isinstance(want, float) and got[0] == 'return' and isinstance(got[1], (int, float)) and not isinstance(got[1], bool) and float(got[1]) == want:
            continue
        if got != ('return', want):
            if got[0] == 'raise' and 'FORG0006' in str(got[1]) and fname == 'substring':
                key = 'XPath 1.0: substring() rejects a position/length argument that is not a number (1.0 converts it with number())'
            elif isinstance(want, str) and 'Infinity' in want:
                key = "XPath 1.0: the string value of an infinite number is 'INF' / '-INF' (XPath 1.0 and libxml2: 'Infinity' / '-Infinity')"
            elif 'div 0' in e and fname in ('string-length', 'contains', 'starts-with'):
                key = "XPath 1.0: the string value of an infinite number is 'INF' / '-INF' (XPath 1.0 and libxml2: 'Infinity' / '-Infinity')"
            else:
                key = f'XPath 1.0: {fname}() differs from libxml2'
            fams.setdefault(key, []).append({'expr': e, 'elementpath': repr(got)[:90], 'libxml2': repr(want)[:60]})
    fails = [{'key': k, 'items': it[:4], 'count': len(it), 'what': f'{k}: e.g. {it[0]}', 'expr': it[0]['expr']} for k, it in fams.items()]
    return {'evaluations': n, 'distinct': len(seen), 'failures': fails, 'n_failures': len(fails),
            'scope': f'{len(exprs)} calls of string-length, normalize-space, string, concat, translate, contains, starts-with, substring-before, substring-after, substring '
                     f'(2 and 3 arguments) over {len(strs)} string operands (literals, node-sets incl. empty and non-BMP content) and {len(nums)} numeric operands '
                     '(fractions, NaN, infinities, strings, booleans, nodes) with the XPath 1.0 parser; oracle: libxml2 on the same document',
            'rule': 'distinct = (function, arity, operand classes)'}


def _with_default_collation(expr, collation, **variables):
    tok = PARSERS['3.1'](default_collation=collation).parse(expr)
    return run_native(lambda: tok.evaluate(XPathContext(root=None, item=1, variables=variables)))


def collation_compare(tier, seed):
    """fn:compare / contains / starts-with / ends-with / substring-before / substring-after with the codepoint and the html-ascii-case-insensitive
    collations against their definitions (HTML5: only A-Z and a-z are folded)."""
    CI = 'http://www.w3.org/2005/xpath-functions/collation/html-ascii-case-insensitive'
    CP = 'http://www.w3.org/2005/xpath-functions/collation/codepoint'
    CB = 'http://www.w3.org/2010/09/qt-fots-catalog/collation/caseblind'
    fold = lambda t: ''.join(chr(ord(c) + 32) if 'A' <= c <= 'Z' else c for c in t)      # noqa
    words = ['', 'a', 'A', 'b', 'B', 'apple', 'Apple', 'Banana', 'banana', 'aB', 'Ab', 'ab', 'Strasse', 'Stra\u00dfe', 'STRASSE', '\u00e9', '\u00c9', 'k', '\u212a',
             'i', 'I', '\u0130', 'z', 'Z', '[', '_', '{']
    fams, n, seen = {}, 0, set()

    def chk(expr, want, key, **v):
        nonlocal n
        n += 1
        got = eval_native('3.1', expr, **v)
        if got != ('return', want):
            fams.setdefault(key, []).append({'expr': expr, 'vars': repr(v), 'got': repr(got)[:80], 'expected': repr(want)})
    for a, b in itertools.product(words, repeat=2):
        seen.add((a.isascii(), b.isascii(), fold(a) == fold(b)))
        fa, fb = fold(a), fold(b)
        chk('compare($a, $b, $c)', (fa > fb) - (fa < fb), 'compare() with the html-ascii-case-insensitive collation', a=a, b=b, c=CI)
        chk('compare($a, $b, $c)', (a > b) - (a < b), 'compare() with the codepoint collation', a=a, b=b, c=CP)
        chk('compare($a, $b)', (a > b) - (a < b), 'compare() with the default collation', a=a, b=b)
        chk('contains($a, $b, $c)', fb in fa, 'contains() with the html-ascii-case-insensitive collation', a=a, b=b, c=CI)
        chk('starts-with($a, $b, $c)', fa.startswith(fb), 'starts-with() with the html-ascii-case-insensitive collation', a=a, b=b, c=CI)
        chk('ends-with($a, $b, $c)', fa.endswith(fb), 'ends-with() with the html-ascii-case-insensitive collation', a=a, b=b, c=CI)
        ca, cb = a.casefold(), b.casefold()
        chk('compare($a, $b, $c)', (ca > cb) - (ca < cb), 'compare() with the caseblind collation of the QT3 test suite (full case folding)', a=a, b=b, c=CB)
        chk('contains($a, $b, $c)', cb in ca, 'contains() with the caseblind collation of the QT3 test suite (full case folding)', a=a, b=b, c=CB)
        chk('ends-with($a, $b)', a.endswith(b), 'ends-with() with the default collation', a=a, b=b)
        chk('starts-with($a, $b)', a.startswith(b), 'starts-with() with the default collation', a=a, b=b)
        chk('contains($a, $b, $c)', b in a, 'contains() with the codepoint collation', a=a, b=b, c=CP)
        # substring-before / substring-after: the part of the first argument before / after its first match; with a collation whose folding keeps the length,
        # positions in the folded string are positions in the original
        for coll, ka, kb, cname in ((CI, fa, fb, 'the html-ascii-case-insensitive collation'), (CP, a, b, 'the codepoint collation')):
            i = ka.find(kb)
            before, after = (a[:i], a[i + len(b):]) if i >= 0 else ('', '')
            chk('substring-before($a, $b, $c)', before, f'substring-before() with {cname}', a=a, b=b, c=coll)
            chk('substring-after($a, $b, $c)', after, f'substring-after() with {cname}', a=a, b=b, c=coll)
            if i >= 0:
                chk('concat(substring-before($a, $b, $c), substring($a, string-length(substring-before($a, $b, $c)) + 1, string-length($b)), substring-after($a, $b, $c))',
                    a, f'substring-before, the matched part and substring-after do not give back the string with {cname}', a=a, b=b, c=coll)
        # a collation whose keys change the length of the string (full case folding: sharp s -> ss): the first minimal match in the original string
        def minimal_match(x, y):
            ky = y.casefold()
            for i_ in range(len(x) + 1):
                for j_ in range(i_, len(x) + 1):
                    if x[i_:j_].casefold() == ky:
                        return i_, j_
            return None
        mm = minimal_match(a, b)
        chk('substring-before($a, $b, $c)', a[:mm[0]] if mm else '', 'substring-before() with the caseblind collation (full case folding)', a=a, b=b, c=CB)
        chk('substring-after($a, $b, $c)', a[mm[1]:] if mm else '', 'substring-after() with the caseblind collation (full case folding)', a=a, b=b, c=CB)
        # the forms without collation argument use the default collation of the static context (here: declared on the parser)
        for fname, want in (('contains', fb in fa), ('starts-with', fa.startswith(fb)), ('ends-with', fa.endswith(fb)),
                            ('substring-before', a[:fa.find(fb)] if fb in fa else ''), ('substring-after', a[fa.find(fb) + len(b):] if fb in fa else ''),
                            ('compare', (fa > fb) - (fa < fb))):
            n += 1
            got = _with_default_collation(f'{fname}($a, $b)', CI, a=a, b=b)
            if got != ('return', want):
                fams.setdefault(f'{fname}() without collation argument does not use the default collation of the static context', []).append(
                    {'expr': f'{fname}($a, $b)', 'vars': repr({'a': a, 'b': b}), 'default_collation': CI, 'got': repr(got)[:80], 'expected': repr(want)})
    fails = [{'key': k, 'items': it[:4], 'count': len(it), 'what': f'{k}: e.g. {it[0]}', 'expr': it[0]['expr']} for k, it in fams.items()]
    return {'evaluations': n, 'distinct': len(seen), 'failures': fails, 'n_failures': len(fails),
            'scope': f'{len(words)}^2 pairs of words (ASCII case variants, sharp s, Kelvin sign, dotted I, characters between Z and a) x compare/contains/starts-with/ends-with '
                     'with the codepoint, default and html-ascii-case-insensitive collations; oracle: code point order after folding A-Z only',
            'rule': 'distinct = (ASCII-ness of the operands, equal after folding)'}


_REPLAY_CACHE = {}


def _replay_c09(f):
    for fn_ in (bounded_strings, xpath10_strings_vs_libxml2, collation_compare):
        if fn_.__name__ not in _REPLAY_CACHE:         # one re-run per process serves every recorded failure
            _REPLAY_CACHE[fn_.__name__] = fn_('quick', 0)
        if any(x['key'] == f.get('key') for x in _REPLAY_CACHE[fn_.__name__]['failures']):
            return False
    return True


BOUNDED = [Bounded('string_functions_small_scope', bounded_strings, _replay_c09), Bounded('xpath10_string_functions_vs_libxml2', xpath10_strings_vs_libxml2, _replay_c09),
           Bounded('collation_aware_functions', collation_compare, _replay_c09)]

NOT_DECIDED = [
    'upper-case/lower-case (Unicode case tables live in CPython)',
    'locale-dependent collations (strcoll/strxfrm in libc)',
    'translate, normalize-space, URI escaping, compare, codepoint functions: bounded stand-in only',
]
