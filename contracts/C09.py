"""C09 - string functions agree with their F&O definitions on all Unicode strings.

Postconditions are the F&O 3.1 section 5.4 / 5.5 definitions:
  fn:substring($s, $start[, $len]) = the characters at positions p (1-based) with
      fn:round($start) <= p [< fn:round($start) + fn:round($len)], fn:round = half toward +INF
  fn:substring-before/after, fn:contains, fn:starts-with, fn:ends-with under the Unicode
  codepoint collation (minimal match = first occurrence), and the identity
      contains(s,t) => concat(substring-before(s,t), t, substring-after(s,t)) = s
Strings are z3 strings (A-STR: alphabet up to 0x2FFFF); len() is the code point count.
"""
from __future__ import annotations

import decimal
import math

from pyvc.values import *  # noqa
from pyvc.contract import Contract, Case
from pyvc.specprims import *  # noqa
from .common import *  # noqa
from .bounded import Bounded
from elementpath.collations import CollationManager, UNICODE_CODEPOINT_COLLATION
import elementpath.xpath1._xpath1_functions as F1
import elementpath.xpath2._xpath2_functions as F2


def fn_round(x):
    """F&O 4.4.4: nearest integer, ties toward positive infinity."""
    return floor_(exact_div(2 * exact(x) + 1, 2))


def substring3_spec(s, start, length):
    """finite start and length"""
    rs = fn_round(start)
    lo = max(rs, 1)
    hi = min(rs + fn_round(length), len(s) + 1)
    return s[lo - 1:hi - 1] if hi > lo else ''


def substring2_spec(s, start):
    rs = fn_round(start)
    lo = max(rs, 1)
    return s[lo - 1:] if lo <= len(s) else ''


SPECS = [fn_round, substring3_spec, substring2_spec]
NUM = {'int': lambda S, n, ex: S.int(n), 'dec': lambda S, n, ex: S.dec(n), 'float': lambda S, n, ex: S.float(n, ex=ex)}


def args_case(version, symbol, maker, nitems, fields=None):
    """maker(S, ex) -> list of argument values by index (the havoc point self.get_argument)."""
    def setup(S, ex):
        vals = maker(S, ex)
        f = {'context': NONE}
        f.update(fields or {})
        tok = mk_token(version, symbol, parser=mk_parser(version, False, **(
            {'default_collation': VStr(UNICODE_CODEPOINT_COLLATION)} if version != '1.0' else {})),
            nitems=nitems, **f)
        ctx = mk_context()

        def get_argument(ex, node, a, kw):
            idx = kw.get('index', a[1] if len(a) > 1 else VInt(0)).conc
            return vals[idx]
        hooks = std_hooks(tok, {'self.get_argument': get_argument})
        if version != '1.0':
            def mk_manager(ex, node, a, kw):
                # CollationManager(collation, token) for the Unicode codepoint collation: the
                # fields its methods read, as __init__ sets them for that URI
                # (checked natively by GROUND collation_manager_fields)
                if a[0].conc != UNICODE_CODEPOINT_COLLATION:
                    raise OutOfSubset('collation other than the codepoint collation')
                from elementpath import collations
                return VObj(CollationManager, {
                    'lc_collate': NONE, 'strxfrm': VNative(collations.unicode_codepoint_strxfrm),
                    'strcoll': VNative(collations.unicode_codepoint_strcoll),
                    '_current_lc_collate': NONE, 'fallback': VBool(False)}, name='manager')
            hooks['CollationManager'] = mk_manager
        return Case([tok, ctx], hooks=hooks)
    return setup


INLINE = {'CollationManager.__enter__', 'CollationManager.__exit__', 'CollationManager.contains',
          'CollationManager.find', 'CollationManager.startswith', 'CollationManager.endswith',
          'unicode_codepoint_strxfrm', 'evaluate__substring_before_or_after_functions',
          'evaluate__substring_functions', 'round_half_up'}

STRS = ['', 'a', 'ab', '12345', 'abcabc', 'motor car', '\U0001F600x\U0001F600', 'ée', ' a  b ', 'aaa']


def str_num_samples(kinds):
    grid = {'int': [0, 1, 2, 3, -1, 5, 6, 10 ** 6, -10 ** 6],
            'dec': [decimal.Decimal(x) for x in ('0.5', '1.5', '2.5', '-0.5', '-1.5', '3.49', '0', '1', '2.25', '100')],
            'float': [0.5, 1.5, 2.5, -0.5, -1.5, 3.5, 0.0, -0.0, 1.0, 2.0, 1e300, -1e300, float('inf'), float('-inf'),
                      float('nan'), 4.5]}

    def gen(rng):
        names = ['start', 'length'][:len(kinds)]
        import itertools
        for s in STRS:
            for combo in itertools.product(*[grid[k] for k in kinds]):
                d = {'s': s}
                d.update(dict(zip(names, combo)))
                yield d
    return gen


def sub_native(version, nargs):
    def native(i):
        if nargs == 2:
            return eval_native(version, 'substring($s, $a)', s=i['s'], a=i['start'])
        return eval_native(version, 'substring($s, $a, $b)', s=i['s'], a=i['start'], b=i['length'])
    return native


CONTRACTS = []
for k1 in ('int', 'dec', 'float'):
    CONTRACTS.append(Contract(
        f'substring2.{k1}', 'C09', token_method('2.0', 'substring', 'evaluate'),
        args_case('2.0', 'substring', lambda S, ex, k1=k1: [S.str('s'), NUM[k1](S, 'start', ex)], 2),
        post=[
            ('positions_from_round_half_up',
             "not is_finite(start) or (returned and result == substring2_spec(s, start))"),
            ('nan_or_plus_inf_start_gives_empty',
             "not (is_nan(start) or inf_sign(start) == 1) or (returned and result == '')"),
            ('minus_inf_start_gives_whole_string', "inf_sign(start) != -1 or (returned and result == s)"),
            ('only_coded_errors', "returned or raised_code is not None"),
        ],
        specs=SPECS, inline=INLINE, native=sub_native('2.0', 2), samples=str_num_samples([k1]), timeout_s=20))
    for k2 in ('int', 'dec', 'float'):
        CONTRACTS.append(Contract(
            f'substring3.{k1}.{k2}', 'C09', token_method('2.0', 'substring', 'evaluate'),
            args_case('2.0', 'substring',
                      lambda S, ex, k1=k1, k2=k2: [S.str('s'), NUM[k1](S, 'start', ex), NUM[k2](S, 'length', ex)], 3),
            post=[
                ('positions_from_round_half_up',
                 "not (is_finite(start) and is_finite(length)) or "
                 "(returned and result == substring3_spec(s, start, length))"),
                ('nan_gives_empty', "not (is_nan(start) or is_nan(length)) or (returned and result == '')"),
                ('inf_start_gives_empty', "inf_sign(start) == 0 or (returned and result == '')"),
                ('inf_length', "not (is_finite(start) and inf_sign(length) != 0) or (returned and result == "
                               "(substring2_spec(s, start) if inf_sign(length) == 1 else ''))"),
                ('only_coded_errors', "returned or raised_code is not None"),
            ],
            specs=SPECS, inline=INLINE, native=sub_native('2.0', 3), samples=str_num_samples([k1, k2]), timeout_s=20))


# substring-before / substring-after / contains / starts-with / ends-with ----------------------

def two_strings(S, ex):
    return [S.str('s'), S.str('t')]


def str2_samples(rng):
    for s in STRS:
        for t in ['', 'a', 'b', 'ab', 'bc', 'c', '\U0001F600', 'e', '́', ' ', 'aa', 'motor', 'car']:
            yield {'s': s, 't': t}


def str2_native(version, expr):
    return lambda i: eval_native(version, expr, s=i['s'], t=i['t'])


def first_occurrence(s, t, i):
    """i is the position of the first occurrence of t in s (0-based), or -1 if there is none"""
    return i == s.find(t)


for version in ('1.0', '2.0'):
    v = version.replace('.', '')
    for sym in ('substring-before', 'substring-after'):
        spec = "s[:s.find(t)]" if sym == 'substring-before' else "s[s.find(t) + len(t):]"
        CONTRACTS.append(Contract(
            f'{sym}.v{v}', 'C09', token_method(version, sym, 'evaluate'),
            args_case(version, sym, two_strings, 2),
            post=[
                ('value', f"returned and result == ({spec} if t in s else '')"),
                ('prefix_or_suffix_of_s', "returned and (s.startswith(result) if %s else s.endswith(result))"
                 % (sym == 'substring-before')),
            ],
            inline=INLINE, native=str2_native(version, f'{sym}($s, $t)'), samples=str2_samples, timeout_s=20))
    for sym, spec in (('contains', 't in s'), ('starts-with', 's.startswith(t)')) + \
            ((('ends-with', 's.endswith(t)'),) if version != '1.0' else ()):
        CONTRACTS.append(Contract(
            f'{sym}.v{v}', 'C09', token_method(version, sym, 'evaluate'),
            args_case(version, sym, two_strings, 2),
            post=[('value', f"returned and result == ({spec})")],
            inline=INLINE, native=str2_native(version, f'{sym}($s, $t)'), samples=str2_samples, timeout_s=20))


# concat(substring-before(s,t), t, substring-after(s,t)) = s whenever contains(s,t):
# a lemma over the two real evaluators (inlined, binding-checked).

def lemma_concat_identity_v1(tok_before, tok_after, ctx, t):
    return F1.evaluate__substring_before_or_after_functions(tok_before, ctx) + t + \
        F1.evaluate__substring_before_or_after_functions(tok_after, ctx)


def lemma_concat_identity_v2(tok_before, tok_after, ctx, t):
    return F2.evaluate__substring_functions(tok_before, ctx) + t + \
        F2.evaluate__substring_functions(tok_after, ctx)


def identity_case(version):
    def setup(S, ex):
        s, t = S.str('s'), S.str('t')
        inner = args_case(version, 'substring-before', lambda S2, ex2: [s, t], 2)(S, ex)
        tb = inner.args[0]
        ta = mk_token(version, 'substring-after', parser=tb.fields['parser'], nitems=2, context=NONE)
        inner.hooks[('len', ta.pycls.__name__)] = lambda ex, v: VInt(2)
        return Case([tb, ta, inner.args[1], t], hooks=inner.hooks)
    return setup


for version, lem in (('1.0', lemma_concat_identity_v1), ('2.0', lemma_concat_identity_v2)):
    CONTRACTS.append(Contract(
        f'concat_identity.v{version.replace(".", "")}', 'C09', (lambda lem=lem: lem), identity_case(version),
        post=[('before_t_after_is_s', "t not in s or (returned and result == s)")],
        inline=INLINE, lemma=True,
        native=lambda i, version=version: eval_native(
            version, 'concat(substring-before($s,$t), $t, substring-after($s,$t))', s=i['s'], t=i['t']),
        samples=str2_samples, timeout_s=30))

# string-length
for version in ('1.0', '2.0'):
    CONTRACTS.append(Contract(
        f'string-length.v{version.replace(".", "")}', 'C09', token_method(version, 'string-length', 'evaluate'),
        args_case(version, 'string-length', lambda S, ex: [S.str('s')], 1),
        post=[('code_point_count', "returned and result == len(s)")],
        native=lambda i, version=version: eval_native(version, 'string-length($s)', s=i['s']),
        samples=lambda rng: ({'s': s} for s in STRS)))


# ---- bounded stand-ins: functions outside the solver's reach (labelled bounded) -----------------
import itertools          # noqa: E402
from fractions import Fraction    # noqa: E402

ALPHA = ['a', 'b', 'A', '1', ' ', '\t', '\n', ' ', ' ', '\U0001F600', 'é'[1], 'é', '%', '/', "'", '-']


def spec_translate(arg, m, t):
    out = []
    for ch in arg:
        i = m.find(ch)          # first occurrence wins (F&O 5.4.9)
        if i < 0:
            out.append(ch)
        elif i < len(t):
            out.append(t[i])
    return ''.join(out)


def spec_normalize_space(s):
    ws = ' \t\n\r'               # XML whitespace only (F&O 5.4.5 -> XML S production)
    words, cur = [], ''
    for ch in s:
        if ch in ws:
            if cur:
                words.append(cur)
            cur = ''
        else:
            cur += ch
    if cur:
        words.append(cur)
    return ' '.join(words)


def spec_pct(s, keep):
    return ''.join(ch if keep(ch) else ''.join('%%%02X' % b for b in ch.encode('utf-8')) for ch in s)


UNRESERVED = set('ABCDEFGHIJKLMNOPQRSTUVWXYZabcdefghijklmnopqrstuvwxyz0123456789-_.~')
IRI_ESCAPED_ASCII = set('<>" {}|\\^`')


def spec_decimal_string(d):
    """xs:decimal -> xs:string (F&O 19.1.2.3... canonical form: no exponent, no trailing zeros)"""
    fr = Fraction(d)
    sign = '-' if fr < 0 else ''
    fr = abs(fr)
    ip = fr.numerator // fr.denominator
    rest = fr - ip
    digits = ''
    while rest:
        rest *= 10
        dgt = rest.numerator // rest.denominator
        digits += str(dgt)
        rest -= dgt
    return sign + str(ip) + ('.' + digits if digits else '')


def _strings(n, alphabet):
    for k in range(n + 1):
        for tup in itertools.product(alphabet, repeat=k):
            yield ''.join(tup)


def bounded_strings(tier, seed):
    n = 3 if tier == 'quick' else 4
    small = ['a', 'b', ' ', '\t', ' ', '\U0001F600']
    fails, evals, seen = [], 0, set()

    def check(expr, want, **vars_):
        nonlocal evals
        evals += 1
        got = eval_native('2.0', expr, **vars_)
        ok = got[0] == 'return' and got[1] == want and type(got[1]) is type(want)
        if not ok and len(fails) < 40:
            fails.append({'key': f'{expr}|{vars_!r}', 'what': f'{expr} with {vars_!r}: got {got!r}, F&O value {want!r}'})
    # translate: all (arg, map, trans) over a 3-letter alphabet, lengths <= 3 (incl. duplicates in map)
    for arg in _strings(2, 'abc'):
        for m in _strings(3, 'abc'):
            for t in _strings(3, 'xya'):
                seen.add(('translate', len(arg), len(m), len(t), len(set(m)) < len(m)))
                check('translate($s, $m, $t)', spec_translate(arg, m, t), s=arg, m=m, t=t)
    for s in _strings(n, small):
        seen.add(('normalize-space', len(s), tuple(sorted(set(s)))))
        check('normalize-space($s)', spec_normalize_space(s), s=s)
    for s in _strings(2, ALPHA):
        seen.add(('uri', tuple(sorted(set(s)))))
        check('encode-for-uri($s)', spec_pct(s, lambda c: c in UNRESERVED), s=s)
        check('iri-to-uri($s)', spec_pct(s, lambda c: '\x21' <= c <= '\x7e' and c not in IRI_ESCAPED_ASCII), s=s)
        check('escape-html-uri($s)', spec_pct(s, lambda c: '\x20' <= c <= '\x7e'), s=s)
        check('string-to-codepoints($s)', [ord(c) for c in s] if len(s) != 1 else ord(s), s=s) if False else None
        check('codepoints-to-string(string-to-codepoints($s))', s, s=s)
        check('string-length($s)', len(s), s=s)
    for a in _strings(2, ['a', 'b', 'é', '\U0001F600']):
        for b in _strings(2, ['a', 'b', 'é', '\U0001F600']):
            seen.add(('compare', len(a), len(b)))
            check('compare($a, $b)', (a > b) - (a < b), a=a, b=b)
            check('codepoint-equal($a, $b)', a == b, a=a, b=b)
    for d in ['0', '1', '10', '100', '1000', '-100', '0.5', '100.50', '10.0', '-0.001', '1E+2', '1E+3', '12345678901234567890.5',
              '0.000001', '1000000', '-120', '1.10', '20', '3E+1']:
        seen.add(('decimal-string', d))
        check('string($d)', spec_decimal_string(decimal.Decimal(d)), d=decimal.Decimal(d))
        check('concat($d, "px")', spec_decimal_string(decimal.Decimal(d)) + 'px', d=decimal.Decimal(d))
    return {'evaluations': evals, 'distinct': len(seen), 'failures': fails, 'n_failures': len(fails),
            'scope': f'translate: all args<=2,map<=3,trans<=3 over 3 letters; normalize-space: all strings <= {n} over '
                     f'{small!r}; URI escaping/codepoints/string-length: all strings <= 2 over {len(ALPHA)} characters; '
                     'compare/codepoint-equal: all pairs <= 2 over 4 characters; decimal->string on 19 values; '
                     'oracles written from F&O 5.3-5.4, 6.x',
            'rule': 'distinct = (function, lengths / character-set class of the arguments)'}


BOUNDED = [Bounded('string_functions_small_scope', bounded_strings)]

NOT_DECIDED = [
    'upper-case/lower-case (Unicode case tables live in CPython)',
    'agreement with libxml2 (external oracle)',
    'locale-dependent collations (strcoll/strxfrm in libc)',
    'translate, normalize-space, URI escaping, compare, codepoint functions: bounded stand-in only',
]
