"""Bounded stand-ins and finite (ground) obligation sets: run-time contracts over an
enumerated scope.  Reported separately, never counted as proved (GROUND sets that are
enumerated completely are marked exhaustive)."""
from __future__ import annotations


class Bounded:
    def __init__(self, bid, run, replay=None):
        self.id = bid
        self._run = run
        self._replay = replay

    def run(self, tier, seed):
        r = self._run(tier, seed)
        r.setdefault('failures', [])
        r.setdefault('status', 'ok')
        return r

    def replay(self, payload) -> bool:
        """True if the recorded failure no longer fails."""
        if self._replay is None:
            return False
        return self._replay(payload['failure'])
