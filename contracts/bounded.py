"""Bounded stand-ins and finite (ground) obligation sets: run-time contracts over an
enumerated scope.  Reported separately, never counted as proved (GROUND sets that are
enumerated completely are marked exhaustive)."""
from __future__ import annotations


class Bounded:
    def __init__(self, bid, run, replay=None):
        self.id = bid
        self._run = run
        self._replay = replay

    def run(self, tier, seed):
        r = self._run(tier, seed)
        r.setdefault('failures', [])
        r.setdefault('status', 'ok')
        return r

    def replay(self, payload) -> bool:
        """True if the recorded failure no longer fails."""
        if self._replay is None:
            return False
        return self._replay(payload['failure'])


def run_isolated(func, tier, seed, timeout_s, what):
    """Run `func(tier, seed)` in a forked child and return its result dictionary.  For checks whose subject can leave process-wide state behind (a lock held
    by a finished thread, a switched locale): the pool re-uses worker processes, so such a leftover would block or distort every later check of the same worker.
    A child that does not answer within `timeout_s` is killed and reported as a failure of the property (the evaluation under test blocks), not as a checker error."""
    import json, os, select, signal, time
    r_fd, w_fd = os.pipe()
    pid = os.fork()
    if pid == 0:                                    # child
        try:
            os.close(r_fd)
            try:
                out = func(tier, seed)
            except BaseException as e:              # noqa - the parent turns this into a checker error
                out = {'status': 'error', 'error': f'{type(e).__name__}: {e}', 'failures': []}
            data = json.dumps(out, default=repr).encode()
            with os.fdopen(w_fd, 'wb') as f:
                f.write(data)
        finally:
            os._exit(0)
    os.close(w_fd)
    chunks, deadline = [], time.time() + timeout_s
    with os.fdopen(r_fd, 'rb') as f:
        while True:
            left = deadline - time.time()
            if left <= 0:
                break
            ready, _, _ = select.select([f], [], [], min(left, 1.0))
            if ready:
                b = os.read(f.fileno(), 1 << 16)
                if not b:
                    break
                chunks.append(b)
    data = b''.join(chunks)
    timed_out = time.time() >= deadline and not data
    try:
        if timed_out:
            os.kill(pid, signal.SIGKILL)
        os.waitpid(pid, 0)
    except (ChildProcessError, ProcessLookupError):
        pass
    if timed_out or not data:
        return {'evaluations': 0, 'distinct': 0, 'failures': [{'key': f'{what}: the check did not complete within {timeout_s} s',
                                                               'what': f'{what}: an evaluation blocks (typically a lock left held by an earlier evaluation); the isolated '
                                                               f'child process was killed after {timeout_s} s'}], 'scope': what}
    out = json.loads(data.decode())
    if out.get('status') == 'error':
        raise RuntimeError(out.get('error'))
    return out
