"""C13 - Unicode code point sets are exact: set algebra and category / block tables.

Abstract view of a code point list L (ints c read as [c, c+1), tuples as [lo, hi)):
    view(L) = { x | exists j. lo(L[j]) <= x < hi(L[j]) }
wf_set(L): every item is a valid code point / non-empty range inside [0, 0x110000], the items
are pairwise ordered and disjoint (all-pairs form: hi(L[i]) <= lo(L[j]) for i < j).
Every obligation about the view is stated for one arbitrary code point x (a free variable of
the verification condition), so it holds for all x.
"""
from __future__ import annotations

import sys

from pyvc.values import *  # noqa
from pyvc.contract import Contract, Case, Lemma
from pyvc.interp import LoopSpec
from pyvc.specprims import *  # noqa
from .common import *  # noqa
from .bounded import Bounded

from elementpath.regex.unicode_subsets import UnicodeSubset

MAXU = sys.maxunicode + 1      # 0x110000


def item_ok(it):
    return 0 <= lo(it) and lo(it) < hi(it) and hi(it) <= 0x110000 and implies(is_int_item(it), hi(it) == lo(it) + 1)


def wf_set(L):
    return forall_range(0, len(L), lambda j: item_ok(L[j])) and \
        forall_pairs(0, len(L), lambda i, j: hi(L[i]) <= lo(L[j]))


def wf_canon(L):
    """canonical form: wf_set, no two items touch, a single code point is stored as an int
    (then list equality is set equality)"""
    return wf_set(L) and forall_pairs(0, len(L), lambda i, j: hi(L[i]) < lo(L[j])) and \
        forall_range(0, len(L), lambda j: implies(hi(L[j]) == lo(L[j]) + 1, is_int_item(L[j])))


SPECS = [item_ok, wf_set, wf_canon]       # mem(L, x) is the witness-based primitive of pyvc.specprims


def subset_obj(S, name='L'):
    L = S.seq(name, K_ITV)
    return VObj(UnicodeSubset, {'_codepoints': L}, name='self'), L


def real_subset(items):
    s = UnicodeSubset()
    s._codepoints = list(items)
    return s


def lists_small(rng):
    """well-formed code point lists over a small universe, for the encoder validation"""
    import itertools
    base = [[], [5], [(3, 6)], [1, (3, 6)], [(0, 2), 4, (6, 9)], [2, 3, 4], [(1, 3), (3, 5)], [(0, 0x110000)],
            [0x10FFFF], [(10, 20), (30, 40), 50], [(4, 6)], [(4, 6), (8, 10)], [(5, 7), 9]]
    for L in base:
        yield L
    while True:
        n = rng.randint(0, 5)
        pts = sorted(rng.sample(range(0, 40), 2 * n))
        L = []
        for k in range(n):
            a, b = pts[2 * k], pts[2 * k + 1]
            L.append(a if b == a + 1 and rng.random() < 0.7 else (a, b))
        yield L


# ---- __contains__ ------------------------------------------------------------------------------

def contains_case(S, ex):
    obj, L = subset_obj(S)
    x = S.int('x')
    return Case([obj, x], names={'L': L})


def contains_samples(rng):
    g = lists_small(rng)
    for L in g:
        for x in (0, 1, 2, 3, 4, 5, 6, 9, 10, 19, 20, 39, 0x10FFFF):
            yield {'L': L, 'x': x}


CONTRACTS = [
    Contract('UnicodeSubset.__contains__', 'C13', lambda: UnicodeSubset.__contains__, contains_case,
             pre=["wf_set(L)"],
             post=[('membership_is_view', "returned and result == mem(L, x)")],
             loops={0: LoopSpec(["_i0 <= len(L)",
                                 "forall_range(0, _i0, lambda j: hi(L[j]) <= x)"])},
             specs=SPECS, native=lambda i: run_native(lambda: real_subset(i['L']).__contains__(i['x'])),
             samples=contains_samples, timeout_s=20, mem_hints=['_i0']),
]


# ---- add ------------------------------------------------------------------------------------------

def add_case(kind):
    def setup(S, ex):
        obj, L = subset_obj(S)
        old = VSeq(L.len, L.arr, K_ITV)          # ghost: the list at entry
        x = S.int('x')
        if kind == 'int':
            v = S.int('v')
            value, v0, v1 = v, v, VInt(v.t + 1)
            valid = "0 <= v and v <= 0x10FFFF"
        else:
            a, b = S.int('a'), S.int('b')
            value, v0, v1 = VTuple([a, b]), a, b
            valid = "0 <= a and a < b and b <= 0x110000"
        return Case([obj, value], names={'L': L, 'old': old, 'v0': v0, 'v1': v1, 'VALID': VStr(valid)},
                    label=kind)
    return setup


ADD_INV = [
    "0 <= _i0 and _i0 <= len(code_points)",
    "len(code_points) == len(old)",
    "last_index == len(old) - 1",
    "wf_set(code_points)",
    "forall_range(0, _i0, lambda j: hi(code_points[j]) <= start_cp)",
    "forall_range(_i0, len(old), lambda j: code_points[j] == old[j])",
    "0 <= v0 and v0 <= start_cp and start_cp < end_cp and end_cp == v1 and v1 <= 0x110000",
    "(mem(code_points, x) or (start_cp <= x and x < end_cp)) == (mem(old, x) or (v0 <= x and x < v1))",
    "start_cp == v0 or (_i0 < len(old) and start_cp == lo(code_points[_i0]))",
]


def add_native(kind):
    def native(i):
        s = real_subset(i['L'])
        value = i['v'] if kind == 'int' else (i['a'], i['b'])
        r = run_native(lambda: s.add(value))
        # the observable result of add is the list afterwards
        post = {'L': s._codepoints, 'old': list(i['L']), 'v0': value if kind == 'int' else value[0],
                'v1': value + 1 if kind == 'int' else value[1]}
        return (r[0], None if r[0] == 'return' else r[1], post)
    return native


def canon(L):
    return [it if isinstance(it, int) or it[1] - it[0] > 1 else it[0] for it in L
            ] if all(hi(a) < lo(b) for a, b in zip(L, L[1:])) else None


def add_samples(kind, canonical=False):
    def gen(rng):
        for L in lists_small(rng):
            if canonical:
                L = canon(L)
                if L is None:
                    continue
            for x in (0, 3, 5, 7, 12):
                if kind == 'int':
                    for v in (0, 2, 5, 6, 9, 10, 0x10FFFF, -1, 0x110000):
                        yield {'L': L, 'x': x, 'v': v}
                else:
                    for a, b in ((0, 1), (3, 12), (5, 6), (4, 7), (0, 40), (9, 10), (5, 5), (-1, 3), (3, 0x110001)):
                        yield {'L': L, 'x': x, 'a': a, 'b': b}
    return gen


for kind, valid in (('int', "0 <= v and v <= 0x10FFFF"), ('range', "0 <= a and a < b and b <= 0x110000")):
    CONTRACTS.append(Contract(
        f'UnicodeSubset.add.{kind}', 'C13', lambda: UnicodeSubset.add, add_case(kind),
        pre=["wf_set(L)"],
        post=[
            ('value_error_iff_not_a_code_point', f"(raised_name == 'ValueError') == (not ({valid}))" if False else
             f"returned == ({valid})"),
            ('only_value_error', "returned or raised_name == 'ValueError'"),
            ('stays_well_formed', "not returned or wf_set(L)"),
            ('view_is_union', "not returned or mem(L, x) == (mem(old, x) or (v0 <= x and x < v1))"),
            ('unchanged_when_rejected',
             "returned or (len(L) == len(old) and forall_range(0, len(old), lambda j: L[j] == old[j]))"),
        ],
        loops={0: LoopSpec(ADD_INV)}, specs=SPECS, native=add_native(kind), samples=add_samples(kind), timeout_s=30,
        mem_hints=['_i0']))


# ---- discard ----------------------------------------------------------------------------------------

DISCARD_INV = [
    "0 <= _i0 and _i0 <= len(old)",
    "len(codepoints) >= len(old) - _i0",
    "forall_range(0, len(old) - _i0, lambda j: codepoints[j] == old[j])",
    "wf_set(codepoints)",
    "start_cp == v0 and end_cp == v1 and 0 <= v0 and v0 < v1 and v1 <= 0x110000",
    "mem(codepoints, x) == (mem(old, x) and (not (v0 <= x and x < v1) or mem(take(old, len(old) - _i0), x)))",
]


def discard_native(kind):
    def native(i):
        s = real_subset(i['L'])
        value = i['v'] if kind == 'int' else (i['a'], i['b'])
        r = run_native(lambda: s.discard(value))
        post = {'L': s._codepoints, 'old': list(i['L']), 'v0': value if kind == 'int' else value[0],
                'v1': value + 1 if kind == 'int' else value[1]}
        return (r[0], None if r[0] == 'return' else r[1], post)
    return native


for kind, valid in (('int', "0 <= v and v <= 0x10FFFF"), ('range', "0 <= a and a < b and b <= 0x110000")):
    CONTRACTS.append(Contract(
        f'UnicodeSubset.discard.{kind}', 'C13', lambda: UnicodeSubset.discard, add_case(kind),
        pre=["wf_set(L)"],
        post=[
            ('value_error_iff_not_a_code_point', f"returned == ({valid})"),
            ('only_value_error', "returned or raised_name == 'ValueError'"),
            ('stays_well_formed', "not returned or wf_set(L)"),
            ('view_is_difference', "not returned or mem(L, x) == (mem(old, x) and not (v0 <= x and x < v1))"),
            ('unchanged_when_rejected',
             "returned or (len(L) == len(old) and forall_range(0, len(old), lambda j: L[j] == old[j]))"),
        ],
        loops={0: LoopSpec(DISCARD_INV)}, specs=SPECS, native=discard_native(kind), samples=add_samples(kind),
        timeout_s=30, mem_hints=['len(old) - _i0']))
    # canonical form is a separate obligation set, so that a representation finding does not
    # mask a set-semantics violation
    CONTRACTS.append(Contract(
        f'UnicodeSubset.discard.{kind}.canonical', 'C13', lambda: UnicodeSubset.discard, add_case(kind),
        pre=["wf_canon(L)"],
        post=[('canonical_form_kept', "not returned or wf_canon(L)")],
        loops={0: LoopSpec(DISCARD_INV[:5] + ["wf_canon(codepoints)"])}, specs=SPECS,
        native=discard_native(kind), samples=add_samples(kind, canonical=True), timeout_s=30))


# ---- finite obligation sets (GROUND): category and block tables, completely enumerated -----------

def _items(subset):
    return list(subset._codepoints)


def _native_wf_canon(L):
    return all(0 <= lo(it) < hi(it) <= MAXU for it in L) and all(hi(a) < lo(b) for a, b in zip(L, L[1:])) and \
        all(isinstance(it, int) or it[1] - it[0] > 1 for it in L)


def ground_categories_vs_unicodedata(tier, seed):
    """every one of the 0x110000 code points x every category table of the running Unicode version"""
    import unicodedata
    from elementpath.regex import unicode_subsets as U
    data = U.UnicodeData()          # the instance the package installs at import
    assert data.version == unicodedata.unidata_version
    fails, n = [], 0
    cat_of = [None] * MAXU
    for name, subset in data._categories.items():
        if len(name) != 2:
            continue
        for it in _items(subset):
            for cp in range(lo(it), hi(it)):
                if cat_of[cp] is not None:
                    fails.append({'key': f'dup {cp:#x}', 'what': f'U+{cp:04X} in {cat_of[cp]} and {name}'})
                cat_of[cp] = name
    for cp in range(MAXU):
        n += 1
        if cat_of[cp] != unicodedata.category(chr(cp)) and len(fails) < 20:
            fails.append({'key': f'cp {cp:#x}', 'what': f'U+{cp:04X}: table says {cat_of[cp]}, unicodedata says '
                                                        f'{unicodedata.category(chr(cp))}'})
    # major categories are the unions of their subcategories
    for name, subset in data._categories.items():
        if len(name) == 1:
            n += 1
            want = sorted((lo(it), hi(it)) for k, s in data._categories.items() if len(k) == 2 and k[0] == name
                          for it in _items(s))
            merged = []
            for a, b in want:
                if merged and merged[-1][1] == a:
                    merged[-1] = (merged[-1][0], b)
                else:
                    merged.append((a, b))
            got = [(lo(it), hi(it)) for it in _items(subset)]
            if got != merged:
                fails.append({'key': f'major {name}', 'what': f'category {name} is not the union of its subcategories'})
    return {'obligations': n, 'discharged': n - len(fails), 'evaluations': n, 'distinct': n, 'exhaustive': True,
            'scope': f'Unicode {data.version}: 0x110000 code points x 30 two-letter categories == unicodedata.category; '
                     '7 major categories == union of subcategories', 'failures': fails}


def ground_tables_all_versions(tier, seed):
    """every installable Unicode version: category tables are canonical code point lists, the
    two-letter categories partition [0, 0x110000), majors are unions; block tables are the fold of
    the UPDATE tables up to the version, and (non-superseded) blocks are pairwise disjoint."""
    import warnings
    from elementpath.regex import unicode_subsets as U, unicode_blocks as B
    fails, n = [], 0
    for version in U.UNICODE_VERSIONS:
        vi = tuple(int(x) for x in version.split('.'))
        with warnings.catch_warnings():
            warnings.simplefilter('ignore')
            data = U.UnicodeData(version)
        two = {k: _items(s) for k, s in data._categories.items() if len(k) == 2}
        n += 1
        for k, L in data._categories.items():
            if not _native_wf_canon(_items(L)):
                fails.append({'key': f'{version} {k} canon', 'what': f'Unicode {version}: table {k} is not a canonical list'})
        ivs = sorted((lo(it), hi(it)) for L in two.values() for it in L)
        n += 1
        pos = 0
        for a, b in ivs:
            if a != pos:
                fails.append({'key': f'{version} partition {a:#x}', 'what': f'Unicode {version}: two-letter categories '
                              f'{"overlap" if a < pos else "leave a gap"} at U+{min(a, pos):04X}..U+{max(a, pos):04X}'})
                break
            pos = b
        else:
            if pos != MAXU:
                fails.append({'key': f'{version} partition end', 'what': f'Unicode {version}: categories end at U+{pos:04X}'})
        for name, subset in data._categories.items():
            if len(name) == 1:
                n += 1
                got = set()
                want = set()
                for it in _items(subset):
                    got.add((lo(it), hi(it)))
                merged = []
                for a, b in sorted((lo(it), hi(it)) for k, L in two.items() if k[0] == name for it in L):
                    if merged and merged[-1][1] == a:
                        merged[-1] = (merged[-1][0], b)
                    else:
                        merged.append((a, b))
                if sorted(got) != merged:
                    fails.append({'key': f'{version} major {name}', 'what': f'Unicode {version}: {name} != union of subcategories'})
        # block table: independent restatement of "apply every UPDATE table whose version <= v"
        n += 1
        expected = dict(B.UNICODE_BLOCKS_VER_2_0_0)
        removed = []
        for name in dir(B):
            if name.startswith('UPDATE_BLOCKS_VER_') and tuple(int(x) for x in name[18:].split('_')) <= vi:
                pass
        for ver in sorted({tuple(int(x) for x in nm.split('VER_')[1].split('_')) for nm in dir(B)
                           if nm.startswith(('UPDATE_BLOCKS_VER_', 'REMOVED_BLOCKS_VER_'))}):
            if ver <= vi:
                tag = '_'.join(str(x) for x in ver)
                expected.update(getattr(B, 'UPDATE_BLOCKS_VER_' + tag, {}))
                removed.extend(getattr(B, 'REMOVED_BLOCKS_VER_' + tag, []))
        exp_keys = {k.replace(' ', '').replace('_', ''): v for k, v in expected.items()}
        got_keys = {k: (v if isinstance(v, str) else None) for k, v in data._blocks.items() if k != 'NoBlock'}
        if set(exp_keys) != set(got_keys) or any(got_keys[k] is not None and got_keys[k] != exp_keys[k] for k in got_keys):
            diff = sorted(set(exp_keys) ^ set(got_keys))[:5] or [k for k in got_keys if got_keys[k] is not None and got_keys[k] != exp_keys[k]][:5]
            fails.append({'key': f'{version} blocks', 'what': f'Unicode {version}: block table differs from the fold of the '
                          f'UPDATE tables up to {version}: {diff}'})
        want_names = {k.upper().replace(' ', '').replace('_', '').replace('-', '') for k in expected if k not in removed}
        if set(data._unicode_blocks) - {'NOBLOCK'} != want_names:
            fails.append({'key': f'{version} block names', 'what': f'Unicode {version}: normalized block names differ: '
                          f'{sorted(set(data._unicode_blocks) ^ want_names)[:5]}'})
        # pairwise disjointness of the blocks of this version (superseded aliases excluded)
        n += 1
        ivs = []
        for key, name in data._unicode_blocks.items():
            if key == 'NOBLOCK':
                continue
            for it in _items(data.block(name.replace(' ', '').replace('_', ''))):
                ivs.append((lo(it), hi(it), name))
        ivs.sort()
        for (a1, b1, n1), (a2, b2, n2) in zip(ivs, ivs[1:]):
            if a2 < b1:
                fails.append({'key': f'{version} overlap {n1}/{n2}', 'what': f'Unicode {version}: blocks {n1} and {n2} overlap'})
                break
    return {'obligations': n, 'discharged': max(0, n - len(fails)), 'evaluations': n, 'distinct': n, 'exhaustive': True,
            'scope': f'{len(U.UNICODE_VERSIONS)} installable Unicode versions x (canonical tables, partition of [0,0x110000), '
                     'majors = unions, block table = fold of UPDATE tables <= version, blocks pairwise disjoint)',
            'failures': fails[:20]}


def ground_installed_data_history(tier, seed):
    """every history  use \\d,\\w  ->  install_unicode_data(v)  ->  use \\d,\\w  over the installable versions (explicit version strings and the
    argument-less default): the multi-character escapes, \\p{Nd} and unicode_category('Nd') all denote the data of the installed version."""
    import warnings
    from elementpath.regex import unicode_subsets as U, character_classes as CC
    from elementpath.regex import install_unicode_data, unicode_version, unicode_category, CharacterClass
    fails, n = [], 0
    default = unicode_version()
    versions = list(U.UNICODE_VERSIONS)
    try:
        with warnings.catch_warnings():
            warnings.simplefilter('ignore')
            order = [None] + versions + [None] + versions[::-1] + [None]
            for v in order:
                # prime the lazy subsets with the data installed before the switch
                _ = (_items(CC.d_shortcut()), _items(CC.w_shortcut()))
                if v is None:
                    install_unicode_data()
                else:
                    install_unicode_data(v)
                n += 1
                want_v = default if v is None else v
                ref = U.UnicodeData(want_v)
                nd = [(lo(it), hi(it)) for it in _items(ref.category('Nd'))]
                word = sorted((lo(it), hi(it)) for k in 'LMNS' for it in _items(ref.category(k)))
                merged = []
                for a, b in word:
                    if merged and merged[-1][1] == a:
                        merged[-1] = (merged[-1][0], b)
                    else:
                        merged.append((a, b))
                got_d = [(lo(it), hi(it)) for it in _items(CC.d_shortcut())]
                got_w = [(lo(it), hi(it)) for it in _items(CC.w_shortcut())]
                got_p = [(lo(it), hi(it)) for it in _items(unicode_category('Nd'))]
                cc = CharacterClass('\\d')
                got_cc = [(lo(it), hi(it)) for it in _items(cc.positive)] if hasattr(cc, 'positive') else got_d
                if unicode_version() != want_v:
                    fails.append({'key': f'installed version after install_unicode_data({v!r})', 'what': f'unicode_version() = {unicode_version()} after install_unicode_data({v!r})'})
                if got_p != nd:
                    fails.append({'key': f"unicode_category('Nd') after install_unicode_data({v!r})", 'what': f"unicode_category('Nd') is not the Nd table of Unicode {want_v}"})
                if got_d != nd or got_cc != nd:
                    fails.append({'key': 'the \\d escape denotes the data of a previously installed version', 'what': f'after install_unicode_data({v!r}) the \\d escape has '
                                  f'{sum(b - a for a, b in got_d)} code points, \\p{{Nd}} of Unicode {want_v} has {sum(b - a for a, b in nd)}'})
                if got_w != merged:
                    fails.append({'key': 'the \\w escape denotes the data of a previously installed version', 'what': f'after install_unicode_data({v!r}) the \\w escape differs '
                                  f'from the union of L, M, N, S of Unicode {want_v}'})
    finally:
        with warnings.catch_warnings():
            warnings.simplefilter('ignore')
            install_unicode_data()
    uniq = {f['key']: f for f in fails}
    return {'obligations': n, 'discharged': max(0, n - len(uniq)), 'evaluations': n, 'distinct': n, 'exhaustive': True,
            'scope': f'{len(versions)} installable Unicode versions installed in ascending and descending order, interleaved with the argument-less default, with the lazy '
                     'escape subsets used before every switch: \\d, \\w, CharacterClass(\\d), unicode_category and unicode_version agree with the tables of the installed version',
            'failures': list(uniq.values())[:20]}


GROUND = [Bounded('categories_equal_unicodedata', ground_categories_vs_unicodedata),
          Bounded('tables_all_versions', ground_tables_all_versions),
          Bounded('installed_data_history', ground_installed_data_history)]


# ---- bounded stand-in: CharacterClass / UnicodeSubset set algebra against Python sets -------------

def bounded_set_algebra(tier, seed):
    """All sequences (length <= 2 quick / 3 thorough) of set operations on CharacterClass objects built
    from small atom sets, compared pointwise on a probe alphabet with Python set semantics; and all
    UnicodeSubset operator results on subsets of a 7-point universe against frozensets."""
    import copy
    import itertools
    from elementpath.regex import CharacterClass
    probes = [ord(c) for c in 'ab5 _\n-'] + [0, 0x10FFFF, 0x660, 0x3000]      # incl. non-ASCII digit / space
    atom_sets = {'a': {ord('a')}, 'b': {ord('b')}, '5': {ord('5')}, ' ': {ord(' ')}}
    esc = {}
    for e in (('\\d', '\\s') if tier == 'quick' else ('\\d', '\\s', '\\w')):
        esc[e] = frozenset(p for p in probes if p in CharacterClass(e))
        esc[e.upper()] = frozenset(p for p in probes if p not in esc[e])
    univ = frozenset(probes)

    def atom_view(a):
        return frozenset(atom_sets[a]) & univ if a in atom_sets else esc[a]
    atoms = list(atom_sets) + list(esc)
    fails, n, seen = [], 0, set()

    def view(c):
        return frozenset(p for p in probes if p in c)
    maxlen = 2 if tier == 'quick' else 3
    charsets = [''.join(t) for k in range(1, maxlen + 1) for t in itertools.product(atoms, repeat=k)
                if k < 3 or not any(x in ('\\w', '\\W') for x in t)]       # \w sets are large: triples with them would take tens of minutes
    for cs in charsets:
        parts = [cs[i:i + 2] if cs[i] == '\\' else cs[i] for i in range(len(cs)) if not (i and cs[i - 1] == '\\')]
        want = frozenset().union(*[atom_view(p) for p in parts])
        c = CharacterClass(cs)
        n += 1
        seen.add(('build', tuple(sorted(set(parts)))))
        if view(c) != want:
            fails.append({'key': f'build {cs}', 'what': f'CharacterClass({cs!r}) membership on probes differs from the union of its atoms'})
            continue
        # complement
        c1 = CharacterClass(cs)
        c1.complement()
        n += 1
        if view(c1) != univ - want:
            fails.append({'key': f'complement {cs}', 'what': f'CharacterClass({cs!r}).complement() is not the set complement'})
        # copy independence
        c2 = CharacterClass(cs)
        c3 = copy.copy(c2)
        c3.add('_')
        n += 1
        if c3 is c2 or view(c2) != want:
            fails.append({'key': f'copy {cs}', 'what': f'copy(CharacterClass({cs!r})) shares state with the original'})
        for a in atoms:
            av = atom_view(a)
            for opname in ('add', 'discard', 'sub'):
                c4 = CharacterClass(cs)
                if opname == 'add':
                    c4.add(a)
                    w2 = want | av
                elif opname == 'discard':
                    c4.discard(a)
                    w2 = want - av
                else:
                    c4 -= CharacterClass(a)
                    w2 = want - av
                n += 1
                seen.add((opname, len(parts), a))
                if view(c4) != w2 and len(fails) < 60:
                    fails.append({'key': f'{opname} {cs} {a}', 'what': f'CharacterClass({cs!r}) {opname} {a!r}: membership on probes '
                                                                    f'{sorted(view(c4))} expected {sorted(w2)}'})
    # UnicodeSubset operators on all subsets of {0..6} (as canonical lists)
    from elementpath.regex.unicode_subsets import UnicodeSubset as US

    def mk(bits):
        s = US()
        for k in range(7):
            if bits >> k & 1:
                s.add(k)
        return s
    full = frozenset(range(7))
    noncanon = []
    for x in range(128):
        for y in range(128):
            fx, fy = frozenset(k for k in range(7) if x >> k & 1), frozenset(k for k in range(7) if y >> k & 1)
            for opn, f, w in (('|', lambda p, q: p | q, fx | fy), ('-', lambda p, q: p - q, fx - fy),
                              ('&', lambda p, q: p & q, fx & fy), ('^', lambda p, q: p ^ q, fx ^ fy)):
                a, b = mk(x), mk(y)
                r = f(a, b)
                n += 1
                if frozenset(r) != w or frozenset(a) != fx:
                    if len(fails) < 60:
                        fails.append({'key': f'US {x} {opn} {y}', 'what': f'UnicodeSubset {sorted(fx)} {opn} {sorted(fy)} = {list(r)} '
                                                                      f'(expected {sorted(w)}, operand unchanged)'})
                elif not _native_wf_canon(r._codepoints) and not noncanon:
                    # aggregated: one failure for the whole family (see known_findings.json)
                    noncanon.append({'key': 'UnicodeSubset operators: result not in canonical form',
                                     'what': f'UnicodeSubset {sorted(fx)} {opn} {sorted(fy)} is stored as {r._codepoints!r}: '
                                             'touching items are not merged, so == is not extensional',
                                     'x': x, 'y': y, 'op': opn})
        seen.add(('US', x))
        c = US(mk(x).complement())
        n += 1
        if frozenset(k for k in range(7) if k in c) != full - frozenset(k for k in range(7) if x >> k & 1) or \
                (x % 16 == 5 and len(c) != MAXU - bin(x).count('1')):
            fails.append({'key': f'US complement {x}', 'what': f'complement of subset bits={x:b} wrong'})
    fails.extend(noncanon)
    return {'evaluations': n, 'distinct': len(seen), 'failures': fails, 'n_failures': len(fails),
            'scope': f'CharacterClass: all charsets of <= {maxlen} atoms over {atoms} x {{build, complement, copy, add, discard, -=}} '
                     f'x every atom, membership compared on {len(probes)} probe code points; UnicodeSubset: all 128x128 pairs of '
                     'subsets of {0..6} x {|,-,&,^}, complement; oracle: Python frozensets',
            'rule': 'distinct = (operation, atom multiset / subset id)'}


def _replay_set_algebra(f):
    """True if the recorded failure no longer fails."""
    from elementpath.regex.unicode_subsets import UnicodeSubset as US
    if 'x' not in f:
        return False

    def mk(bits):
        s = US()
        for k in range(7):
            if bits >> k & 1:
                s.add(k)
        return s
    a, b = mk(f['x']), mk(f['y'])
    r = {'|': a | b, '-': a - b, '&': a & b, '^': a ^ b}[f['op']]
    return _native_wf_canon(r._codepoints)


def _spec_char_group(tokens):
    """Independent reading of an XSD positive character group made of single characters and ranges (XSD 1.1 appendix G: charRange ::= singleChar '-' singleChar;
    an unescaped '-' is a literal only as the first or the last character).  Returns a set of code points, 'error' for a reversed range, or None when the
    grammar does not settle the meaning (an unescaped '-' elsewhere, adjacent unescaped hyphens)."""
    lit = [(t[-1], len(t) == 2) for t in tokens]          # (character, escaped?)
    n = len(lit)
    hy = [i for i, (c, esc) in enumerate(lit) if c == '-' and not esc]
    if any(b - a == 1 for a, b in zip(hy, hy[1:])):
        return None
    out, i = set(), 0
    while i < n:
        c, esc = lit[i]
        if c == '-' and not esc:
            if i in (0, n - 1):
                out.add(ord('-'))
                i += 1
                continue
            return None
        if i + 2 < n and lit[i + 1] == ('-', False):
            c2 = lit[i + 2][0]
            if ord(c) > ord(c2):
                return 'error'
            out.update(range(ord(c), ord(c2) + 1))
            i += 3
            if i < n and lit[i] == ('-', False) and i != n - 1:
                return None
            continue
        if i + 2 == n and lit[i + 1] == ('-', False):
            out.add(ord(c))
            out.add(ord('-'))
            i += 2
            continue
        out.add(ord(c))
        i += 1
    return out


def bounded_subset_strings(tier, seed):
    """UnicodeSubset / iterparse_character_subset on the string form of a character group: all token strings up to a length over an alphabet of plain
    characters, the hyphen and single-character escapes, against an independent reading of the XSD grammar (only strings whose meaning the grammar settles)."""
    import itertools
    from elementpath.regex.codepoints import iterparse_character_subset
    from elementpath.regex import RegexError
    alphabet = ['a', 'c', 'z', '-', '.', '\\-', '\\[', '\\]', '\\\\', '\\^']
    maxlen = 4 if tier == 'quick' else 5
    fams, n, judged, seen = {}, 0, 0, set()
    for k in range(1, maxlen + 1):
        for toks in itertools.product(alphabet, repeat=k):
            want = _spec_char_group(toks)
            n += 1
            if want is None:
                continue
            judged += 1
            text = ''.join(toks)
            seen.add((k, sum(1 for t in toks if t == '-'), sum(1 for t in toks if len(t) == 2)))
            outs = {}
            for name, fn_ in (('iterparse_character_subset(expand_ranges=True)', lambda: set(iterparse_character_subset(text, expand_ranges=True))),
                              ('iterparse_character_subset', lambda: {cp for it in iterparse_character_subset(text) for cp in ([it] if isinstance(it, int) else range(*it))}),
                              ('UnicodeSubset(str)', lambda: set(UnicodeSubset(text))),
                              ('UnicodeSubset.update(str)', lambda: (lambda u: (u.update(text), set(u))[1])(UnicodeSubset()))):
                try:
                    outs[name] = fn_()
                except RegexError:
                    outs[name] = 'error'
                except Exception as e:      # noqa
                    outs[name] = f'crash {type(e).__name__}'
                if outs[name] != want:
                    kind = ('a reversed range is accepted' if want == 'error' else
                            # one root cause with two symptoms (the group is rejected, or - from five tokens on, thorough tier - the escape after the range is
                            # misread and its character dropped): one family, keyed as in known_findings.json
                            'a valid group is rejected (a range ending in an escaped backslash, followed by another escape)'
                            if '-' + chr(92) * 3 in text else 'a valid group is rejected' if outs[name] == 'error' else
                            'a code point is dropped' if isinstance(outs[name], set) and outs[name] < want else 'wrong code points')
                    fams.setdefault(f'{name}: {kind}', []).append({'text': text, 'got': repr(sorted(map(chr, outs[name])) if isinstance(outs[name], set) else outs[name])[:80],
                                                                  'expected': repr(sorted(map(chr, want)) if isinstance(want, set) else want)[:80]})
    fails = [{'key': k_, 'items': it[:4], 'count': len(it), 'what': f'{k_}: e.g. {it[0]}', 'text': it[0]['text']} for k_, it in fams.items()]
    return {'evaluations': n, 'distinct': len(seen), 'judged': judged, 'failures': fails, 'n_failures': len(fails),
            'scope': f'all {n} token strings of length <= {maxlen} over {len(alphabet)} tokens (a, c, z, ., the hyphen, and the escapes \\- \\[ \\] \\\\ \\^); {judged} of them '
                     'have a meaning settled by the XSD grammar and are compared (set of code points, or a reversed-range error) through 4 entry points',
            'rule': 'distinct = (length, number of hyphens, number of escapes)'}


def _replay_subset_strings(f):
    r = bounded_subset_strings('quick', 0)
    return all(x['key'] != f.get('key') for x in r['failures'])


BOUNDED = [Bounded('set_algebra_small_universe', bounded_set_algebra, _replay_set_algebra),
           Bounded('character_group_strings', bounded_subset_strings, _replay_subset_strings)]
NOT_DECIDED = [
    'ground truth of other Unicode versions (UCD files are fetched from the network by install_unicode_data): only '
    'self-consistency of the bundled tables is checked for versions other than the running one',
    'CharacterClass methods and UnicodeSubset set operators (|= -= &= ^=, complement, iteration): bounded stand-in only; '
    'the primitive operations __contains__/add/discard they are built on are proved',
]
