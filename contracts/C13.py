"""C13 - Unicode code point sets are exact: set algebra and category / block tables.

Abstract view of a code point list L (ints c read as [c, c+1), tuples as [lo, hi)):
    view(L) = { x | exists j. lo(L[j]) <= x < hi(L[j]) }
wf_set(L): every item is a valid code point / non-empty range inside [0, 0x110000], the items
are pairwise ordered and disjoint (all-pairs form: hi(L[i]) <= lo(L[j]) for i < j).
Every obligation about the view is stated for one arbitrary code point x (a free variable of
the verification condition), so it holds for all x.
"""
from __future__ import annotations

import sys

from pyvc.values import *  # noqa
from pyvc.contract import Contract, Case, Lemma
from pyvc.interp import LoopSpec
from pyvc.specprims import *  # noqa
from .common import *  # noqa
from .bounded import Bounded

from elementpath.regex.unicode_subsets import UnicodeSubset

MAXU = sys.maxunicode + 1      # 0x110000


def item_ok(it):
    return 0 <= lo(it) and lo(it) < hi(it) and hi(it) <= 0x110000 and implies(is_int_item(it), hi(it) == lo(it) + 1)


def wf_set(L):
    return forall_range(0, len(L), lambda j: item_ok(L[j])) and \
        forall_pairs(0, len(L), lambda i, j: hi(L[i]) <= lo(L[j]))


def wf_canon(L):
    """canonical form: wf_set, no two items touch, a single code point is stored as an int
    (then list equality is set equality)"""
    return wf_set(L) and forall_pairs(0, len(L), lambda i, j: hi(L[i]) < lo(L[j])) and \
        forall_range(0, len(L), lambda j: implies(hi(L[j]) == lo(L[j]) + 1, is_int_item(L[j])))


SPECS = [item_ok, wf_set, wf_canon]       # mem(L, x) is the witness-based primitive of pyvc.specprims


def subset_obj(S, name='L'):
    L = S.seq(name, K_ITV)
    return VObj(UnicodeSubset, {'_codepoints': L}, name='self'), L


def real_subset(items):
    s = UnicodeSubset()
    s._codepoints = list(items)
    return s


def lists_small(rng):
    """well-formed code point lists over a small universe, for the encoder validation"""
    import itertools
    base = [[], [5], [(3, 6)], [1, (3, 6)], [(0, 2), 4, (6, 9)], [2, 3, 4], [(1, 3), (3, 5)], [(0, 0x110000)],
            [0x10FFFF], [(10, 20), (30, 40), 50]]
    for L in base:
        yield L
    while True:
        n = rng.randint(0, 5)
        pts = sorted(rng.sample(range(0, 40), 2 * n))
        L = []
        for k in range(n):
            a, b = pts[2 * k], pts[2 * k + 1]
            L.append(a if b == a + 1 and rng.random() < 0.7 else (a, b))
        yield L


# ---- __contains__ ------------------------------------------------------------------------------

def contains_case(S, ex):
    obj, L = subset_obj(S)
    x = S.int('x')
    return Case([obj, x], names={'L': L})


def contains_samples(rng):
    g = lists_small(rng)
    for L in g:
        for x in (0, 1, 2, 3, 4, 5, 6, 9, 10, 19, 20, 39, 0x10FFFF):
            yield {'L': L, 'x': x}


CONTRACTS = [
    Contract('UnicodeSubset.__contains__', 'C13', lambda: UnicodeSubset.__contains__, contains_case,
             pre=["wf_set(L)"],
             post=[('membership_is_view', "returned and result == mem(L, x)")],
             loops={0: LoopSpec(["_i0 <= len(L)",
                                 "forall_range(0, _i0, lambda j: hi(L[j]) <= x)"])},
             specs=SPECS, native=lambda i: run_native(lambda: real_subset(i['L']).__contains__(i['x'])),
             samples=contains_samples, timeout_s=20, mem_hints=['_i0']),
]


# ---- add ------------------------------------------------------------------------------------------

def add_case(kind):
    def setup(S, ex):
        obj, L = subset_obj(S)
        old = VSeq(L.len, L.arr, K_ITV)          # ghost: the list at entry
        x = S.int('x')
        if kind == 'int':
            v = S.int('v')
            value, v0, v1 = v, v, VInt(v.t + 1)
            valid = "0 <= v and v <= 0x10FFFF"
        else:
            a, b = S.int('a'), S.int('b')
            value, v0, v1 = VTuple([a, b]), a, b
            valid = "0 <= a and a < b and b <= 0x110000"
        return Case([obj, value], names={'L': L, 'old': old, 'v0': v0, 'v1': v1, 'VALID': VStr(valid)},
                    label=kind)
    return setup


ADD_INV = [
    "0 <= _i0 and _i0 <= len(code_points)",
    "len(code_points) == len(old)",
    "last_index == len(old) - 1",
    "wf_set(code_points)",
    "forall_range(0, _i0, lambda j: hi(code_points[j]) <= start_cp)",
    "forall_range(_i0, len(old), lambda j: code_points[j] == old[j])",
    "0 <= v0 and v0 <= start_cp and start_cp < end_cp and end_cp == v1 and v1 <= 0x110000",
    "(mem(code_points, x) or (start_cp <= x and x < end_cp)) == (mem(old, x) or (v0 <= x and x < v1))",
    "start_cp == v0 or (_i0 < len(old) and start_cp == lo(code_points[_i0]))",
]


def add_native(kind):
    def native(i):
        s = real_subset(i['L'])
        value = i['v'] if kind == 'int' else (i['a'], i['b'])
        r = run_native(lambda: s.add(value))
        # the observable result of add is the list afterwards
        post = {'L': s._codepoints, 'old': list(i['L']), 'v0': value if kind == 'int' else value[0],
                'v1': value + 1 if kind == 'int' else value[1]}
        return (r[0], None if r[0] == 'return' else r[1], post)
    return native


def add_samples(kind):
    def gen(rng):
        for L in lists_small(rng):
            for x in (0, 3, 5, 7, 12):
                if kind == 'int':
                    for v in (0, 2, 5, 6, 9, 10, 0x10FFFF, -1, 0x110000):
                        yield {'L': L, 'x': x, 'v': v}
                else:
                    for a, b in ((0, 1), (3, 12), (5, 6), (4, 7), (0, 40), (9, 10), (5, 5), (-1, 3), (3, 0x110001)):
                        yield {'L': L, 'x': x, 'a': a, 'b': b}
    return gen


for kind, valid in (('int', "0 <= v and v <= 0x10FFFF"), ('range', "0 <= a and a < b and b <= 0x110000")):
    CONTRACTS.append(Contract(
        f'UnicodeSubset.add.{kind}', 'C13', lambda: UnicodeSubset.add, add_case(kind),
        pre=["wf_set(L)"],
        post=[
            ('value_error_iff_not_a_code_point', f"(raised_name == 'ValueError') == (not ({valid}))" if False else
             f"returned == ({valid})"),
            ('only_value_error', "returned or raised_name == 'ValueError'"),
            ('stays_well_formed', "not returned or wf_set(L)"),
            ('view_is_union', "not returned or mem(L, x) == (mem(old, x) or (v0 <= x and x < v1))"),
            ('unchanged_when_rejected',
             "returned or (len(L) == len(old) and forall_range(0, len(old), lambda j: L[j] == old[j]))"),
        ],
        loops={0: LoopSpec(ADD_INV)}, specs=SPECS, native=add_native(kind), samples=add_samples(kind), timeout_s=30,
        mem_hints=['_i0']))


# ---- discard ----------------------------------------------------------------------------------------

DISCARD_INV = [
    "0 <= _i0 and _i0 <= len(old)",
    "len(codepoints) >= len(old) - _i0",
    "forall_range(0, len(old) - _i0, lambda j: codepoints[j] == old[j])",
    "wf_set(codepoints)",
    "start_cp == v0 and end_cp == v1 and 0 <= v0 and v0 < v1 and v1 <= 0x110000",
    "mem(codepoints, x) == (mem(old, x) and (not (v0 <= x and x < v1) or mem(take(old, len(old) - _i0), x)))",
]


def discard_native(kind):
    def native(i):
        s = real_subset(i['L'])
        value = i['v'] if kind == 'int' else (i['a'], i['b'])
        r = run_native(lambda: s.discard(value))
        post = {'L': s._codepoints, 'old': list(i['L']), 'v0': value if kind == 'int' else value[0],
                'v1': value + 1 if kind == 'int' else value[1]}
        return (r[0], None if r[0] == 'return' else r[1], post)
    return native


for kind, valid in (('int', "0 <= v and v <= 0x10FFFF"), ('range', "0 <= a and a < b and b <= 0x110000")):
    CONTRACTS.append(Contract(
        f'UnicodeSubset.discard.{kind}', 'C13', lambda: UnicodeSubset.discard, add_case(kind),
        pre=["wf_set(L)"],
        post=[
            ('value_error_iff_not_a_code_point', f"returned == ({valid})"),
            ('only_value_error', "returned or raised_name == 'ValueError'"),
            ('stays_well_formed', "not returned or wf_set(L)"),
            ('view_is_difference', "not returned or mem(L, x) == (mem(old, x) and not (v0 <= x and x < v1))"),
            ('unchanged_when_rejected',
             "returned or (len(L) == len(old) and forall_range(0, len(old), lambda j: L[j] == old[j]))"),
        ],
        loops={0: LoopSpec(DISCARD_INV)}, specs=SPECS, native=discard_native(kind), samples=add_samples(kind),
        timeout_s=30, mem_hints=['len(old) - _i0']))
    # canonical form is a separate obligation set, so that a representation finding does not
    # mask a set-semantics violation
    CONTRACTS.append(Contract(
        f'UnicodeSubset.discard.{kind}.canonical', 'C13', lambda: UnicodeSubset.discard, add_case(kind),
        pre=["wf_canon(L)"],
        post=[('canonical_form_kept', "not returned or wf_canon(L)")],
        loops={0: LoopSpec(DISCARD_INV[:5] + ["wf_canon(codepoints)"])}, specs=SPECS,
        native=discard_native(kind), samples=add_samples(kind), timeout_s=30))
