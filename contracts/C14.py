"""C14 - fn:path and node path strings identify each node uniquely.

Run-time contract on the real path producers (`XPathNode.path` of every node kind, fn:path, `etree_iter_paths`):
postcondition  select(root, path(n)) == [n]  and  path injective, checked on the tree scope of contracts/trees.py.
BOUNDED stand-in: `get_child_position` walks parent/children object graphs that the deductive engine does not model.
"""
from __future__ import annotations

import itertools
import random

from elementpath import XPathContext, get_node_tree
from elementpath.etree import etree_iter_paths
from elementpath.exceptions import ElementPathError
from elementpath.xpath_nodes import DocumentNode, ElementNode
from elementpath.xpath31 import XPath31Parser

from .bounded import Bounded
from . import trees as T
from .C02 import actual_nodes

# ---- deductive: XPathNode.get_child_position counts exactly the preceding-or-self siblings matched by the node test of the path step ----
import z3                                                        # noqa: E402
from pyvc.values import *                                        # noqa: E402,F401
from pyvc.contract import Contract, Case                         # noqa: E402
from pyvc.interp import LoopSpec                                 # noqa: E402
from pyvc.specprims import *                                     # noqa: E402,F401
from pyvc import models as _models                               # noqa: E402
from elementpath.xpath_nodes import XPathNode as _XPathNode, ElementNode as _ElementNode, ProcessingInstructionNode as _PINode   # noqa: E402
from .common import std_hooks                                     # noqa: E402

KIND_ELEMENT, KIND_PI = 0, 1          # other kinds (text, comment, ...) are any other integers


def same_test(x, child):
    """the node test the `path` property writes for `child`: Q{ns}local[n] / processing-instruction(target)[n] count same-named nodes of the kind,
    text()[n] / comment()[n] count nodes of the kind"""
    return node_kind(x) == node_kind(child) and (node_name(x) == node_name(child) if (node_kind(child) == 0 or node_kind(child) == 1) else True)


def child_position_case(S, ex):
    sibs = S.seq('S', K_ITEM)
    counts = S.seq('C', K_INT)
    p = S.int('p')
    child = sibs.get(p.t)
    node = VObj(_XPathNode, {'children': sibs}, name='self')
    kind = z3.Function('node_kind', ITEM_SORT, z3.IntSort())
    name = z3.Function('node_name', ITEM_SORT, z3.IntSort())

    def isinstance_hook(ex, *rest):
        if len(rest) == 2:
            return None
        node_, a, kw = rest
        v, c = a
        if isinstance(v, VItem):
            if isinstance(c, VNative) and c.obj is _ElementNode:
                return VBool(kind(v.t) == KIND_ELEMENT)
            if isinstance(c, VNative) and c.obj is _PINode:
                return VBool(kind(v.t) == KIND_PI)
            if isinstance(c, VBound) and c.name == '__class__' and isinstance(c.recv, VItem):
                return VBool(kind(v.t) == kind(c.recv.t))           # T-KINDCLASS: one node class per remaining kind
        return VBool(_models.isinstance_(ex, v, c))
    attr_hooks = {'c.name': lambda ex, env: VInt(name(env.lookup('c').t)), 'child.name': lambda ex, env: VInt(name(env.lookup('child').t))}
    hooks = {'isinstance': isinstance_hook}
    return Case([node, child], hooks=hooks, attr_hooks=attr_hooks, names={'S': sibs, 'C': counts, 'p': p, 'child': child})


CONTRACTS = [Contract(
    'XPathNode.get_child_position', 'C14', lambda: _XPathNode.get_child_position, child_position_case,
    pre=["0 <= p and p < len(S)", "forall_range(0, len(S), lambda i: implies(S[i] == child, i == p))",
         "len(C) == len(S) + 1", "C[0] == 0", "forall_range(0, len(S), lambda j: C[j + 1] == C[j] + (1 if same_test(S[j], child) else 0))"],
    post=[('counts_the_siblings_matched_by_the_step_up_to_the_child', "returned and result == C[p + 1]"),
          ('position_is_at_least_one', "returned and result >= 1")],
    loops={0: LoopSpec(["_i0 <= p", "pos == C[_i0]", "pos >= 0", "forall_range(0, _i0, lambda j: S[j] != child)"])},
    specs=[same_test], native=None, expect_min_obligations=4,
    notes=['siblings are opaque items with uninterpreted kind and name codes; the child occurs exactly once among them (object identity); T-KINDCLASS: text and '
           'comment nodes have one class each, so `isinstance(c, child.__class__)` is equality of kinds'])]

BOUNDED_ONLY = ('the path properties walk parent/children object graphs (get_child_position) which the deductive engine does not model; '
                'their postcondition is checked at run time on a stated finite scope')
NOT_DECIDED = ['for ALL trees: only the stated scope is explored (bounded stand-in)']


def _select(root_node, path, item=None, namespaces=None):
    tok = XPath31Parser(namespaces=namespaces).parse(path)
    r = tok.evaluate(XPathContext(root=root_node, item=item))
    return r if isinstance(r, list) else [r]


def path_contract(tier, seed):
    rng = random.Random(seed)
    trees = list(T.exhaustive_small())[::(11 if tier == 'quick' else 2)]
    trees += list(T.enumerate_trees(4 if tier == 'quick' else 5, 5 if tier == 'quick' else 30, seed))
    # repeated names, sibling PIs with different targets, PI target equal to an element name, interleaved text/comments
    pi = lambda t, tail=None: ('p', t, (), (), 'd', tail, ())       # noqa
    cm = lambda tail=None: ('c', None, (), (), 'c', tail, ())       # noqa
    el = lambda n, kids=(), text=None, tail=None, attrs=(): ('e', n, attrs, (), text, tail, tuple(kids))     # noqa
    trees += [el('a', [el('a', [el('b'), el('a')]), el('b', [el('a')]), el('a')]),
              el('r', [pi('alpha'), pi('beta'), pi('alpha'), el('alpha'), pi('alpha')]),
              el('r', [cm('t1'), el('x', tail='t2'), cm(), cm('t3'), el('x'), pi('x', 't4')], text='t0'),
              el('{urn:x}a', [el('{urn:x}a'), el('a'), el('{urn:y}b', attrs=(('{urn:x}k', 'w'), ('k', 'v')))], attrs=(('k', 'v'),)),
              el('r', [el('pi'), pi('pi'), el('comment'), el('text', text='x'), el('node')])]
    fam, n = {}, 0

    def bad(k, detail, **w):
        fam.setdefault(k, []).append(dict(w, detail=detail[:300]))
    fn_path = XPath31Parser().parse('path(.)')
    for ti, t in enumerate(trees):
        for lib in ('et', 'lxml'):
            root_elem = T.realise(t, lib)
            mod = T.ET if lib == 'et' else T.LX
            doc = mod.ElementTree(root_elem)
            if lib == 'lxml' and ti % 3 == 0:
                root_elem.addprevious(T.LX.Comment('pre'))
                root_elem.addprevious(T.LX.Comment('pre2'))
                root_elem.addprevious(T.LX.ProcessingInstruction('pi', 'p'))
                root_elem.addnext(T.LX.Comment('post'))
            for as_doc, fragment in ((True, None), (False, None), (False, False), (True, True)):
                nsarg = [None, {'p': 'urn:x'}, {'': 'urn:d', 'q': 'urn:y'}][ti % 3] if lib == 'et' else None
                w = dict(tree=repr(t)[:300], lib=lib, root='ElementTree' if as_doc else 'Element', fragment=fragment, namespaces=nsarg)
                try:
                    rn = get_node_tree(doc if as_doc else root_elem, namespaces=nsarg, fragment=fragment)
                    _, nodes = actual_nodes(rn)
                except Exception as e:      # noqa - reported by C02
                    continue
                seen = {}
                for node in nodes:
                    n += 1
                    kind = type(node).__name__.replace('Etree', '')
                    producers = [('path property', lambda: node.path)]
                    producers.append(('fn:path', lambda: fn_path.evaluate(XPathContext(root=rn, item=node))))
                    for pname, prod in producers:
                        try:
                            p = prod()
                        except Exception as e:      # noqa
                            bad(f'{kind}: {pname} raises', f'{type(e).__name__}: {e}', **w)
                            continue
                        if not isinstance(p, str):
                            bad(f'{kind}: {pname} is not a string', repr(p), **w)
                            continue
                        try:
                            got = _select(rn, p)
                        except Exception as e:      # noqa
                            bad(f'{kind}: the path of {pname} cannot be evaluated', f'{p!r}: {type(e).__name__}: {str(e)[:100]}', **w)
                            continue
                        if len(got) != 1 or got[0] is not node:
                            bad(f'{kind}: the path of {pname} does not select exactly the node', f'{p!r} selects {got!r:.160}', **w)
                        elif 'urn:x' in repr(t):
                            # the path spells every name out (Q{uri}local): a default element namespace of the evaluating parser does not change what it selects
                            try:
                                got2 = _select(rn, p, namespaces={'': 'urn:x', 'z': 'urn:y'})
                            except Exception as e:      # noqa
                                got2 = f'{type(e).__name__}: {str(e)[:80]}'
                            if not isinstance(got2, list) or len(got2) != 1 or got2[0] is not node:
                                bad(f'{kind}: the path of {pname} selects another node under a parser with a default element namespace', f'{p!r} selects {got2!r:.160}', **w)
                        if pname == 'path property':
                            if p in seen and seen[p] is not node:
                                bad(f'{kind}: two nodes share one path', f'{p!r}: {seen[p]!r} and {node!r}', **w)
                            seen[p] = node
            # fn:path of a node that is not in the tree of the context root (a node bound to a variable): the path is relative to the node's own tree
            try:
                rn0 = get_node_tree(doc, namespaces=None)
                _, nodes0 = actual_nodes(rn0)
                other_root = get_node_tree(T.ET.XML('<unrelated><z/></unrelated>'))
                fn_path_var = XPath31Parser().parse('path($n)')
                for node in nodes0[:: max(1, len(nodes0) // 6)]:
                    n += 1
                    p = fn_path_var.evaluate(XPathContext(root=other_root, variables={'n': node}))
                    if not isinstance(p, str):
                        bad('fn:path of a node of another tree than the context root is not a string', repr(p), tree=repr(t)[:300], lib=lib)
                        continue
                    got = _select(rn0, p)
                    if len(got) != 1 or got[0] is not node:
                        bad('fn:path of a node of another tree: the path does not select exactly the node in its own tree', f'{p!r} selects {got!r:.160}',
                            tree=repr(t)[:300], lib=lib)
            except ElementPathError as ex:
                bad('fn:path of a node of another tree raises', f'{type(ex).__name__}: {str(ex)[:100]}', tree=repr(t)[:300], lib=lib)
            # lazy element trees (nodes without recorded document positions)
            if lib == 'et':
                try:
                    from elementpath import LazyElementNode
                    lz = LazyElementNode(root_elem)
                    lnodes = list(lz.iter_descendants())
                    seen = {}
                    for node in lnodes:
                        n += 1
                        p = fn_path.evaluate(XPathContext(lz, item=node))
                        got = _select(lz, p)
                        if len(got) != 1 or got[0] is not node:
                            bad('LazyElementNode tree: the path of fn:path does not select exactly the node', f'{p!r} selects {got!r:.160}',
                                tree=repr(t)[:300], lib=lib)
                        if p in seen:
                            bad('LazyElementNode tree: two nodes share one path', p, tree=repr(t)[:300], lib=lib)
                        seen[p] = node
                except ElementPathError as ex:
                    bad('LazyElementNode tree: fn:path or its result cannot be evaluated', f'{type(ex).__name__}: {str(ex)[:100]}', tree=repr(t)[:300], lib=lib)
            # etree_iter_paths on the plain element
            try:
                pairs = list(etree_iter_paths(root_elem))
            except Exception as e:      # noqa
                bad('etree_iter_paths raises', f'{type(e).__name__}: {e}', tree=repr(t)[:300], lib=lib)
                continue
            rn = get_node_tree(root_elem)
            for e, p in pairs:
                n += 1
                try:
                    got = _select(rn, p, item=rn if isinstance(rn, ElementNode) else rn.getroot())
                except Exception as ex:     # noqa
                    bad('etree_iter_paths: the path cannot be evaluated', f'{p!r}: {type(ex).__name__}: {str(ex)[:100]}', tree=repr(t)[:300], lib=lib)
                    continue
                if len(got) != 1 or getattr(got[0], 'elem', None) is not e:
                    bad('etree_iter_paths: the path does not select exactly the element', f'{p!r} selects {got!r:.160}', tree=repr(t)[:300], lib=lib)
            # the same with an absolute start: paths are evaluated from the document node
            try:
                rd = get_node_tree(doc) if lib == 'lxml' else get_node_tree(root_elem, fragment=False)
                top = rd.getroot()
                for e, p in etree_iter_paths(root_elem, path='/' + ('Q{%s}%s[1]' % tuple(root_elem.tag[1:].split('}')) if root_elem.tag[0] == '{'
                                                                  else 'Q{}%s[1]' % root_elem.tag)):
                    n += 1
                    got = _select(rd, p)
                    if len(got) != 1 or getattr(got[0], 'elem', None) is not e:
                        bad('etree_iter_paths (absolute): the path does not select exactly the element', f'{p!r} selects {got!r:.160}', tree=repr(t)[:300], lib=lib)
            except ElementPathError as ex:
                bad('etree_iter_paths (absolute): the path cannot be evaluated', f'{type(ex).__name__}: {str(ex)[:100]}', tree=repr(t)[:300], lib=lib)
            # an empty start path: every path is relative to the start element (also those of its comment and processing instruction children)
            try:
                ctx_item = rn if isinstance(rn, ElementNode) else rn.getroot()
                for e, p in etree_iter_paths(root_elem, path=''):
                    if p == '':
                        continue
                    n += 1
                    got = _select(rd if lib == 'lxml' else rn, p, item=rd.getroot() if lib == 'lxml' else ctx_item)
                    if len(got) != 1 or getattr(got[0], 'elem', None) is not e:
                        bad('etree_iter_paths (empty start path): the path does not select exactly the node from the start element', f'{p!r} selects {got!r:.160}',
                            tree=repr(t)[:300], lib=lib)
            except ElementPathError as ex:
                bad('etree_iter_paths (empty start path): the path cannot be evaluated', f'{type(ex).__name__}: {str(ex)[:100]}', tree=repr(t)[:300], lib=lib)
            if len({p for _, p in pairs}) != len(pairs):
                bad('etree_iter_paths: two elements share one path', repr([p for _, p in pairs])[:200], tree=repr(t)[:300], lib=lib)
    # documents built by fn:parse-xml-fragment: top-level text, comment and PI nodes are children of the document node
    for frag in ('a<x/>b<!--c--><?p d?>', '<x/><y>t</y>tail', 'only text', '<!--c1--><!--c2--><z k="v"/>', '<?p a?><?q b?><?p c?>'):
        n += 1
        try:
            doc = XPath31Parser().parse('parse-xml-fragment($t)').evaluate(XPathContext(root=get_node_tree(T.ET.XML('<unrelated/>')), variables={'t': frag}))
            _, dnodes = actual_nodes(doc)
            for node in dnodes:
                p = node.path
                got = _select(doc, p)
                if len(got) != 1 or got[0] is not node:
                    bad(f'{type(node).__name__.replace("Etree", "")} of a parse-xml-fragment document: the path does not select exactly the node', f'{p!r} selects {got!r:.160}',
                        tree=frag, lib='et')
                p2 = XPath31Parser().parse('path($n)').evaluate(XPathContext(root=doc, variables={'n': node}))
                if p2 != p:
                    bad('fn:path differs from the path property on a parse-xml-fragment document', f'{p2!r} vs {p!r}', tree=frag, lib='et')
        except Exception as e:      # noqa
            bad('parse-xml-fragment document: paths cannot be produced or evaluated', f'{type(e).__name__}: {str(e)[:120]}', tree=frag, lib='et')
    # nodes built outside any tree: the path is still an XPath expression
    from elementpath.xpath_nodes import NamespaceNode, ProcessingInstructionNode, CommentNode, TextNode, AttributeNode
    for label, mk in (('namespace', lambda: NamespaceNode('p', 'urn:p')), ('default namespace', lambda: NamespaceNode(None, 'urn:p')),
                      ('processing instruction', lambda: ProcessingInstructionNode(T.ET.ProcessingInstruction('tgt', 'x'))),
                      ('comment', lambda: CommentNode(T.ET.Comment('c'))), ('text', lambda: TextNode('t')), ('attribute', lambda: AttributeNode('k', 'v'))):
        n += 1
        try:
            p = mk().path
            XPath31Parser().parse(p)
            if '{' in p.replace('Q{', ''):
                bad(f'parentless {label} node: the path contains an unexpanded format field', p, tree='-', lib='-')
        except Exception as e:      # noqa
            bad(f'parentless {label} node: the path is not an XPath expression', f'{type(e).__name__}: {str(e)[:100]}', tree='-', lib='-')
    fails = [{'key': k, 'items': it[:4], 'count': len(it), 'what': f'{k}: {it[0]["detail"]} [{it[0].get("lib")}, {it[0].get("root")}, '
              f'fragment={it[0].get("fragment")}, tree={it[0]["tree"][:140]}]'} for k, it in fam.items()]
    return {'evaluations': n, 'distinct': n, 'exhaustive': False,
            'scope': f'{len(trees)} abstract trees (small-scope decorations, all shapes up to {4 if tier == "quick" else 5} nodes, 5 hand-written trees with repeated '
            'names / mixed PI targets / interleaved text and comments) x {ElementTree, lxml} x 4 root/fragment settings: every node (document, element, attribute, '
            'namespace, text, comment, PI): select(root, path(n)) == [n] for the path property and fn:path, path injective; etree_iter_paths likewise', 'failures': fails}


def _replay(f):
    r = path_contract('quick', 0)
    return all(x['key'] != f['key'] for x in r['failures'])


BOUNDED = [Bounded('path_selects_exactly_its_node', path_contract, _replay)]
