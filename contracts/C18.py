"""C18 - sequence-type judgements are sound: instance of, treat as, function signatures.

Finite, completely enumerated (GROUND, counted as discharged obligations because the domain is finite and exhausted):
 * occurrence lattice: for the 4 x 4 occurrence indicators and 8 item types, is_sequence_type_restriction agrees with
   cardinality-set inclusion ({1}, {0,1}, {1..}, {0..}); 'empty-sequence()' against every occurrence;
 * atomic type hierarchy: for all ordered pairs of the built-in atomic type names the subtype verdict equals the XSD
   Part 2 / XDM derivation table written below (so it is reflexive and transitive on that domain, checked explicitly).
Bounded stand-ins (never counted as proved): value x sequence-type matching against a reference matcher written from
XPath 3.1 2.5.5 on a structured universe; 'treat as'; soundness of the subtype relation for matching and its
reflexivity/transitivity on the whole universe; declared return types of built-in functions on generated arguments.
"""
from __future__ import annotations

import itertools
import random
import xml.etree.ElementTree as ET

from .common import *  # noqa
from .bounded import Bounded
from elementpath import XPathContext
from elementpath.exceptions import ElementPathError
from elementpath.sequence_types import is_sequence_type_restriction, match_sequence_type
from elementpath.xpath31 import XPath31Parser
from elementpath.xpath_nodes import XPathNode

# ---- the atomic hierarchy (XSD Part 2 section 3, XDM 3.1 section 2.7) ------------------------------------------------
PARENT = {
    'untypedAtomic': 'anyAtomicType', 'string': 'anyAtomicType', 'boolean': 'anyAtomicType', 'decimal': 'anyAtomicType', 'float': 'anyAtomicType',
    'double': 'anyAtomicType', 'duration': 'anyAtomicType', 'dateTime': 'anyAtomicType', 'time': 'anyAtomicType', 'date': 'anyAtomicType',
    'gYearMonth': 'anyAtomicType', 'gYear': 'anyAtomicType', 'gMonthDay': 'anyAtomicType', 'gDay': 'anyAtomicType', 'gMonth': 'anyAtomicType',
    'hexBinary': 'anyAtomicType', 'base64Binary': 'anyAtomicType', 'anyURI': 'anyAtomicType', 'QName': 'anyAtomicType', 'NOTATION': 'anyAtomicType',
    'normalizedString': 'string', 'token': 'normalizedString', 'language': 'token', 'NMTOKEN': 'token', 'Name': 'token', 'NCName': 'Name',
    'ID': 'NCName', 'IDREF': 'NCName', 'ENTITY': 'NCName',
    'integer': 'decimal', 'nonPositiveInteger': 'integer', 'negativeInteger': 'nonPositiveInteger', 'long': 'integer', 'int': 'long',
    'short': 'int', 'byte': 'short', 'nonNegativeInteger': 'integer', 'unsignedLong': 'nonNegativeInteger', 'unsignedInt': 'unsignedLong',
    'unsignedShort': 'unsignedInt', 'unsignedByte': 'unsignedShort', 'positiveInteger': 'nonNegativeInteger',
    'yearMonthDuration': 'duration', 'dayTimeDuration': 'duration', 'dateTimeStamp': 'dateTime',
}
ATOMIC_NAMES = sorted(set(PARENT) | {'anyAtomicType'})


def atomic_subtype(a, b):
    while a != b and a in PARENT:
        a = PARENT[a]
    return a == b


CARD = {'': {1}, '?': {0, 1}, '+': {1, 2}, '*': {0, 1, 2}}       # 2 stands for "two or more"


def ground_occurrence_lattice(tier, seed):
    fails, n, incomplete = [], 0, set()
    items = ['xs:integer', 'item()', 'node()', 'element()', 'function(*)', 'map(*)', 'xs:string', 'array(*)']
    for it, o1, o2 in itertools.product(items, CARD, CARD):
        n += 1
        want = CARD[o2] <= CARD[o1]
        got = is_sequence_type_restriction(it + o1, it + o2)
        # the property asks for a sound, reflexive, transitive relation - not for a complete one
        if (got and not want) or (o1 == o2 and not got):
            fails.append({'key': f"occurrence '{o2}' as a restriction of '{o1}'", 'st1': it + o1, 'st2': it + o2, 'want': want,
                          'what': f'is_sequence_type_restriction({it + o1!r}, {it + o2!r}) = {got}, cardinality inclusion says {want}'})
        elif want and not got:
            incomplete.add((o1, o2))
    for it, o1 in itertools.product(items, CARD):
        n += 1
        want = 0 in CARD[o1]
        got = is_sequence_type_restriction(it + o1, 'empty-sequence()')
        if got and not want:
            fails.append({'key': f"empty-sequence() as a restriction of occurrence '{o1}'", 'st1': it + o1, 'st2': 'empty-sequence()', 'want': want,
                          'what': f'is_sequence_type_restriction({it + o1!r}, "empty-sequence()") = {got}, expected {want}'})
    # one finding per lattice cell (not per item type)
    uniq = {}
    for f in fails:
        uniq.setdefault(f['key'], f)
    return {'obligations': n, 'discharged': n - len(fails), 'evaluations': n, 'distinct': n, 'exhaustive': True, 'count_each': True,
            'scope': '4 x 4 occurrence indicators x 8 item types, and empty-sequence() against 4 occurrences x 8 item types: an accepted restriction is an '
            'inclusion of the cardinality sets (soundness) and equal indicators are accepted (reflexivity)',
            'incomplete_cells_not_required_by_the_property': sorted(incomplete), 'failures': list(uniq.values()) if len(uniq) == len(fails) else fails}


def _replay_occ(f):
    got = is_sequence_type_restriction(f['st1'], f['st2'])
    return got == f['want'] or (f['want'] and not got and f['st1'] != f['st2'])


def ground_atomic_hierarchy(tier, seed):
    fails, n = [], 0
    rel = {}
    for a, b in itertools.product(ATOMIC_NAMES, repeat=2):
        n += 1
        want = atomic_subtype(a, b)
        got = is_sequence_type_restriction('xs:' + b, 'xs:' + a)
        rel[a, b] = got
        if got != want:
            fails.append({'key': f'xs:{a} as a subtype of xs:{b}', 'st1': 'xs:' + b, 'st2': 'xs:' + a, 'want': want,
                          'what': f'is_sequence_type_restriction("xs:{b}", "xs:{a}") = {got}; the XSD derivation table says {want}'})
    for a in ATOMIC_NAMES:
        n += 1
        if not rel[a, a]:
            fails.append({'key': f'reflexivity on xs:{a}', 'st1': 'xs:' + a, 'st2': 'xs:' + a, 'want': True, 'what': f'xs:{a} is not a subtype of itself'})
    for a, b, c in itertools.product(ATOMIC_NAMES, repeat=3):
        if rel[a, b] and rel[b, c]:
            n += 1
            if not rel[a, c]:
                fails.append({'key': f'transitivity xs:{a} <= xs:{b} <= xs:{c}', 'st1': 'xs:' + c, 'st2': 'xs:' + a, 'want': True,
                              'what': f'xs:{a} <= xs:{b} and xs:{b} <= xs:{c} but not xs:{a} <= xs:{c}'})
    return {'obligations': n, 'discharged': n - len(fails), 'evaluations': n, 'distinct': n, 'exhaustive': True, 'count_each': True,
            'scope': f'all ordered pairs of the {len(ATOMIC_NAMES)} built-in atomic type names against the XSD derivation table; reflexivity; transitivity on all '
            'triples in the relation', 'failures': fails}


GROUND = [Bounded('occurrence_lattice', ground_occurrence_lattice, _replay_occ),
          Bounded('atomic_type_hierarchy', ground_atomic_hierarchy, _replay_occ)]


# ---- structured universe of sequence types and a reference matcher ---------------------------------------------------------
def render_item(t):
    k = t[0]
    if k == 'atomic':
        return 'xs:' + t[1]
    if k in ('item', 'node', 'text', 'comment', 'namespace-node'):
        return k + '()'
    if k in ('element', 'attribute'):
        return f"{k}({t[1] or ''})"
    if k == 'pi':
        return f"processing-instruction({t[1] or ''})"
    if k == 'document':
        return f"document-node({render_item(t[1]) if t[1] else ''})"
    if k == 'function':
        if t[1] == '*':
            return 'function(*)'
        return f"function({', '.join(render(p) for p in t[1])}) as {render(t[2])}"
    if k == 'map':
        return 'map(*)' if t[1] == '*' else f'map({render_item(t[1])}, {render(t[2])})'
    if k == 'array':
        return 'array(*)' if t[1] == '*' else f'array({render(t[1])})'
    raise ValueError(t)


def render(st):
    if st[0] == 'empty':
        return 'empty-sequence()'
    text = render_item(st[0])
    if st[1] and st[0][0] == 'function' and st[0][1] != '*':
        return f'({text}){st[1]}'       # the indicator of a typed function test needs a parenthesized item type (XPath 3.0 2.5.4)
    return text + st[1]


A = lambda n: ('atomic', n)        # noqa
S = lambda it, occ='': (it, occ)   # noqa
ITEM_TYPES = [A(n) for n in ('anyAtomicType', 'string', 'integer', 'decimal', 'double', 'byte', 'untypedAtomic', 'boolean', 'date', 'anyURI', 'token',
                             'nonNegativeInteger', 'duration', 'dayTimeDuration', 'QName', 'float', 'long', 'NCName')] + [
    ('item',), ('node',), ('element', None), ('element', 'a'), ('element', '*'), ('element', 'b'), ('attribute', None), ('attribute', 'k'), ('attribute', 'x'),
    ('text',), ('comment',), ('pi', None), ('pi', 'pi'), ('pi', 'x'), ('document', None), ('document', ('element', 'a')), ('document', ('element', 'b')),
    ('namespace-node',),
    ('function', '*'), ('function', [S(A('string'), '?')], S(A('integer'))), ('function', [S(A('string'))], S(A('integer'))),
    ('function', [S(A('string'), '?')], S(A('decimal'))), ('function', [S(A('integer'))], S(A('string'))), ('function', [S(A('byte'))], S(A('string'))),
    ('function', [], S(A('integer'), '+')), ('function', [], S(A('integer'), '*')), ('function', [], S(A('integer'))), ('function', [], S(A('integer'), '?')),
    ('function', [S(('item',), '*')], S(('item',), '*')), ('function', [S(A('anyAtomicType'))], S(('item',), '*')),
    ('function', [S(A('integer'))], S(('item',), '*')),
    ('function', [S(A('string'), '?'), S(A('double'))], S(A('string'))), ('function', [S(A('string'), '?'), S(A('double')), S(A('double'))], S(A('string'))),
    ('map', '*'), ('map', A('integer'), S(A('string'))), ('map', A('decimal'), S(('item',))), ('map', A('string'), S(A('integer'), '+')),
    ('map', A('string'), S(A('integer'))), ('map', A('anyAtomicType'), S(('item',), '*')),
    ('array', '*'), ('array', S(A('integer'))), ('array', S(A('integer'), '+')), ('array', S(('item',), '*')), ('array', S(('array', S(A('integer'))))),
    ('array', S(A('integer'), '*')),
]
# typed function tests only without an indicator: '(function(..) as T)?' needs ParenthesizedItemType, which the parser does not support
SEQ_TYPES = [('empty',)] + [S(it, occ) for it in ITEM_TYPES for occ in CARD if not (occ and it[0] == 'function' and it[1] != '*')]

DOC = '<a k="v">t<!--c--><?pi p?><b/></a>'
# value universe: (expression, descriptor); descriptor = list of item descriptors
ATOM_VALUES = [("1", 'integer'), ("'s'", 'string'), ("1.5", 'decimal'), ("1e0", 'double'), ("true()", 'boolean'), ("xs:byte(5)", 'byte'),
               ("xs:untypedAtomic('u')", 'untypedAtomic'), ("xs:date('2000-01-01')", 'date'), ("xs:anyURI('u')", 'anyURI'), ("xs:token('t')", 'token'),
               ("xs:nonNegativeInteger(3)", 'nonNegativeInteger'), ("xs:dayTimeDuration('P1D')", 'dayTimeDuration'), ("xs:duration('P1Y')", 'duration'),
               ("xs:QName('a')", 'QName'), ("xs:float('1')", 'float'), ("xs:long(7)", 'long'), ("xs:NCName('n')", 'NCName'), ("xs:unsignedByte(1)", 'unsignedByte')]
NODE_VALUES = [("/", ('document', 'a')), ("/a", ('element', 'a')), ("/a/@k", ('attribute', 'k')), ("/a/text()", ('text',)), ("/a/comment()", ('comment',)),
               ("/a/processing-instruction()", ('pi', 'pi')), ("/a/b", ('element', 'b')), ("/a/namespace::xml", ('namespace-node',))]
FUNC_VALUES = [("substring#2", ('function', [S(A('string'), '?'), S(A('double'))], S(A('string')))),
               ("substring#3", ('function', [S(A('string'), '?'), S(A('double')), S(A('double'))], S(A('string')))),
               ("string-length#1", ('function', [S(A('string'), '?')], S(A('integer')))), ("upper-case#1", ('function', [S(A('string'), '?')], S(A('string')))),
               ("function($x as xs:integer) as xs:string { 'a' }", ('function', [S(A('integer'))], S(A('string')))),
               ("function() as xs:integer+ { 1 }", ('function', [], S(A('integer'), '+'))), ("function() as xs:integer { 1 }", ('function', [], S(A('integer')))),
               ("function() as xs:integer? { 1 }", ('function', [], S(A('integer'), '?'))),
               ("function($x) { $x }", ('function', [S(('item',), '*')], S(('item',), '*')))]
MAP_VALUES = [("map{}", ('mapv', [])), ("map{1: 'a', 2: 'b'}", ('mapv', [(['integer'], [['string']]), (['integer'], [['string']])])),
              ("map{'k': (1, 2)}", ('mapv', [(['string'], [['integer'], ['integer']])])), ("map{'k': 1}", ('mapv', [(['string'], [['integer']])]))]
ARRAY_VALUES = [("[]", ('arrayv', [])), ("[1, 2]", ('arrayv', [[['integer']], [['integer']]])), ("[(1, 2)]", ('arrayv', [[['integer'], ['integer']]])),
                ("[[1]]", ('arrayv', [[('arrayv', [[['integer']]])]])), ("[()]", ('arrayv', [[]]))]


def _atom(n):
    return ['atomv', n]


def item_desc(d):
    """Normalise the shorthand used in the map/array tables."""
    if isinstance(d, list) and len(d) == 1 and isinstance(d[0], str):
        return ('atomv', d[0])
    return d


def match_item(d, it):
    d = item_desc(d)
    k = it[0]
    if k == 'item':
        return True
    if d[0] == 'atomv':
        return k == 'atomic' and atomic_subtype(d[1], it[1])
    if k == 'atomic':
        return False
    if d[0] in ('document', 'element', 'attribute', 'text', 'comment', 'pi', 'namespace-node'):
        if k == 'node':
            return True
        if k != d[0]:
            return False
        if k in ('element', 'attribute', 'pi'):
            return it[1] in (None, '*') or it[1] == d[1]
        if k == 'document':
            return it[1] is None or match_item(('element', d[1]), it[1])
        return True
    if k in ('node', 'element', 'attribute', 'text', 'comment', 'pi', 'document', 'namespace-node'):
        return False
    if d[0] == 'function':
        if k != 'function':
            return False
        if it[1] == '*':
            return True
        return len(it[1]) == len(d[1]) and all(seq_subtype(p_t, p_d) for p_t, p_d in zip(it[1], d[1])) and seq_subtype(d[2], it[2])
    if d[0] == 'mapv':
        if k == 'function':
            if it[1] == '*':
                return True
            # a map is a function(xs:anyAtomicType) as V? ... : only the simple cases are decided by the reference
            return None
        if k != 'map':
            return False
        if it[1] == '*':
            return True
        return all(match_item(kd, it[1]) and match_seq(vd, it[2]) for kd, vd in d[1])
    if d[0] == 'arrayv':
        if k == 'function':
            return True if it[1] == '*' else None
        if k != 'array':
            return False
        if it[1] == '*':
            return True
        return all(match_seq(m, it[1]) for m in d[1])
    raise ValueError(d)


def match_seq(items, st):
    n = len(items)
    if st[0] == 'empty':
        return n == 0
    if min(n, 2) not in CARD[st[1]]:
        return False
    out = True
    for d in items:
        r = match_item(d, st[0])
        if r is None:
            return None
        out = out and r
    return out


def item_subtype(a, b):
    """XPath 3.1 2.5.6.2 on the structured universe (None = not decided by the reference)."""
    if a == b or b == ('item',):
        return True
    if a[0] == 'atomic' and b[0] == 'atomic':
        return atomic_subtype(a[1], b[1])
    if a[0] == 'atomic' or b[0] == 'atomic':
        return False
    kinds = ('element', 'attribute', 'text', 'comment', 'pi', 'document', 'namespace-node')
    if b == ('node',):
        return a[0] in kinds
    if a[0] in kinds and b[0] in kinds:
        if a[0] != b[0]:
            return False
        if a[0] in ('element', 'attribute', 'pi'):
            return b[1] in (None, '*') or (a[1] == b[1])
        if a[0] == 'document':
            return b[1] is None or (a[1] is not None and item_subtype(a[1], b[1]))
        return True
    if a[0] in kinds or a == ('node',) or a == ('item',) or b[0] in kinds:
        return False
    if b == ('function', '*'):
        return a[0] in ('function', 'map', 'array')
    if a[0] == 'function' and b[0] == 'function':
        if a[1] == '*':
            return False
        return len(a[1]) == len(b[1]) and all(seq_subtype(pb, pa) for pa, pb in zip(a[1], b[1])) and seq_subtype(a[2], b[2])
    if a[0] == 'map' and b[0] == 'map':
        if b[1] == '*':
            return True
        if a[1] == '*':
            return False
        return item_subtype(a[1], b[1]) and seq_subtype(a[2], b[2])
    if a[0] == 'array' and b[0] == 'array':
        if b[1] == '*':
            return True
        if a[1] == '*':
            return False
        return seq_subtype(a[1], b[1])
    if a[0] in ('map', 'array') and b[0] == 'function':
        return None
    return False


def seq_subtype(a, b):
    if a[0] == 'empty':
        return b[0] == 'empty' or 0 in CARD[b[1]]
    if b[0] == 'empty':
        return False
    if not CARD[a[1]] <= CARD[b[1]]:
        return False
    return item_subtype(a[0], b[0])


def _ctx():
    parser = ET.XMLParser(target=ET.TreeBuilder(insert_comments=True, insert_pis=True))
    return XPathContext(root=ET.ElementTree(ET.XML(DOC, parser)))


def _eval(expr, parser=None):
    try:
        tok = (parser or XPath31Parser()).parse(expr)
        return 'ok', tok.evaluate(_ctx())
    except ElementPathError as e:
        return 'err', (e.code or '').split(':')[-1]
    except Exception as e:      # noqa
        return 'crash', f'{type(e).__name__}: {e}'


def _values(rng, tier):
    single = [(e, [_atom(t)]) for e, t in ATOM_VALUES] + [(e, [d]) for e, d in NODE_VALUES + FUNC_VALUES + MAP_VALUES + ARRAY_VALUES]
    vals = [("()", [])] + single
    pairs = list(itertools.combinations(single, 2))
    rng.shuffle(pairs)
    for (e1, d1), (e2, d2) in pairs[: (40 if tier == 'quick' else 250)]:
        vals.append((f'({e1}, {e2})', d1 + d2))
    vals += [("(1, 2, 3)", [_atom('integer')] * 3), ("(/a, /a/b)", [('element', 'a'), ('element', 'b')]), ("(/a, 1)", [('element', 'a'), _atom('integer')]),
             ("(1, 's')", [_atom('integer'), _atom('string')]), ("(xs:byte(1), 2)", [_atom('byte'), _atom('integer')])]
    return vals


def matching_grid(tier, seed):
    rng = random.Random(20260925)
    fam, n = {}, 0

    def bad(k, **w):
        fam.setdefault(k, []).append(w)
    parser = XPath31Parser()
    for expr, desc in _values(rng, tier):
        st_v, value = _eval(expr)
        if st_v != 'ok':
            bad('a value of the universe cannot be built', expr=expr, got=repr(value)[:80])
            continue
        for st in SEQ_TYPES:
            want = match_seq([item_desc(d) if not isinstance(d, list) or d[0] != 'atomv' else tuple(d) for d in desc], st)
            if want is None:
                continue
            text = render(st)
            n += 1
            a = _eval(f'({expr}) instance of {text}')
            kind = st[0][0] if st[0] != 'empty' else 'empty-sequence'
            if kind == 'function' and st[0][1] != '*' and any(
                    isinstance(d, tuple) and d[0] == 'function' and d[2][0] != 'empty' and st[0][2][0] != 'empty'
                    and d[2][1] in ('?', '+') and st[0][2][1] == '*' for d in desc):
                kind = 'function (declared result T* against a function returning T? or T+)'
            if a != ('ok', want):
                bad(f"'instance of' differs from SequenceType matching for {kind} tests", expr=expr, type=text, want=want, got=repr(a)[:80])
            b = _eval(f'({expr}) treat as {text}')
            if want:
                same = b[0] == 'ok' and _same_value(b[1], value)
                if not same:
                    bad(f"'treat as' does not return the operand unchanged ({kind} tests)", expr=expr, type=text, got=repr(b)[:100])
            elif b != ('err', 'XPDY0050'):
                bad(f"'treat as' accepts a value that does not match ({kind} tests)", expr=expr, type=text, got=repr(b)[:100])
            try:
                c = match_sequence_type(value, text, parser)
            except ElementPathError as e:
                c = ('err', e.code)
            except Exception as e:     # noqa
                c = ('crash', type(e).__name__)
            if c != want:
                bad(f'match_sequence_type differs from SequenceType matching for {kind} tests', expr=expr, type=text, want=want, got=repr(c)[:80])
    # kind tests with arguments inside array and map tests (these go through the string form of the sequence type, not through the token of the test)
    for expr, want in (("[/a/processing-instruction()] instance of array(processing-instruction('pi'))", True), ('[/a/processing-instruction()] instance of array(processing-instruction("pi"))', True),
                       ("[/a/processing-instruction()] instance of array(processing-instruction(pi))", True), ("[/a/processing-instruction()] instance of array(processing-instruction('other'))", False),
                       ("[/a/processing-instruction()] instance of array(processing-instruction(other))", False), ("[/a/processing-instruction()] instance of array(processing-instruction())", True),
                       ("map{'k': /a/processing-instruction()} instance of map(xs:string, processing-instruction('pi'))", True),
                       ("map{'k': /a/processing-instruction()} instance of map(xs:string, processing-instruction('other'))", False),
                       ("[/a/@k] instance of array(attribute(k))", True), ("[/a/@k] instance of array(attribute(j))", False), ("[/a/b] instance of array(element(b))", True),
                       ("[/a/b] instance of array(element(c))", False), ("[/a/comment()] instance of array(comment())", True), ("[/a/comment()] instance of array(text())", False),
                       ("[/] instance of array(document-node(element(a)))", True), ("[/] instance of array(document-node(element(b)))", False),
                       ("[/a] instance of array(document-node(element(a)))", False), ("/a instance of document-node(element(b))", False), ("/a instance of document-node()", False),
                       ("[(/a, /a/b)] instance of array(element()+)", True), ("[(/a, /a/@k)] instance of array(element()+)", False),
                       ("map{1: [/a/processing-instruction()]} instance of map(xs:integer, array(processing-instruction('pi')))", True)):
        n += 1
        a = _eval(expr)
        if a != ('ok', want):
            bad("'instance of' differs from SequenceType matching for a kind test nested in an array or map test", expr=expr, want=want, got=repr(a)[:80])
        t = _eval(expr.replace(' instance of ', ' treat as '))
        if (t[0] == 'ok') != want and not (t == ('err', 'XPDY0050') and not want):
            bad("'treat as' disagrees with SequenceType matching for a kind test nested in an array or map test", expr=expr, want=want, got=repr(t)[:80])
    fails = [{'key': k, 'items': it[:5], 'count': len(it), 'what': f'{k}: e.g. {it[0]}'} for k, it in fam.items()]
    return {'evaluations': n, 'distinct': n, 'exhaustive': False,
            'scope': f'{len(SEQ_TYPES)} sequence types (18 atomic names, node kind tests with names, document-node(element()), 13 function tests, map and array tests, '
            "x 4 occurrences, empty-sequence()) x values of every kind (18 atomic types, 8 node kinds, 7 functions, 4 maps, 5 arrays, the empty sequence, sampled "
            "pairs): 'instance of', 'treat as' (value unchanged / XPDY0050) and match_sequence_type against a reference matcher written from XPath 3.1 2.5.5",
            'failures': fails}


def _same_value(a, b):
    a = a if isinstance(a, list) else [a]
    b = b if isinstance(b, list) else [b]
    if len(a) != len(b):
        return False
    for x, y in zip(a, b):
        if isinstance(x, XPathNode) or isinstance(y, XPathNode):
            if not (isinstance(x, XPathNode) and isinstance(y, XPathNode) and x.position == y.position and type(x) is type(y)):
                return False
        elif type(x) is not type(y):
            return False
        else:
            try:
                if hasattr(x, 'symbol'):
                    continue            # function items, maps, arrays: same class is what 'unchanged' can observe here
                if x != y:
                    return False
            except Exception:      # noqa
                return False
    return True


def _replay_grid(name):
    def replay(f):
        r = {'matching': matching_grid, 'subtype': subtype_grid, 'returns': return_type_grid}[name]('quick', 0)
        return all(x['key'] != f['key'] for x in r['failures'])
    return replay


def subtype_grid(tier, seed):
    rng = random.Random(20260925)
    fam, n = {}, 0

    def bad(k, **w):
        fam.setdefault(k, []).append(w)
    texts = [render(s) for s in SEQ_TYPES]
    lib = {}
    for s in texts:
        for t in texts:
            lib[s, t] = is_sequence_type_restriction(t, s)       # "s is a subtype of t"
    idx = range(len(texts))
    for i in idx:
        n += 1
        if not lib[texts[i], texts[i]]:
            bad('the subtype relation is not reflexive', type=texts[i])
    # soundness against the reference relation: whatever the library accepts must be a subtype by XPath 3.1 2.5.6
    for i in idx:
        for j in idx:
            n += 1
            want = seq_subtype(SEQ_TYPES[i], SEQ_TYPES[j])
            if lib[texts[i], texts[j]] and want is False:
                a, b = SEQ_TYPES[i], SEQ_TYPES[j]
                cat = 'occurrence' if (a[0] == 'empty' or b[0] == 'empty' or a[0] == b[0]) else f'{a[0][0]} vs {b[0][0]}'
                bad(f'the library accepts a subtype judgement that XPath 3.1 2.5.6 rejects ({cat})', sub=texts[i], sup=texts[j])
    # transitivity on the universe
    sup = {s: [t for t in texts if lib[s, t]] for s in texts}
    for s in texts:
        for t in sup[s]:
            for u in sup[t]:
                n += 1
                if not lib[s, u]:
                    bad('the subtype relation is not transitive', a=s, b=t, c=u)
    # soundness for matching: V matches S and S <= T (library) implies V matches T (library matcher)
    parser = XPath31Parser()
    for expr, desc in _values(rng, 'quick'):
        st_v, value = _eval(expr)
        if st_v != 'ok':
            continue
        m = {}
        for s in texts:
            try:
                m[s] = match_sequence_type(value, s, parser)
            except Exception:      # noqa
                m[s] = None
        for s in texts:
            if m[s]:
                for t in sup[s]:
                    n += 1
                    if m[t] is False:
                        bad('a value matches S, S is a subtype of T for the library, but the value does not match T', expr=expr, S=s, T=t)
    fails = [{'key': k, 'items': it[:5], 'count': len(it), 'what': f'{k}: e.g. {it[0]}'} for k, it in fam.items()]
    return {'evaluations': n, 'distinct': n, 'exhaustive': False,
            'scope': f'the {len(texts)} sequence types of the universe: reflexivity, transitivity on all triples in the relation, every accepted judgement checked against '
            'the reference subtype relation (XPath 3.1 2.5.6), and soundness for matching on the value universe (completeness of the relation is not required by the property)',
            'failures': fails}


# ---- declared return types of built-in functions ---------------------------------------------------------------------------------
SAMPLE_ARGS = {
    'xs:string': ["'abc'", "''", "'a b'", "'http://a/b/'"], 'xs:string?': ["'http://x/y'", "'abc'", "()"], 'xs:string*': ["('a', 'b')", "()"], 'xs:integer': ["2", "0", "-1"], 'xs:integer?': ["2", "()"],
    'xs:integer*': ["(1, 2)", "()"], 'xs:double': ["1.5e0", "xs:double('NaN')"], 'xs:double?': ["1.5e0", "()"], 'xs:decimal': ["1.5"], 'xs:decimal?': ["1.5", "()"],
    'xs:numeric?': ["1", "1.5", "2e0", "()"], 'xs:numeric': ["1", "1.5"], 'xs:boolean': ["true()"], 'xs:boolean?': ["true()", "()"],
    'xs:anyAtomicType': ["1", "'a'"], 'xs:anyAtomicType?': ["1", "'a'", "()"], 'xs:anyAtomicType*': ["(1, 'a')", "()", "(3, 1, 2)"],
    'item()': ["1", "/a"], 'item()?': ["1", "/a", "()"], 'item()*': ["(1, 2)", "()", "/a/b", "(/a, 1)"], 'item()+': ["(1, 2)", "/a"],
    'node()': ["/a"], 'node()?': ["/a", "()", "/a/@k"], 'node()*': ["/a/node()", "()"], 'element()': ["/a"], 'element()?': ["/a", "()"], 'element()*': ["/a/*", "()"],
    'xs:date?': ["xs:date('2000-02-29')", "()"], 'xs:dateTime?': ["xs:dateTime('2000-02-29T12:00:00Z')", "()"], 'xs:time?': ["xs:time('12:00:00')", "()"],
    'xs:duration?': ["xs:duration('P1Y2M')", "()"], 'xs:dayTimeDuration?': ["xs:dayTimeDuration('PT1H')", "()"], 'xs:yearMonthDuration?': ["xs:yearMonthDuration('P1Y')", "()"],
    'xs:QName?': ["xs:QName('a')", "()"], 'xs:QName': ["xs:QName('a')"], 'xs:anyURI?': ["xs:anyURI('http://a/b')", "()"],
    'map(*)': ["map{1: 2}", "map{}"], 'map(*)*': ["(map{1: 2}, map{3: 4})", "()"], 'array(*)': ["[1, 2]", "[]"], 'function(*)': ["abs#1"],
    'xs:hexBinary?': ["xs:hexBinary('0A')", "()"], 'xs:base64Binary?': ["xs:base64Binary('YQ==')", "()"], 'xs:language?': ["xs:language('en')", "()"],
    'document-node()?': ["/", "()"], 'xs:NCName?': ["xs:NCName('a')", "()"], 'xs:anyURI': ["xs:anyURI('http://a/b')"], 'xs:date': ["xs:date('2000-02-29')"],
    'xs:dateTime': ["xs:dateTime('2000-02-29T12:00:00Z')"], 'xs:time': ["xs:time('12:00:00')"],
}


def return_type_grid(tier, seed):
    fam, n, nfun = {}, 0, 0

    def bad(k, **w):
        fam.setdefault(k, []).append(w)
    parser = XPath31Parser()
    skip = {'error', 'trace', 'doc', 'collection', 'uri-collection', 'unparsed-text', 'unparsed-text-lines', 'unparsed-text-available', 'doc-available',
            'environment-variable', 'available-environment-variables', 'current-dateTime', 'current-date', 'current-time', 'random-number-generator',
            'load-xquery-module', 'transform', 'json-doc', 'put'}
    seen = set()
    for (qname, arity), sig in sorted(parser.function_signatures.items(), key=lambda kv: (str(kv[0][0]), kv[0][1])):
        local = qname.local_name if hasattr(qname, 'local_name') else str(qname).split('}')[-1]
        ns = getattr(qname, 'namespace', '') or ''
        if local in skip or (local, arity) in seen:
            continue
        prefix = {'http://www.w3.org/2005/xpath-functions': 'fn', 'http://www.w3.org/2005/xpath-functions/math': 'math',
                  'http://www.w3.org/2005/xpath-functions/map': 'map', 'http://www.w3.org/2005/xpath-functions/array': 'array'}.get(ns)
        if prefix is None:
            continue
        seen.add((local, arity))
        body = sig[9:]
        params_text, _, ret = body.rpartition(') as ')
        params = _split_params(params_text) if params_text else []
        if len(params) != arity:
            continue
        choices = [SAMPLE_ARGS.get(p) for p in params]
        if any(c is None for c in choices):
            continue
        nfun += 1
        for args in itertools.islice(itertools.product(*choices), 12 if tier == 'quick' else 60):
            expr = f"{prefix}:{local}({', '.join(args)})"
            st, val = _eval(expr, parser)
            if st == 'crash':
                continue        # escaping exceptions are C03's clause
            if st != 'ok':
                continue
            n += 1
            try:
                ok = match_sequence_type(val, ret, parser, strict=False)
            except Exception as e:      # noqa
                ok = None
            if ok is not False and ret.rstrip('?*+') == 'xs:anyURI':
                # the library's matcher promotes in both directions; an xs:string is not an xs:anyURI
                from elementpath.datatypes import AnyURI as _AnyURI
                ok = all(isinstance(x, _AnyURI) for x in (val if isinstance(val, list) else [val]))
            if ok is False:
                bad(f'{prefix}:{local}#{arity} returns a value outside its declared return type {ret}', expr=expr, got=repr(val)[:80], declared=ret)
    fails = [{'key': k, 'items': it[:4], 'count': len(it), 'what': f'{k}: e.g. {it[0]["expr"]} = {it[0]["got"]}'} for k, it in fam.items()]
    return {'evaluations': n, 'distinct': nfun, 'exhaustive': False,
            'scope': f'{nfun} registered function signatures of XPath 3.1 whose parameter types have sample values (of {len(parser.function_signatures)}), up to '
            f'{12 if tier == "quick" else 60} argument tuples each: every successful call returns a value matching the declared return type', 'failures': fails}


def _split_params(text):
    out, depth, cur = [], 0, ''
    for ch in text:
        if ch == '(':
            depth += 1
        elif ch == ')':
            depth -= 1
        if ch == ',' and depth == 0:
            out.append(cur.strip())
            cur = ''
        else:
            cur += ch
    if cur.strip():
        out.append(cur.strip())
    return out


BOUNDED = [Bounded('sequence_type_matching_vs_reference', matching_grid, _replay_grid('matching')),
           Bounded('subtype_relation_laws', subtype_grid, _replay_grid('subtype')),
           Bounded('declared_return_types', return_type_grid, _replay_grid('returns'))]
