"""C06 - numeric operators and rounding functions follow F&O arithmetic exactly.

Top-level postconditions are taken from XPath F&O 3.1 section 4.2 (op:numeric-*):
  idiv : $a idiv $b = ($a div $b) truncated toward zero; FOAR0001 on zero divisor;
         FOAR0002 on overflow / NaN / INF dividend.
  mod  : result has the sign of the dividend, a = (a idiv b)*b + (a mod b);
         FOAR0001 on zero divisor for integer/decimal operands; NaN for doubles.
  div  : integer operands give the exact decimal quotient; FOAR0001 on zero divisor for
         integer/decimal; +-INF / NaN for float/double.
"""
from __future__ import annotations

import decimal
import math

from pyvc.values import *  # noqa
from pyvc.contract import Contract, Case
from pyvc.specprims import *  # noqa
from .common import *  # noqa


# ---- spec functions (F&O definitions) ---------------------------------------------------

def trunc_div(a, b):
    """F&O 4.2.5 op:numeric-integer-divide: the quotient truncated toward zero (b != 0)."""
    return tdiv(a, b)


def mod_spec(a, b):
    """F&O 4.2.6 op:numeric-mod for exact operands: a - b * trunc(a / b) (b != 0)."""
    if is_int(a) and is_int(b):
        return a - b * tdiv(a, b)
    return exact(a) - exact(b) * tdiv(a, b)


def huge(a, b):
    """Implementation-defined limit (F&O 4.2: overflow may raise FOAR0002): the integer
    quotient does not fit the 28-digit decimal context, or an operand is beyond the double
    range (more than 308 digits)."""
    return abs(trunc_div(a, b)) >= 10 ** 28 or abs(exact(a)) >= 2 ** 1024 or abs(exact(b)) >= 2 ** 1024


SPECS = [trunc_div, mod_spec, huge]

KINDS = {'int': lambda S, n, ex=None: S.int(n), 'dec': lambda S, n, ex=None: S.dec(n),
         'float': lambda S, n, ex=None: S.float(n, ex=ex)}


def operands_case(version, symbol, k1, k2, compat=None, schema=False, nitems=2):
    """self.get_operands(context, cls=...) is the havoc point: it returns the operand pair.
    Its own contract (numeric promotion) is proved separately (get_operands.*)."""
    def setup(S, ex):
        op1 = KINDS[k1](S, 'op1', ex)
        op2 = KINDS[k2](S, 'op2', ex)
        tok = mk_token(version, symbol, parser=mk_parser(version, compat), nitems=nitems)
        ctx = mk_context(schema)
        def remainder(ex, node, a, kw):
            # T-DECREM (helpers.decimal_remainder, not under contract): the exact remainder of the truncated division of two exact operands
            ra, rb = I.as_real_term(a[0]), I.as_real_term(a[1])
            if ex.test(VBool(rb == 0)):
                ex.raise_py(decimal.InvalidOperation)          # Decimal % 0 signals DivisionUndefined / InvalidOperation
            qt = I.trunc_real(ra / rb)
            return VDec(ra - rb * z3.ToReal(qt))
        hooks = std_hooks(tok, {'self.get_operands': lambda ex, node, a, kw: VTuple([op1, op2]), 'decimal_remainder': remainder})
        return Case([tok, ctx], names={}, hooks=hooks, label=f'{k1}x{k2}')
    return setup


def binary_native(version, op):
    def native(inputs):
        return eval_native(version, f'$a {op} $b', a=inputs['op1'], b=inputs['op2'])
    return native


def pair_samples(gen1, gen2=None):
    def samples(rng):
        g1 = gen1(rng)
        if gen2 is None:
            for a, b in g1:
                yield {'op1': a, 'op2': b}
        else:
            g2 = gen2(rng)
            for (a, _), (_, b) in zip(g1, g2):
                yield {'op1': a, 'op2': b}
    return samples


def mixed_pairs(kinds):
    k1, k2 = kinds
    grid = {'int': INT_GRID, 'dec': DEC_GRID, 'float': FLOAT_GRID}

    def gen(rng):
        for a in grid[k1]:
            for b in grid[k2]:
                yield {'op1': a, 'op2': b}
        while True:
            def one(k):
                if k == 'int':
                    return rng.randint(-10 ** 6, 10 ** 6)
                if k == 'dec':
                    return decimal.Decimal(rng.randint(-10 ** 6, 10 ** 6)) / decimal.Decimal(10 ** rng.randint(0, 4))
                return rng.choice(FLOAT_GRID + [rng.uniform(-100, 100)])
            yield {'op1': one(k1), 'op2': one(k2)}
    return gen


CONTRACTS = []

EXACT_PAIRS = [('int', 'int'), ('dec', 'dec'), ('int', 'dec'), ('dec', 'int')]

for version in ('2.0',):
    for k1, k2 in EXACT_PAIRS:
        CONTRACTS.append(Contract(
            f'idiv.{k1}.{k2}', 'C06', token_method(version, 'idiv', 'evaluate'),
            operands_case(version, 'idiv', k1, k2),
            post=[
                ('zero_divisor_iff_FOAR0001', "(raised_code == 'FOAR0001') == (op2 == 0)"),
                ('truncates_toward_zero',
                 "op2 == 0 or (returned and result == trunc_div(op1, op2))"),
                ('never_an_overflow_error',            # the result is an xs:integer: exact whatever the size of the quotient
                 "raised_code != 'FOAR0002'"),
                ('result_is_integer', "not returned or is_int(result)"),
                ('only_coded_errors', "returned or raised_code is not None"),
            ],
            specs=SPECS, native=binary_native(version, 'idiv'), samples=mixed_pairs((k1, k2)),
            expect_min_obligations=5))

    for k1, k2 in EXACT_PAIRS:
        CONTRACTS.append(Contract(
            f'mod.{k1}.{k2}', 'C06', token_method(version, 'mod', 'evaluate'),
            operands_case(version, 'mod', k1, k2),
            post=[
                ('zero_divisor_iff_FOAR0001', "(raised_code == 'FOAR0001') == (op2 == 0)"),
                ('sign_of_dividend_identity',
                 "op2 == 0 or (returned and exact(result) == mod_spec(op1, op2))"),
                ('never_an_overflow_error',            # the remainder of exact operands is exact whatever the size of the quotient (under T-DECREM)
                 "raised_code != 'FOAR0002'"),
                ('result_type', "not returned or is_int(result) or (is_dec(result) and not (is_int(op1) and is_int(op2)))"),
                ('only_coded_errors', "returned or raised_code is not None"),
            ],
            specs=SPECS, native=binary_native(version, 'mod'), samples=mixed_pairs((k1, k2)),
            expect_min_obligations=5))

    for k1, k2 in EXACT_PAIRS:
        CONTRACTS.append(Contract(
            f'div.{k1}.{k2}', 'C06', token_method(version, 'div', 'evaluate'),
            operands_case(version, 'div', k1, k2, compat=False),
            post=[
                ('zero_divisor_iff_FOAR0001', "(raised_code == 'FOAR0001') == (op2 == 0)"),
                ('exact_quotient', "op2 == 0 or (returned and exact(result) == exact_div(op1, op2))"),
                ('result_is_decimal', "not returned or is_dec(result)"),
                ('only_coded_errors', "returned or raised_code is not None"),
            ],
            specs=SPECS, native=binary_native(version, 'div'), samples=mixed_pairs((k1, k2)),
            notes=['A-DEC: quotients are exact rationals; rounding of Decimal division at precision 28 is not modelled'],
            expect_min_obligations=4))


# ---- rounding functions, abs, unary and additive/multiplicative operators --------------------

def argument_case(version, symbol, kind, nitems=1, extra_hooks=None, fields=None, kinds=None):
    def setup(S, ex):
        arg = (kinds or KINDS)[kind](S, 'arg', ex)
        f = {'context': NONE}
        f.update(fields or {})
        tok = mk_token(version, symbol, parser=mk_parser(version, False), nitems=nitems, **f)
        ctx = mk_context()
        hooks = std_hooks(tok, {'self.get_argument': lambda ex, node, a, kw: arg})
        hooks.update(extra_hooks or {})
        return Case([tok, ctx], hooks=hooks, label=kind)
    return setup


def unary_native(version, template):
    def native(inputs):
        return eval_native(version, template, a=inputs['arg'])
    return native


def arg_samples(kind):
    grid = {'int': INT_GRID, 'dec': DEC_GRID + [decimal.Decimal('-0.5'), decimal.Decimal('0.49'), decimal.Decimal('-2.51')],
            'float': FLOAT_GRID}[kind]

    def gen(rng):
        for a in grid:
            yield {'arg': a}
        while True:
            if kind == 'int':
                yield {'arg': rng.randint(-10 ** 9, 10 ** 9)}
            elif kind == 'dec':
                yield {'arg': decimal.Decimal(rng.randint(-10 ** 6, 10 ** 6)) / decimal.Decimal(rng.choice([1, 2, 4, 10, 100]))}
            else:
                yield {'arg': rng.choice([rng.uniform(-50, 50), rng.randint(-99, 99) + 0.5])}
    return gen


def is_round(r, x):
    """F&O 4.4.4 fn:round: r is the integer nearest to x, ties toward positive infinity:
    r - 1/2 <= x < r + 1/2."""
    return is_integral(r) and 2 * exact(r) - 1 <= 2 * exact(x) and 2 * exact(x) < 2 * exact(r) + 1


def is_floor(r, x):
    """F&O 4.4.3: the largest integer not greater than x."""
    return is_integral(r) and exact(r) <= exact(x) and exact(x) < exact(r) + 1


def is_ceiling(r, x):
    """F&O 4.4.2: the smallest integer not less than x."""
    return is_integral(r) and exact(r) - 1 < exact(x) and exact(x) <= exact(r)


def half_even_spec(x):
    """F&O 4.4.5 fn:round-half-to-even with precision 0."""
    f = floor_(exact(x))
    d = exact(x) - f
    if 2 * d < 1:
        return f
    if 2 * d > 1:
        return f + 1
    return f if f % 2 == 0 else f + 1


SPECS2 = [is_round, is_floor, is_ceiling, half_even_spec]

FINITE = "is_finite(arg)"
FSPLIT = ["abs(exact(arg)) >= 2 ** 53"]
for kind in ('int', 'dec', 'float'):
    CONTRACTS.append(Contract(
        f'round.{kind}', 'C06', token_method('2.0', 'round', 'evaluate'),
        argument_case('2.0', 'round', kind),
        post=[
            ('half_toward_positive_infinity', "not is_finite(arg) or (returned and is_round(result, arg))"),
            ('zero_results_keep_the_sign_of_the_argument', "not (is_float(arg) and is_finite(arg) and returned and exact(result) == 0) or sign_bit(result) == sign_bit(arg)"),
            ('result_class_is_argument_class', "not returned or same_class(result, arg)"),
            ('nan_inf_passthrough', "is_finite(arg) or (returned and is_nan(result) == is_nan(arg) and inf_sign(result) == inf_sign(arg))"),
            ('only_coded_errors', "returned or raised_code is not None"),
        ],
        specs=SPECS2, native=unary_native('2.0', 'round($a)'), samples=arg_samples(kind), expect_min_obligations=4))
    for sym, spec in (('floor', 'is_floor(result, arg)'), ('ceiling', 'is_ceiling(result, arg)')):
        CONTRACTS.append(Contract(
            f'{sym}.{kind}', 'C06', token_method('2.0', sym, 'evaluate'),
            argument_case('2.0', sym, kind),
            post=[
                ('value', f"not is_finite(arg) or (returned and {spec})"),
                ('zero_results_keep_the_sign_of_the_argument', "not (is_float(arg) and is_finite(arg) and returned and exact(result) == 0) or sign_bit(result) == sign_bit(arg)"),
                ('result_class_is_argument_class', "not returned or same_class(result, arg)"),
                ('nan_inf_passthrough', "is_finite(arg) or (returned and is_nan(result) == is_nan(arg) and inf_sign(result) == inf_sign(arg))"),
                ('only_coded_errors', "returned or raised_code is not None"),
            ],
            specs=SPECS2, native=unary_native('2.0', f'{sym}($a)'), samples=arg_samples(kind), expect_min_obligations=4))
    CONTRACTS.append(Contract(
        f'abs.{kind}', 'C06', token_method('2.0', 'abs', 'evaluate'),
        argument_case('2.0', 'abs', kind),
        post=[
            ('value', "not is_finite(arg) or (returned and exact(result) == abs(exact(arg)))"),
            ('no_negative_zero', "not (is_float(arg) and is_finite(arg) and returned and exact(result) == 0) or not sign_bit(result)"),
            ('result_class_is_argument_class', "not returned or same_class(result, arg)"),
            ('nan_inf', "is_finite(arg) or (returned and is_nan(result) == is_nan(arg) and inf_sign(result) == abs(inf_sign(arg)))"),
            ('only_coded_errors', "returned or raised_code is not None"),
        ],
        specs=SPECS2, native=unary_native('2.0', 'abs($a)'), samples=arg_samples(kind), expect_min_obligations=4))
    CONTRACTS.append(Contract(
        f'round_half_to_even.{kind}', 'C06', token_method('2.0', 'round-half-to-even', 'evaluate'),
        argument_case('2.0', 'round-half-to-even', kind, nitems=1),
        pre=["abs(exact(arg)) < 10 ** 28"] if kind == 'dec' else [],
        notes=['round-half-to-even on xs:decimal is proved for |arg| < 10**28 (beyond the decimal context the code '
               'falls back to double arithmetic, which is not modelled: A-FP)'] if kind == 'dec' else [],
        post=[
            ('half_to_even', "not is_finite(arg) or (returned and exact(result) == half_even_spec(arg))"),
            ('zero_results_keep_the_sign_of_the_argument', "not (is_float(arg) and is_finite(arg) and returned and exact(result) == 0) or sign_bit(result) == sign_bit(arg)"),
            ('result_class_is_argument_class', "not returned or same_class(result, arg)"),
            ('nan_inf_passthrough', "is_finite(arg) or (returned and is_nan(result) == is_nan(arg) and inf_sign(result) == inf_sign(arg))"),
            ('only_coded_errors', "returned or raised_code is not None"),
        ],
        specs=SPECS2, native=unary_native('2.0', 'round-half-to-even($a)'), samples=arg_samples(kind),
        expect_min_obligations=4))
    # unary minus / plus (the 1-operand branch of the '-' / '+' tokens)
    for sym, spec in (('-', '-exact(arg)'), ('+', 'exact(arg)')):
        CONTRACTS.append(Contract(
            f'unary{"minus" if sym == "-" else "plus"}.{kind}', 'C06', token_method('2.0', sym, 'evaluate'),
            argument_case('2.0', sym, kind, nitems=1),
            post=[
                ('value', f"not is_finite(arg) or (returned and exact(result) == {spec})"),
                ('result_class_is_argument_class', "not returned or same_class(result, arg)"),
                ('nan_inf', "is_finite(arg) or (returned and is_nan(result) == is_nan(arg) and inf_sign(result) == "
                            + ("-inf_sign(arg)" if sym == '-' else "inf_sign(arg)") + ")"),
                ('negative_zero', "not (is_float(arg) and is_finite(arg) and exact(arg) == 0) or sign_bit(result) == "
                                  + ("(not sign_bit(arg))" if sym == '-' else "sign_bit(arg)")),
            ],
            specs=SPECS2, native=unary_native('2.0', f'{sym}$a'), samples=arg_samples(kind), expect_min_obligations=4))

# binary + - * on exact operands: exact results (A-DEC), class by promotion
for sym, pyop in (('+', '+'), ('-', '-'), ('*', '*')):
    for k1, k2 in EXACT_PAIRS:
        CONTRACTS.append(Contract(
            f'{ {"+": "plus", "-": "minus", "*": "times"}[sym] }.{k1}.{k2}', 'C06', token_method('2.0', sym, 'evaluate'),
            operands_case('2.0', sym, k1, k2),
            post=[
                ('exact_value', f"returned and exact(result) == exact(op1) {pyop} exact(op2)"),
                ('result_class', "is_int(result) if is_int(op1) and is_int(op2) else is_dec(result)"),
            ],
            specs=SPECS, native=binary_native('2.0', sym), samples=mixed_pairs((k1, k2)),
            notes=['A-DEC: sums/products of decimals are exact rationals (rounding at 28 digits not modelled)'],
            expect_min_obligations=2))


# ---- XPath 3.0+ fn:round($arg, $precision): concrete precisions, unbounded $arg -------------

def is_round_p(r, x, p):
    """F&O 3.1 4.4.4: r is the multiple of 10**-p nearest to x, ties toward positive infinity."""
    if p >= 0:
        s = 10 ** p
        return is_integral(exact(r) * s) and 2 * exact(r) * s - 1 <= 2 * exact(x) * s and \
            2 * exact(x) * s < 2 * exact(r) * s + 1
    s = 10 ** (-p)
    return is_integral(exact_div(r, s)) and 2 * exact(r) - s <= 2 * exact(x) and 2 * exact(x) < 2 * exact(r) + s


def round30_case(kind, precision):
    def setup(S, ex):
        arg = KINDS[kind](S, 'arg', ex)
        tok = mk_token('3.1', 'round', parser=mk_parser('3.1', False), nitems=1 if precision is None else 2,
                       context=NONE)
        ctx = mk_context()

        def get_argument(ex, node, a, kw):
            if 'index' in kw:
                return VInt(0 if precision is None else precision)
            return arg
        hooks = std_hooks(tok, {'self.get_argument': get_argument})
        return Case([tok, ctx], hooks=hooks, names={'p': VInt(0 if precision is None else precision)},
                    label=f'{kind},p={precision}')
    return setup


def round30_native(precision):
    def native(inputs):
        expr = 'round($a)' if precision is None else f'round($a, {precision})'
        return eval_native('3.1', expr, a=inputs['arg'])
    return native


for kind in ('int', 'dec', 'float'):
    for precision in (None, 0, 1, 2, -1, -2):
        if kind == 'float' and precision not in (None, 0):
            continue   # float results at other scales are not exactly representable (A-FP): bounded check
        CONTRACTS.append(Contract(
            f'round30.{kind}.p{precision}', 'C06', token_method('3.1', 'round', 'evaluate'),
            round30_case(kind, precision),
            post=[
                ('half_toward_positive_infinity', "not is_finite(arg) or (returned and is_round_p(result, arg, p))"),
                ('result_class_is_argument_class', "not returned or same_class(result, arg)"),
                ('only_coded_errors', "returned or raised_code is not None"),
            ],
            specs=[is_round_p], native=round30_native(precision), samples=arg_samples(kind),
            expect_min_obligations=3))


# ---- float/double operands: IEEE special-value tables (finite arithmetic is A-FP, bounded) -----

def sgn(x):
    """sign of a number as -1/0/1 (infinities included)"""
    if inf_sign(x) != 0:
        return inf_sign(x)
    return 1 if exact(x) > 0 else (-1 if exact(x) < 0 else 0)


def is_zero(x):
    return is_finite(x) and exact(x) == 0


def beyond(a, b):
    """an integer operand that cannot be promoted to xs:double (FOAR0002 is then legitimate)"""
    return (is_int(a) and abs(a) >= 2 ** 1024) or (is_int(b) and abs(b) >= 2 ** 1024)


def exactly_promoted(a, b):
    """integer operands are promoted to double without rounding"""
    return (not is_int(a) or abs(a) <= 2 ** 53) and (not is_int(b) or abs(b) <= 2 ** 53)


FSPECS = [sgn, is_zero, beyond, exactly_promoted, trunc_div]
FLOAT_PAIRS = [('float', 'float'), ('int', 'float'), ('float', 'int')]

for k1, k2 in FLOAT_PAIRS:
    CONTRACTS.append(Contract(
        f'div.{k1}.{k2}', 'C06', token_method('2.0', 'div', 'evaluate'),
        operands_case('2.0', 'div', k1, k2, compat=False),
        post=[
            ('never_raises_for_doubles', "returned or (beyond(op1, op2) and raised_code == 'FOAR0002')"),
            ('result_is_double', "not returned or is_float(result)"),
            ('nan_propagates', "beyond(op1, op2) or not (is_nan(op1) or is_nan(op2)) or is_nan(result)"),
            ('zero_by_zero_and_inf_by_inf_are_nan',
             "not ((is_zero(op1) and is_zero(op2)) or (inf_sign(op1) != 0 and inf_sign(op2) != 0)) or is_nan(result)"),
            ('nonzero_by_zero_is_signed_infinity',
             "not (is_zero(op2) and not is_nan(op1) and not is_zero(op1)) or "
             "(not is_nan(result) and inf_sign(result) == sgn(op1) * (-1 if sign_bit(op2) else 1))"),
            ('infinity_by_finite_is_signed_infinity',
             "beyond(op1, op2) or not (inf_sign(op1) != 0 and is_finite(op2)) or "
             "(not is_nan(result) and inf_sign(result) == inf_sign(op1) * (-1 if sign_bit(op2) else 1))"),
            ('finite_by_infinity_is_signed_zero',
             "beyond(op1, op2) or not (is_finite(op1) and inf_sign(op2) != 0) or "
             "(is_zero(result) and sign_bit(result) == (sign_bit(op1) != sign_bit(op2)))"),
        ],
        inline=('float_result',), specs=FSPECS, native=binary_native('2.0', 'div'), samples=mixed_pairs((k1, k2)), expect_min_obligations=7))
    CONTRACTS.append(Contract(
        f'idiv.{k1}.{k2}', 'C06', token_method('2.0', 'idiv', 'evaluate'),
        operands_case('2.0', 'idiv', k1, k2),
        post=[
            ('nan_or_infinite_dividend_is_FOAR0002_or_FOAR0001',
             "not (is_nan(op1) or is_nan(op2) or inf_sign(op1) != 0) or raised_code in ('FOAR0002', 'FOAR0001')"),
            ('zero_divisor_is_FOAR0001',
             "not (is_zero(op2) and is_finite(op1)) or raised_code == 'FOAR0001'"),
            ('finite_by_infinity_is_zero',
             "not (is_finite(op1) and inf_sign(op2) != 0) or (returned and result == 0)"),
            ('truncates_toward_zero_exactly',
             "not (is_finite(op1) and is_finite(op2) and not is_zero(op2)) or "
             "(returned and result == trunc_div(op1, op2))"),
            ('result_is_integer', "not returned or is_int(result)"),
            ('only_coded_errors', "returned or raised_code is not None"),
        ],
        specs=FSPECS, native=binary_native('2.0', 'idiv'), samples=mixed_pairs((k1, k2)), expect_min_obligations=5))
    CONTRACTS.append(Contract(
        f'mod.{k1}.{k2}', 'C06', token_method('2.0', 'mod', 'evaluate'),
        operands_case('2.0', 'mod', k1, k2),
        post=[
            ('never_raises_for_doubles', "returned or (beyond(op1, op2) and raised_code == 'FOAR0002')"),
            ('nan_cases', "beyond(op1, op2) or not (is_nan(op1) or is_nan(op2) or inf_sign(op1) != 0 or is_zero(op2)) "
                          "or is_nan(result)"),
            ('finite_mod_infinity_is_dividend',
             "not exactly_promoted(op1, op2) or not (is_finite(op1) and inf_sign(op2) != 0) or "
             "(is_finite(result) and exact(result) == exact(op1))"),
            ('sign_of_dividend_identity',
             "not exactly_promoted(op1, op2) or not (is_finite(op1) and is_finite(op2) and not is_zero(op2)) or "
             "(is_finite(result) and exact(result) == exact(op1) - exact(op2) * trunc_div(op1, op2))"),
            ('zero_result_keeps_sign_of_dividend',
             "not exactly_promoted(op1, op2) or not (is_finite(op1) and is_finite(op2) and not is_zero(op2)) or "
             "not is_zero(result) or not is_float(op1) or sign_bit(result) == sign_bit(op1)"),
            ('result_is_double', "not returned or is_float(result)"),
        ],
        inline=('float_result',), specs=FSPECS, native=binary_native('2.0', 'mod'), samples=mixed_pairs((k1, k2)), expect_min_obligations=3))
    for sym, name in (('+', 'plus'), ('-', 'minus'), ('*', 'times')):
        CONTRACTS.append(Contract(
            f'{name}.{k1}.{k2}', 'C06', token_method('2.0', sym, 'evaluate'),
            operands_case('2.0', sym, k1, k2),
            post=[
                ('never_raises_for_doubles', "returned or (beyond(op1, op2) and raised_code == 'FOAR0002')"),
                ('result_is_double', "not returned or is_float(result)"),
                ('nan_propagates', "beyond(op1, op2) or not (is_nan(op1) or is_nan(op2)) or is_nan(result)"),
            ] + ([('infinity_times_zero_is_nan',
                   "beyond(op1, op2) or not ((inf_sign(op1) != 0 and is_zero(op2)) or (is_zero(op1) and inf_sign(op2) != 0)) "
                   "or is_nan(result)"),
                  ('infinity_times_nonzero_is_signed_infinity',
                   "beyond(op1, op2) or not ((inf_sign(op1) != 0 or inf_sign(op2) != 0) and not is_nan(op1) and not is_nan(op2) and "
                   "not is_zero(op1) and not is_zero(op2)) or inf_sign(result) == sgn(op1) * sgn(op2)")]
                 if sym == '*' else
                 [('opposite_infinities_are_nan',
                   "not (inf_sign(op1) != 0 and inf_sign(op2) != 0 and inf_sign(op1) %s inf_sign(op2)) or is_nan(result)"
                   % ('!=' if sym == '+' else '==')),
                  ('infinity_absorbs_finite',
                   "beyond(op1, op2) or not (inf_sign(op1) != 0 and is_finite(op2)) or inf_sign(result) == inf_sign(op1)")]),
            specs=FSPECS, native=binary_native('2.0', sym), samples=mixed_pairs((k1, k2)), expect_min_obligations=4))


# ---- get_operands: numeric type promotion of the operand pair (F&O B.1) ----------------------
from elementpath.datatypes import Float as XsFloat          # noqa: E402
from elementpath.xpath_tokens.base import XPathToken         # noqa: E402

PKINDS = dict(KINDS)
PKINDS['xsfloat'] = lambda S, n, ex=None: S.float(n, pycls=XsFloat, ex=ex)
PROMOTED = {('dec', 'float'): ('float', 'float'), ('float', 'dec'): ('float', 'float'),
            ('dec', 'xsfloat'): ('Float', 'Float'), ('xsfloat', 'dec'): ('Float', 'Float')}
CLSNAME = {'int': 'int', 'dec': 'Decimal', 'float': 'float', 'xsfloat': 'Float'}
PSAMPLE = {'int': INT_GRID[:9], 'dec': DEC_GRID[:9], 'float': FLOAT_GRID, 'xsfloat': [XsFloat(x) for x in (0.5, -1.5, 2.0, 1e10)]}


def get_operands_case(k1, k2):
    def setup(S, ex):
        a = PKINDS[k1](S, 'a', ex)
        b = PKINDS[k2](S, 'b', ex)
        tok = mk_token('2.0', '+', nitems=2)
        ctx = mk_context()

        def get_argument(ex, node, args, kw):
            return b if 'index' in kw else a
        return Case([tok, ctx], hooks=std_hooks(tok, {'self.get_argument': get_argument}))
    return setup


def get_operands_native(i):
    tok = parse('2.0', '$a + $b')
    ctx = XPathContext(root=None, item=1, variables={'a': i['a'], 'b': i['b']})
    return run_native(lambda: tok.get_operands(ctx))


for k1 in ('int', 'dec', 'float', 'xsfloat'):
    for k2 in ('int', 'dec', 'float', 'xsfloat'):
        e1, e2 = PROMOTED.get((k1, k2), (CLSNAME[k1], CLSNAME[k2]))
        unchanged = (k1, k2) not in PROMOTED
        CONTRACTS.append(Contract(
            f'get_operands.{k1}.{k2}', 'C06', lambda: XPathToken.get_operands, get_operands_case(k1, k2),
            post=[
                ('promoted_classes', f"returned and class_name(result[0]) == '{e1}' and class_name(result[1]) == '{e2}'"),
                ('values_kept', "returned and " + (
                    "unchanged(result[0], a) and unchanged(result[1], b)" if unchanged else
                    ("unchanged(result[1], b) and (not is_finite(result[0]) or abs(exact(a)) > 2 ** 53 or not is_integral(a) or exact(result[0]) == exact(a))"
                     if k1 == 'dec' else
                     "unchanged(result[0], a) and (not is_finite(result[1]) or abs(exact(b)) > 2 ** 53 or not is_integral(b) or exact(result[1]) == exact(b))"))),
            ],
            native=get_operands_native,
            samples=lambda rng, k1=k1, k2=k2: ({'a': x, 'b': y} for x in PSAMPLE[k1] for y in PSAMPLE[k2]),
            expect_min_obligations=2))


def _float_new(v):
    """T-FLOATNEW: hand-written model of datatypes.Float.__new__ on a float argument (NaN kept, values beyond +-3.4028235E38 become
    infinities, values inside +-1e-37 are flushed to a zero of the same sign, anything else is kept): trusted, cross-checked by the
    bounded stand-in xs_float_types_and_special_values"""
    big = z3.RealVal('340282350000000000000000000000000000000')
    tiny = z3.RealVal(1) / z3.RealVal('1' + '0' * 37)
    fin = z3.And(z3.Not(v.nan), v.inf == 0)
    over, under = z3.And(fin, v.val > big), z3.And(fin, v.val < -big)
    flush = z3.And(fin, v.val > -tiny, v.val < tiny)
    return VFloat(v.nan, z3.If(over, 1, z3.If(under, -1, v.inf)), z3.If(z3.Or(over, under, flush), z3.RealVal(0), v.val),
                  z3.If(over, False, z3.If(under, True, v.neg)), XsFloat)


def xsfloat_case(symbol):
    def setup(S, ex):
        arg = PKINDS['xsfloat'](S, 'arg', ex)
        tok = mk_token('2.0', symbol, parser=mk_parser('2.0', False), nitems=1, context=NONE)
        ctx = mk_context()
        hooks = std_hooks(tok, {
            'self.get_argument': lambda ex, node, a, kw: arg,
            # the builtin float operations reached through super() act on the receiver, which is `arg`
            'super(Float, self).__neg__': lambda ex, node, a, kw: VFloat(arg.nan, -arg.inf, -arg.val, z3.If(arg.nan, arg.neg, z3.Not(arg.neg))),
            'super(Float, self).__pos__': lambda ex, node, a, kw: VFloat(arg.nan, arg.inf, arg.val, arg.neg),
            'super(Float, self).__abs__': lambda ex, node, a, kw: VFloat(arg.nan, z3.If(arg.inf < 0, -arg.inf, arg.inf), z3.If(arg.val >= 0, arg.val, -arg.val), False),
            'self.__class__': lambda ex, node, a, kw: _float_new(a[0]),
        })
        return Case([tok, ctx], hooks=hooks, label='xsfloat')
    return setup


def xs_float_invariant(x):
    """the representation invariant of datatypes.Float values (established by Float.__new__)"""
    return not is_finite(x) or (abs(exact(x)) <= 340282350000000000000000000000000000000 and (exact(x) == 0 or abs(exact(x)) * 10 ** 37 >= 1))


# unary operators and the rounding functions on xs:float (datatypes.Float): the result is an xs:float with the double-precision value
XSF_SAMPLES = lambda rng: ({'arg': XsFloat(x)} for x in (0.0, -0.0, 1.5, -2.5, 0.5, -0.5, 3e38, 1e-30, math.inf, -math.inf, math.nan, 2.0, -7.25))    # noqa
for sym, name, spec in (('-', 'unaryminus', '-exact(arg)'), ('+', 'unaryplus', 'exact(arg)')):
    CONTRACTS.append(Contract(
        f'{name}.xsfloat', 'C06', token_method('2.0', sym, 'evaluate'),
        xsfloat_case(sym), pre=['xs_float_invariant(arg)'],
        inline=('Float.__neg__', 'Float.__pos__'),
        post=[
            ('value', f"not is_finite(arg) or (returned and exact(result) == {spec})"),
            ('result_is_xs_float', "returned and class_name(result) == 'Float'"),
            ('nan_inf', "is_finite(arg) or (returned and is_nan(result) == is_nan(arg) and inf_sign(result) == "
                        + ("-inf_sign(arg)" if sym == '-' else "inf_sign(arg)") + ")"),
            ('negative_zero', "not (is_finite(arg) and exact(arg) == 0) or sign_bit(result) == "
                              + ("(not sign_bit(arg))" if sym == '-' else "sign_bit(arg)")),
        ],
        specs=SPECS2 + [xs_float_invariant], native=unary_native('2.0', f'{sym}$a'), samples=XSF_SAMPLES, expect_min_obligations=4,
        notes=['T-FLOATNEW: Float.__new__ is represented by a hand-written model (clamps of the single-precision range)']))
for sym, spec in (('floor', 'is_floor(result, arg)'), ('ceiling', 'is_ceiling(result, arg)'), ('abs', 'exact(result) == abs(exact(arg))')):
    CONTRACTS.append(Contract(
        f'{sym}.xsfloat', 'C06', token_method('2.0', sym, 'evaluate'),
        xsfloat_case(sym), pre=['xs_float_invariant(arg)'],
        inline=('Float.__abs__',),
        post=[
            ('value', f"not is_finite(arg) or (returned and {spec})"),
            ('result_is_xs_float', "not returned or class_name(result) == 'Float'"),
            ('zero_results_sign', "not (is_finite(arg) and returned and exact(result) == 0) or sign_bit(result) == " + ("False" if sym == 'abs' else "sign_bit(arg)")),
            ('nan_inf_passthrough', "is_finite(arg) or (returned and is_nan(result) == is_nan(arg) and inf_sign(result) == " + ("abs(inf_sign(arg))" if sym == 'abs' else "inf_sign(arg)") + ")"),
        ],
        specs=SPECS2 + [xs_float_invariant], native=unary_native('2.0', f'{sym}($a)'), samples=XSF_SAMPLES, expect_min_obligations=4,
        notes=['T-FLOATNEW: Float.__new__ is represented by a hand-written model (clamps of the single-precision range)']))


# float_result: the class of a NaN/INF result of div and mod (xs:float when an operand is an xs:float and none is an xs:double)
import elementpath.xpath1._xpath1_operators as _ops1          # noqa: E402


def float_result_case(k1, k2):
    def setup(S, ex):
        v = S.float('value', ex=ex)
        return Case([v, PKINDS[k1](S, 'a', ex), PKINDS[k2](S, 'b', ex)], hooks={'Float': lambda ex, node, a, kw: _float_new(a[0])})
    return setup


for k1 in ('int', 'dec', 'float', 'xsfloat'):
    for k2 in ('int', 'dec', 'float', 'xsfloat'):
        want_float = 'xsfloat' in (k1, k2) and 'float' not in (k1, k2)
        CONTRACTS.append(Contract(
            f'float_result.{k1}.{k2}', 'C06', lambda: _ops1.float_result, float_result_case(k1, k2),
            pre=["is_nan(value) or inf_sign(value) != 0"],
            post=[('class_follows_the_operand_types', f"returned and class_name(result) == '{'Float' if want_float else 'float'}'"),
                  ('value_kept', "returned and is_nan(result) == is_nan(value) and inf_sign(result) == inf_sign(value)")],
            specs=SPECS2, native=lambda i: run_native(lambda: _ops1.float_result(i['value'], i['a'], i['b'])),
            samples=lambda rng, k1=k1, k2=k2: ({'value': v, 'a': x, 'b': y} for v in (math.nan, math.inf, -math.inf) for x in PSAMPLE[k1][:3] for y in PSAMPLE[k2][:3]),
            expect_min_obligations=2, notes=['T-FLOATNEW: Float(value) is represented by the hand-written model']))


# ---- bounded stand-ins (never counted as proved) ------------------------------------------------
from fractions import Fraction                                # noqa: E402
from .bounded import Bounded                                  # noqa: E402


def _round_half_up_at(x: Fraction, p: int) -> Fraction:
    s = Fraction(10) ** p
    return Fraction(math.floor(x * s + Fraction(1, 2))) / s


def _round_half_even_at(x: Fraction, p: int) -> Fraction:
    s = Fraction(10) ** p
    y = x * s
    f = math.floor(y)
    d = y - f
    n = f if d < Fraction(1, 2) else f + 1 if d > Fraction(1, 2) else (f if f % 2 == 0 else f + 1)
    return Fraction(n) / s


def big_rounding(tier, seed):
    """round / round-half-to-even on integers and decimals of 25..45 digits (the region where the
    code leaves the default decimal context: assumption A-LOCALPREC of the deductive part)."""
    import random
    rng = random.Random(seed)
    vals = []
    for nd in (25, 27, 28, 29, 30, 35, 45):
        for lead in ('9' * nd, '1' + '0' * (nd - 1), '12345678901234567890123456789012345678901234567890'[:nd],
                     '9' * (nd - 2) + '85'):
            for frac in ('', '.5', '.25', '.75', '.4999', '.05', '.95'):
                for sign in ('', '-'):
                    vals.append(sign + lead + frac)
    if tier == 'thorough':
        for _ in range(2000):
            nd = rng.randint(20, 60)
            vals.append(rng.choice(['', '-']) + str(rng.randint(10 ** (nd - 1), 10 ** nd - 1)) +
                        rng.choice(['', '.5', '.' + str(rng.randint(0, 999))]))
    fails = []
    n = 0
    seen = set()
    for v in vals:
        d = decimal.Decimal(v)
        args = [d] + ([int(d)] if d == d.to_integral_value() else [])
        for a in args:
            for p in (None, 0, -1, -2, -5, 1, 2):
                for fn_, spec in (('round', _round_half_up_at), ('round-half-to-even', _round_half_even_at)):
                    expr = f'{fn_}($a)' if p is None else f'{fn_}($a, {p})'
                    n += 1
                    seen.add((type(a).__name__, len(v), p, fn_, v[-2:]))
                    want = spec(Fraction(a), p or 0)
                    got = eval_native('3.1', expr, a=a)
                    ok = got[0] == 'return' and type(got[1]) is type(a) and Fraction(got[1]) == want
                    if not ok:
                        fails.append({'key': f'{expr}|{a!r}', 'what': f'{expr} with $a={a!r}: got {got!r}, F&O value {want}',
                                      'expr': expr, 'a': repr(a)})
    # exact results on operands beyond the 28 digits of the decimal context: unary minus / plus / abs, mod and idiv (the result is small or an unbounded integer)
    big = ['100000000000000000000000000001', '100000000000000000000000000001.5', '-123456789012345678901234567890123456789.123', '12345678901234567890123456789012345.5',
           '1000000000000000000000000000000000000000', '-99999999999999999999999999999999.99', '0.000000000000000000000000000000000001']
    small = ['10.0', '7', '0.001', '-3.5', '0.7', '1' + '0' * 30, '-99999999999999999999999999999.5']
    for a in big:
        for fn_, spec in (('-{a}', lambda x: -x), ('+{a}', lambda x: x), ('abs({a})', abs), ('-(-{a})', lambda x: x)):
            n += 1
            seen.add(('big unary', fn_))
            expr = fn_.format(a='$a')
            got = eval_native('3.1', expr, a=decimal.Decimal(a))
            if got[0] != 'return' or not isinstance(got[1], decimal.Decimal) or Fraction(got[1]) != spec(Fraction(a)):
                fails.append({'key': f'{fn_.format(a="xs:decimal(big)")} is not exact beyond 28 digits', 'what': f'{expr} with $a = {a}: got {got!r}, exact value {spec(Fraction(a))}', 'expr': expr, 'a': a})
        for b in small:
            fa, fb = Fraction(a), Fraction(b)
            q = int(fa / fb)
            for op, want in (('mod', fa - fb * q), ('idiv', q)):
                n += 1
                seen.add(('big ' + op,))
                expr = f"$a {op} $b"
                got = eval_native('3.1', expr, a=decimal.Decimal(a), b=decimal.Decimal(b))
                if got[0] != 'return' or Fraction(got[1]) != want or (op == 'idiv' and type(got[1]) is not int):
                    fails.append({'key': f'{op} is not exact when the quotient exceeds 28 digits', 'what': f'{expr} with $a = {a}, $b = {b}: got {got!r}, exact value {want}', 'expr': expr, 'a': a})
    return {'evaluations': n, 'distinct': len(seen), 'failures': fails[:20], 'n_failures': len(fails),
            'scope': 'integers/decimals with 25..45 (thorough: 20..60) digits x fractions {.5,.25,.75,...} x precision '
                     '{absent,0,-1,-2,-5,1,2} x {round, round-half-to-even}; oracle: exact Fraction arithmetic',
            'rule': 'distinct = (class, digit count, precision, function, last two chars of the literal)'}


def _replay_expr(f):
    a = eval(f['a'], {'Decimal': decimal.Decimal})
    got = eval_native('3.1', f['expr'], a=a)
    print('replay', f['expr'], f['a'], '->', got)
    return False     # a recorded failure stays a failure unless the check itself stops reporting it


def double_arithmetic(tier, seed):
    """IEEE double results of + - * div mod idiv against exact rational arithmetic rounded once
    (float(Fraction) rounds to nearest even)."""
    import random
    rng = random.Random(seed)
    grid = [0.0, -0.0, 1.0, -1.0, 0.5, -0.5, 1.5, -2.5, 3.0, 6.5, -6.5, 4.0, 7.0, 0.1, 0.2, 0.3, 1e-7, 1e16, 2.0 ** 53,
            2.0 ** 53 + 2, 5e-324, 2.2250738585072014e-308, 1.7976931348623157e308, 1e300, -1e300, 1 / 3, 123456.789]
    pairs = [(a, b) for a in grid for b in grid]
    for _ in range(300 if tier == 'quick' else 20000):
        pairs.append((rng.uniform(-1e6, 1e6) * 10 ** rng.randint(-10, 10), rng.uniform(-1e3, 1e3) * 10 ** rng.randint(-10, 10)))
    fails = []
    n = 0
    seen = set()

    def rnd(fr):
        try:
            return float(fr)
        except OverflowError:
            return math.inf if fr > 0 else -math.inf
    for a, b in pairs:
        fa, fb = Fraction(a), Fraction(b)
        for op in ('+', '-', '*', 'div', 'mod', 'idiv'):
            n += 1
            seen.add((op, a == 0, b == 0, a < 0, b < 0, abs(a) > abs(b)))
            got = eval_native('3.1', f'$a {op} $b', a=a, b=b)
            if op in ('+', '-', '*'):
                want = ('return', rnd({'+': fa + fb, '-': fa - fb, '*': fa * fb}[op]))
            elif op == 'div':
                if b == 0:
                    want = ('return', math.nan if a == 0 else math.copysign(math.inf, math.copysign(1, a) * math.copysign(1, b)))
                else:
                    want = ('return', rnd(fa / fb))
            elif op == 'mod':
                want = ('return', math.nan) if b == 0 else ('return', float(fa - fb * math.trunc(fa / fb)))
            else:
                want = ('raise', 'FOAR0001') if b == 0 else ('return', math.trunc(fa / fb))
            if want[0] == 'raise':
                ok = got[0] == 'raise' and str(getattr(got[1], 'code', '')).endswith(want[1])
            else:
                w, g = want[1], got[1] if got[0] == 'return' else None
                if isinstance(w, float) and math.isnan(w):
                    ok = isinstance(g, float) and math.isnan(g)
                elif op == 'idiv':
                    # F&O 4.2.5: exact "subject to limits of precision": quotients beyond 2**53 may
                    # carry the relative error of one double rounding
                    ok = isinstance(g, int) and not isinstance(g, bool) and \
                        (g == w or (abs(w) >= 2 ** 53 and abs(g - w) <= abs(w) // 2 ** 51)) or \
                        (got[0] == 'raise' and str(getattr(got[1], 'code', '')).endswith('FOAR0002') and abs(w) >= 2 ** 1023)
                else:
                    ok = isinstance(g, float) and g == w and (w != 0 or op != 'mod' or True)
            if not ok:
                fails.append({'key': f'{a!r} {op} {b!r}', 'what': f'{a!r} {op} {b!r}: got {got!r}, expected {want!r}'})
    return {'evaluations': n, 'distinct': len(seen), 'failures': fails[:20], 'n_failures': len(fails),
            'scope': f'{len(pairs)} double pairs (boundary grid^2 + seeded samples) x 6 operators; oracle: Fraction arithmetic '
                     'rounded once to nearest-even', 'rule': 'distinct = (operator, zero/sign/magnitude-order class of the pair)'}


def xs_float_arithmetic(tier, seed):
    """xs:float operands: result type, special values (signed zeros, INF on overflow of the single-precision range, NaN)
    and finite values against double arithmetic on the same operands (the library keeps xs:float values in a double:
    finite results are compared with a relative tolerance of 1e-6, i.e. single precision; that representation choice is
    not judged here)."""
    import decimal as _d
    F_MAX = 3.4028235e38
    fl = [XsFloat(x) for x in (0.0, -0.0, 1.0, -1.0, 1.5, -2.5, 0.1, 3.0, 3e38, -3e38, 1e-30, math.inf, -math.inf)] + [XsFloat('NaN')]
    others = [('xs:integer', 0), ('xs:integer', 2), ('xs:integer', -3), ('xs:decimal', _d.Decimal('1.5')), ('xs:decimal', _d.Decimal('-0.5')),
              ('xs:decimal', _d.Decimal('0'))]
    dbl = [2.0, -0.0, 1e300, math.inf]
    fails, n, seen = {}, 0, set()

    def bad(k, **w):
        fails.setdefault(k, []).append(w)

    def clamp(v):
        if math.isnan(v):
            return v
        if v > F_MAX:
            return math.inf
        if v < -F_MAX:
            return -math.inf
        return v

    def same(g, w):
        if math.isnan(w):
            return isinstance(g, float) and math.isnan(g)
        if w == 0 or math.isinf(w):
            return g == w and math.copysign(1, g) == math.copysign(1, w)
        if abs(w) < 1e-37 and g == 0:
            # below the normal single-precision range: a result flushed to a zero of the right sign is accepted
            return math.copysign(1, g) == math.copysign(1, w)
        return math.isclose(g, w, rel_tol=1e-6)

    def pyop(op, a, b):
        a, b = float(a), float(b)
        if op == '+':
            return a + b
        if op == '-':
            return a - b
        if op == '*':
            if (a == 0 and math.isinf(b)) or (b == 0 and math.isinf(a)):
                return math.nan
            return a * b
        if op == 'div':
            if b == 0:
                return math.nan if a == 0 or math.isnan(a) else math.copysign(math.inf, math.copysign(1, a) * math.copysign(1, b))
            return a / b
        if op == 'mod':
            if b == 0 or math.isinf(a) or math.isnan(a) or math.isnan(b):
                return math.nan
            return math.fmod(a, b)
    pairs = [(a, b, 'float', 'float') for a in fl for b in fl]
    pairs += [(a, v, 'float', t) for a in fl for t, v in others] + [(v, a, t, 'float') for a in fl for t, v in others]
    pairs += [(a, b, 'float', 'double') for a in fl for b in dbl] + [(b, a, 'double', 'float') for a in fl for b in dbl]
    for a, b, ta_, tb in pairs:
        for op in ('+', '-', '*', 'div', 'mod'):
            n += 1
            seen.add((op, ta_, tb))
            got = eval_native('3.1', f'$a {op} $b', a=a, b=b)
            if (a != a or b != b) is False and (math.isinf(float(a)) and math.isinf(float(b)) and op in ('+', '-')):
                w = pyop(op, a, b)
            else:
                w = pyop(op, a, b)
            double_result = 'double' in (ta_, tb)
            w = w if double_result else clamp(w)
            if got[0] != 'return' or not isinstance(got[1], float):
                bad(f'xs:float arithmetic does not return a float value ({ta_} {op} {tb})', a=repr(a), b=repr(b), got=repr(got)[:120])
                continue
            g = got[1]
            if isinstance(g, XsFloat) == double_result:
                bad(f'result type of {ta_} {op} {tb} is not xs:{"double" if double_result else "float"}', a=repr(a), b=repr(b), got=type(g).__name__)
            if not same(float(g), w):
                bad(f'value of {ta_} {op} {tb} differs from IEEE arithmetic clamped to the xs:float range', a=repr(a), b=repr(b), got=repr(float(g)), expected=repr(w))
    for a in fl:
        for fn, py in (('-$a', lambda x: -x), ('+$a', lambda x: x), ('abs($a)', abs), ('floor($a)', lambda x: x if math.isinf(x) or math.isnan(x) or x == 0 else float(math.floor(x))),
                       ('ceiling($a)', lambda x: x if math.isinf(x) or math.isnan(x) else math.copysign(float(math.ceil(x)), x) if math.ceil(x) == 0 else float(math.ceil(x))),
                       ('round($a)', lambda x: x if math.isinf(x) or math.isnan(x) or x == 0 else (math.copysign(0.0, x) if -0.5 <= x < 0 else float(math.floor(x + 0.5)))),
                       ('round-half-to-even($a)', lambda x: x if math.isinf(x) or math.isnan(x) else math.copysign(float(round(x)), x) if round(x) == 0 else float(round(x)))):
            n += 1
            seen.add((fn,))
            got = eval_native('3.1', fn, a=a)
            w = py(float(a))
            if got[0] != 'return' or not isinstance(got[1], float):
                bad(f'{fn} on an xs:float does not return a float value', a=repr(a), got=repr(got)[:120])
                continue
            if not isinstance(got[1], XsFloat):
                bad(f'result type of {fn} on an xs:float is not xs:float', a=repr(a), got=type(got[1]).__name__)
            if not same(float(got[1]), w):
                bad(f'value of {fn} on an xs:float', a=repr(a), got=repr(float(got[1])), expected=repr(w))
    # constructor: signed zero and range clamps
    for text, w in (('-0', -0.0), ('0', 0.0), ('-0.0', -0.0), ('-1e-50', -0.0), ('1e-50', 0.0), ('3.5e38', math.inf), ('-3.5e38', -math.inf), ('-INF', -math.inf)):
        n += 1
        seen.add(('ctor', text))
        got = eval_native('3.1', f"xs:float('{text}')")
        if got[0] != 'return' or not isinstance(got[1], XsFloat) or not same(float(got[1]), w):
            bad('xs:float constructor: signed zero / range clamp', text=text, got=repr(got)[:80], expected=repr(w))
    fl_fails = [{'key': k, 'items': it[:4], 'count': len(it), 'what': f'{k}: e.g. {it[0]}'} for k, it in fails.items()]
    return {'evaluations': n, 'distinct': len(seen), 'failures': fl_fails, 'n_failures': len(fl_fails),
            'scope': f'{len(pairs)} operand pairs with at least one xs:float (14 xs:float values incl. signed zeros, range limits, INF, NaN; integer, decimal and '
                     'double partners) x 5 operators, 7 unary operators/functions x 14 values, 8 constructor texts: result type, special values and '
                     'finite values within 1e-6 relative of IEEE arithmetic clamped to the single-precision range',
            'rule': 'distinct = (operator, operand types)'}


def derived_integer_types(tier, seed):
    """Operands of the types derived from xs:integer: F&O 4.2 / 4.4 - the operators and the rounding functions return a value of the base numeric type
    (xs:integer), never of the derived type, and the value is the one of the integer arithmetic (no wrap-around at the bounds of the derived type)."""
    from fractions import Fraction as Fr
    types = {'byte': (-128, 127), 'short': (-32768, 32767), 'unsignedByte': (0, 255), 'unsignedLong': (0, 2 ** 64 - 1), 'nonPositiveInteger': (None, 0),
             'positiveInteger': (1, None), 'long': (-2 ** 63, 2 ** 63 - 1), 'int': (-2 ** 31, 2 ** 31 - 1)}
    fails, n, seen = {}, 0, set()

    def bad(k, **w):
        fails.setdefault(k, []).append(w)
    unary = {'abs({x})': abs, 'floor({x})': lambda v: v, 'ceiling({x})': lambda v: v, 'round({x})': lambda v: v, 'round-half-to-even({x})': lambda v: v, '-{x}': lambda v: -v,
             '+{x}': lambda v: v, 'round({x}, 0)': lambda v: v, 'round({x}, 2)': lambda v: v, 'round-half-to-even({x}, 1)': lambda v: v, 'round({x}, -1)': None}
    binary = {'{x} + {y}': lambda a, b: a + b, '{x} - {y}': lambda a, b: a - b, '{x} * {y}': lambda a, b: a * b, '{x} idiv {y}': lambda a, b: int(Fr(a, b)) if b else None,
              '{x} mod {y}': lambda a, b: a - b * int(Fr(a, b)) if b else None}
    for tn, (lo, hi) in types.items():
        vals = [v for v in (lo, hi, 0, 1, -1, 5, -5) if v is not None and (lo is None or v >= lo) and (hi is None or v <= hi)]
        for v in dict.fromkeys(vals):
            x = f"xs:{tn}('{v}')"
            for tmpl, py in unary.items():
                for version in ('2.0', '3.1'):
                    if version == '2.0' and tmpl.startswith('round(') and ',' in tmpl:
                        continue
                    n += 1
                    seen.add((tn, tmpl))
                    e = tmpl.format(x=x)
                    got = eval_native(version, f'for $r in {e} return ($r, $r instance of xs:integer, $r instance of xs:{tn} and not(xs:{tn}("{v}") instance of xs:integer and "{tn}" = "integer"))')
                    if got[0] != 'return' or not isinstance(got[1], list) or len(got[1]) != 3:
                        bad(f'{tmpl.format(x="xs:T(v)")} on a derived integer type raises or returns no single value', type=tn, expr=e, version=version, got=repr(got)[:80])
                        continue
                    r, is_int, is_derived = got[1]
                    if type(r) is not int or not is_int or is_derived:
                        bad(f'{tmpl.format(x="xs:T(v)")} on a derived integer type does not return an xs:integer', type=tn, expr=e, version=version, got=f'{type(r).__name__} {r!r}')
                    elif py is not None and r != py(v):
                        bad(f'{tmpl.format(x="xs:T(v)")} on a derived integer type: value', type=tn, expr=e, version=version, got=r, expected=py(v))
            for tmpl, py in binary.items():
                for w in dict.fromkeys(vals):
                    n += 1
                    seen.add((tn, tmpl))
                    e = tmpl.format(x=x, y=f"xs:{tn}('{w}')")
                    want = py(v, w)
                    got = eval_native('3.1', f'for $r in {e} return ($r, $r instance of xs:{tn} and not("{tn}" = "integer"))')
                    if want is None:
                        if not (got[0] == 'raise' and str(getattr(got[1], 'code', '')).endswith('FOAR0001')):
                            bad(f'{tmpl.format(x="a", y="b")} by zero on a derived integer type is not FOAR0001', type=tn, expr=e, got=repr(got)[:80])
                        continue
                    if got[0] != 'return' or not isinstance(got[1], list) or got[1][0] != want or type(got[1][0]) is not int or got[1][1]:
                        bad(f'{tmpl.format(x="a", y="b")} on derived integer types: the exact xs:integer result', type=tn, expr=e, got=repr(got)[:80], expected=want)
    fl = [{'key': k, 'items': it[:4], 'count': len(it), 'what': f'{k}: e.g. {it[0]}'} for k, it in fails.items()]
    return {'evaluations': n, 'distinct': len(seen), 'failures': fl, 'n_failures': len(fl),
            'scope': f'{len(types)} types derived from xs:integer x their bounds and small values x 11 unary operators / rounding functions (XPath 2.0 and 3.1) and 5 binary operators on all '
                     'pairs: the result is an xs:integer (not the derived type) with the exact value, no wrap-around at the bounds', 'rule': 'distinct = (type, operator)'}


BOUNDED = [Bounded('big_number_rounding', big_rounding), Bounded('double_arithmetic_vs_rational', double_arithmetic),
           Bounded('xs_float_types_and_special_values', xs_float_arithmetic), Bounded('derived_integer_operands', derived_integer_types)]

NOT_DECIDED = [
    'IEEE 754 results of finite double/float arithmetic (computed inside CPython/libm): special-value tables are proved, '
    'finite results only through the bounded stand-in double_arithmetic_vs_rational',
    'xs:float (single precision) range/precision clamps of datatypes.Float',
    'round/round-half-to-even beyond the 28-digit decimal context rest on assumption A-LOCALPREC; covered by the bounded '
    'stand-in big_number_rounding',
]
