"""C06 - numeric operators and rounding functions follow F&O arithmetic exactly.

Top-level postconditions are taken from XPath F&O 3.1 section 4.2 (op:numeric-*):
  idiv : $a idiv $b = ($a div $b) truncated toward zero; FOAR0001 on zero divisor;
         FOAR0002 on overflow / NaN / INF dividend.
  mod  : result has the sign of the dividend, a = (a idiv b)*b + (a mod b);
         FOAR0001 on zero divisor for integer/decimal operands; NaN for doubles.
  div  : integer operands give the exact decimal quotient; FOAR0001 on zero divisor for
         integer/decimal; +-INF / NaN for float/double.
"""
from __future__ import annotations

import decimal
import math

from pyvc.values import *  # noqa
from pyvc.contract import Contract, Case
from pyvc.specprims import *  # noqa
from .common import *  # noqa


# ---- spec functions (F&O definitions) ---------------------------------------------------

def trunc_div(a, b):
    """F&O 4.2.5 op:numeric-integer-divide: the quotient truncated toward zero (b != 0)."""
    return tdiv(a, b)


def mod_spec(a, b):
    """F&O 4.2.6 op:numeric-mod for exact operands: a - b * trunc(a / b) (b != 0)."""
    if is_int(a) and is_int(b):
        return a - b * tdiv(a, b)
    return exact(a) - exact(b) * tdiv(a, b)


def huge(a, b):
    """Implementation-defined limit (F&O 4.2: overflow may raise FOAR0002): the integer
    quotient does not fit the 28-digit decimal context, or an operand is beyond the double
    range (more than 308 digits)."""
    return abs(trunc_div(a, b)) >= 10 ** 28 or abs(exact(a)) >= 2 ** 1024 or abs(exact(b)) >= 2 ** 1024


SPECS = [trunc_div, mod_spec, huge]

KINDS = {'int': lambda S, n, ex=None: S.int(n), 'dec': lambda S, n, ex=None: S.dec(n),
         'float': lambda S, n, ex=None: S.float(n, ex=ex)}


def operands_case(version, symbol, k1, k2, compat=None, schema=False, nitems=2):
    """self.get_operands(context, cls=...) is the havoc point: it returns the operand pair.
    Its own contract (numeric promotion) is proved separately (get_operands.*)."""
    def setup(S, ex):
        op1 = KINDS[k1](S, 'op1', ex)
        op2 = KINDS[k2](S, 'op2', ex)
        tok = mk_token(version, symbol, parser=mk_parser(version, compat), nitems=nitems)
        ctx = mk_context(schema)
        hooks = std_hooks(tok, {'self.get_operands': lambda ex, node, a, kw: VTuple([op1, op2])})
        return Case([tok, ctx], names={}, hooks=hooks, label=f'{k1}x{k2}')
    return setup


def binary_native(version, op):
    def native(inputs):
        return eval_native(version, f'$a {op} $b', a=inputs['op1'], b=inputs['op2'])
    return native


def pair_samples(gen1, gen2=None):
    def samples(rng):
        g1 = gen1(rng)
        if gen2 is None:
            for a, b in g1:
                yield {'op1': a, 'op2': b}
        else:
            g2 = gen2(rng)
            for (a, _), (_, b) in zip(g1, g2):
                yield {'op1': a, 'op2': b}
    return samples


def mixed_pairs(kinds):
    k1, k2 = kinds
    grid = {'int': INT_GRID, 'dec': DEC_GRID, 'float': FLOAT_GRID}

    def gen(rng):
        for a in grid[k1]:
            for b in grid[k2]:
                yield {'op1': a, 'op2': b}
        while True:
            def one(k):
                if k == 'int':
                    return rng.randint(-10 ** 6, 10 ** 6)
                if k == 'dec':
                    return decimal.Decimal(rng.randint(-10 ** 6, 10 ** 6)) / decimal.Decimal(10 ** rng.randint(0, 4))
                return rng.choice(FLOAT_GRID + [rng.uniform(-100, 100)])
            yield {'op1': one(k1), 'op2': one(k2)}
    return gen


CONTRACTS = []

EXACT_PAIRS = [('int', 'int'), ('dec', 'dec'), ('int', 'dec'), ('dec', 'int')]

for version in ('2.0',):
    for k1, k2 in EXACT_PAIRS:
        CONTRACTS.append(Contract(
            f'idiv.{k1}.{k2}', 'C06', token_method(version, 'idiv', 'evaluate'),
            operands_case(version, 'idiv', k1, k2),
            post=[
                ('zero_divisor_iff_FOAR0001', "(raised_code == 'FOAR0001') == (op2 == 0)"),
                ('truncates_toward_zero',
                 "op2 == 0 or raised_code == 'FOAR0002' or (returned and result == trunc_div(op1, op2))"),
                ('overflow_only_when_huge',
                 "raised_code != 'FOAR0002' or huge(op1, op2)"),
                ('result_is_integer', "not returned or is_int(result)"),
                ('only_coded_errors', "returned or raised_code is not None"),
            ],
            specs=SPECS, native=binary_native(version, 'idiv'), samples=mixed_pairs((k1, k2)),
            expect_min_obligations=5))

    for k1, k2 in EXACT_PAIRS:
        CONTRACTS.append(Contract(
            f'mod.{k1}.{k2}', 'C06', token_method(version, 'mod', 'evaluate'),
            operands_case(version, 'mod', k1, k2),
            post=[
                ('zero_divisor_iff_FOAR0001', "(raised_code == 'FOAR0001') == (op2 == 0)"),
                ('sign_of_dividend_identity',
                 "op2 == 0 or raised_code == 'FOAR0002' or (returned and exact(result) == mod_spec(op1, op2))"),
                ('overflow_only_when_huge',
                 "raised_code != 'FOAR0002' or huge(op1, op2)"),
                ('result_type', "not returned or is_int(result) or (is_dec(result) and not (is_int(op1) and is_int(op2)))"),
                ('only_coded_errors', "returned or raised_code is not None"),
            ],
            specs=SPECS, native=binary_native(version, 'mod'), samples=mixed_pairs((k1, k2)),
            expect_min_obligations=5))

    for k1, k2 in EXACT_PAIRS:
        CONTRACTS.append(Contract(
            f'div.{k1}.{k2}', 'C06', token_method(version, 'div', 'evaluate'),
            operands_case(version, 'div', k1, k2, compat=False),
            post=[
                ('zero_divisor_iff_FOAR0001', "(raised_code == 'FOAR0001') == (op2 == 0)"),
                ('exact_quotient', "op2 == 0 or (returned and exact(result) == exact_div(op1, op2))"),
                ('result_is_decimal', "not returned or is_dec(result)"),
                ('only_coded_errors', "returned or raised_code is not None"),
            ],
            specs=SPECS, native=binary_native(version, 'div'), samples=mixed_pairs((k1, k2)),
            notes=['A-DEC: quotients are exact rationals; rounding of Decimal division at precision 28 is not modelled'],
            expect_min_obligations=4))


# ---- rounding functions, abs, unary and additive/multiplicative operators --------------------

def argument_case(version, symbol, kind, nitems=1, extra_hooks=None, fields=None):
    def setup(S, ex):
        arg = KINDS[kind](S, 'arg', ex)
        f = {'context': NONE}
        f.update(fields or {})
        tok = mk_token(version, symbol, parser=mk_parser(version, False), nitems=nitems, **f)
        ctx = mk_context()
        hooks = std_hooks(tok, {'self.get_argument': lambda ex, node, a, kw: arg})
        hooks.update(extra_hooks or {})
        return Case([tok, ctx], hooks=hooks, label=kind)
    return setup


def unary_native(version, template):
    def native(inputs):
        return eval_native(version, template, a=inputs['arg'])
    return native


def arg_samples(kind):
    grid = {'int': INT_GRID, 'dec': DEC_GRID + [decimal.Decimal('-0.5'), decimal.Decimal('0.49'), decimal.Decimal('-2.51')],
            'float': FLOAT_GRID}[kind]

    def gen(rng):
        for a in grid:
            yield {'arg': a}
        while True:
            if kind == 'int':
                yield {'arg': rng.randint(-10 ** 9, 10 ** 9)}
            elif kind == 'dec':
                yield {'arg': decimal.Decimal(rng.randint(-10 ** 6, 10 ** 6)) / decimal.Decimal(rng.choice([1, 2, 4, 10, 100]))}
            else:
                yield {'arg': rng.choice([rng.uniform(-50, 50), rng.randint(-99, 99) + 0.5])}
    return gen


def is_round(r, x):
    """F&O 4.4.4 fn:round: r is the integer nearest to x, ties toward positive infinity:
    r - 1/2 <= x < r + 1/2."""
    return is_integral(r) and 2 * exact(r) - 1 <= 2 * exact(x) and 2 * exact(x) < 2 * exact(r) + 1


def is_floor(r, x):
    """F&O 4.4.3: the largest integer not greater than x."""
    return is_integral(r) and exact(r) <= exact(x) and exact(x) < exact(r) + 1


def is_ceiling(r, x):
    """F&O 4.4.2: the smallest integer not less than x."""
    return is_integral(r) and exact(r) - 1 < exact(x) and exact(x) <= exact(r)


def half_even_spec(x):
    """F&O 4.4.5 fn:round-half-to-even with precision 0."""
    f = floor_(exact(x))
    d = exact(x) - f
    if 2 * d < 1:
        return f
    if 2 * d > 1:
        return f + 1
    return f if f % 2 == 0 else f + 1


SPECS2 = [is_round, is_floor, is_ceiling, half_even_spec]

FINITE = "is_finite(arg)"
FSPLIT = ["abs(exact(arg)) >= 2 ** 53"]
for kind in ('int', 'dec', 'float'):
    CONTRACTS.append(Contract(
        f'round.{kind}', 'C06', token_method('2.0', 'round', 'evaluate'),
        argument_case('2.0', 'round', kind),
        post=[
            ('half_toward_positive_infinity', "not is_finite(arg) or (returned and is_round(result, arg))"),
            ('result_class_is_argument_class', "not returned or same_class(result, arg)"),
            ('nan_inf_passthrough', "is_finite(arg) or (returned and is_nan(result) == is_nan(arg) and inf_sign(result) == inf_sign(arg))"),
            ('only_coded_errors', "returned or raised_code is not None"),
        ],
        specs=SPECS2, native=unary_native('2.0', 'round($a)'), samples=arg_samples(kind), expect_min_obligations=4))
    for sym, spec in (('floor', 'is_floor(result, arg)'), ('ceiling', 'is_ceiling(result, arg)')):
        CONTRACTS.append(Contract(
            f'{sym}.{kind}', 'C06', token_method('2.0', sym, 'evaluate'),
            argument_case('2.0', sym, kind),
            post=[
                ('value', f"not is_finite(arg) or (returned and {spec})"),
                ('result_class_is_argument_class', "not returned or same_class(result, arg)"),
                ('nan_inf_passthrough', "is_finite(arg) or (returned and is_nan(result) == is_nan(arg) and inf_sign(result) == inf_sign(arg))"),
                ('only_coded_errors', "returned or raised_code is not None"),
            ],
            specs=SPECS2, native=unary_native('2.0', f'{sym}($a)'), samples=arg_samples(kind), expect_min_obligations=4))
    CONTRACTS.append(Contract(
        f'abs.{kind}', 'C06', token_method('2.0', 'abs', 'evaluate'),
        argument_case('2.0', 'abs', kind),
        post=[
            ('value', "not is_finite(arg) or (returned and exact(result) == abs(exact(arg)))"),
            ('result_class_is_argument_class', "not returned or same_class(result, arg)"),
            ('nan_inf', "is_finite(arg) or (returned and is_nan(result) == is_nan(arg) and inf_sign(result) == abs(inf_sign(arg)))"),
            ('only_coded_errors', "returned or raised_code is not None"),
        ],
        specs=SPECS2, native=unary_native('2.0', 'abs($a)'), samples=arg_samples(kind), expect_min_obligations=4))
    CONTRACTS.append(Contract(
        f'round_half_to_even.{kind}', 'C06', token_method('2.0', 'round-half-to-even', 'evaluate'),
        argument_case('2.0', 'round-half-to-even', kind, nitems=1),
        pre=["abs(exact(arg)) < 10 ** 28"] if kind == 'dec' else [],
        notes=['round-half-to-even on xs:decimal is proved for |arg| < 10**28 (beyond the decimal context the code '
               'falls back to double arithmetic, which is not modelled: A-FP)'] if kind == 'dec' else [],
        post=[
            ('half_to_even', "not is_finite(arg) or (returned and exact(result) == half_even_spec(arg))"),
            ('result_class_is_argument_class', "not returned or same_class(result, arg)"),
            ('nan_inf_passthrough', "is_finite(arg) or (returned and is_nan(result) == is_nan(arg) and inf_sign(result) == inf_sign(arg))"),
            ('only_coded_errors', "returned or raised_code is not None"),
        ],
        specs=SPECS2, native=unary_native('2.0', 'round-half-to-even($a)'), samples=arg_samples(kind),
        expect_min_obligations=4))
    # unary minus / plus (the 1-operand branch of the '-' / '+' tokens)
    for sym, spec in (('-', '-exact(arg)'), ('+', 'exact(arg)')):
        CONTRACTS.append(Contract(
            f'unary{"minus" if sym == "-" else "plus"}.{kind}', 'C06', token_method('2.0', sym, 'evaluate'),
            argument_case('2.0', sym, kind, nitems=1),
            post=[
                ('value', f"not is_finite(arg) or (returned and exact(result) == {spec})"),
                ('result_class_is_argument_class', "not returned or same_class(result, arg)"),
                ('nan_inf', "is_finite(arg) or (returned and is_nan(result) == is_nan(arg) and inf_sign(result) == "
                            + ("-inf_sign(arg)" if sym == '-' else "inf_sign(arg)") + ")"),
                ('negative_zero', "not (is_float(arg) and is_finite(arg) and exact(arg) == 0) or sign_bit(result) == "
                                  + ("(not sign_bit(arg))" if sym == '-' else "sign_bit(arg)")),
            ],
            specs=SPECS2, native=unary_native('2.0', f'{sym}$a'), samples=arg_samples(kind), expect_min_obligations=4))

# binary + - * on exact operands: exact results (A-DEC), class by promotion
for sym, pyop in (('+', '+'), ('-', '-'), ('*', '*')):
    for k1, k2 in EXACT_PAIRS:
        CONTRACTS.append(Contract(
            f'{ {"+": "plus", "-": "minus", "*": "times"}[sym] }.{k1}.{k2}', 'C06', token_method('2.0', sym, 'evaluate'),
            operands_case('2.0', sym, k1, k2),
            post=[
                ('exact_value', f"returned and exact(result) == exact(op1) {pyop} exact(op2)"),
                ('result_class', "is_int(result) if is_int(op1) and is_int(op2) else is_dec(result)"),
            ],
            specs=SPECS, native=binary_native('2.0', sym), samples=mixed_pairs((k1, k2)),
            notes=['A-DEC: sums/products of decimals are exact rationals (rounding at 28 digits not modelled)'],
            expect_min_obligations=2))


# ---- XPath 3.0+ fn:round($arg, $precision): concrete precisions, unbounded $arg -------------

def is_round_p(r, x, p):
    """F&O 3.1 4.4.4: r is the multiple of 10**-p nearest to x, ties toward positive infinity."""
    if p >= 0:
        s = 10 ** p
        return is_integral(exact(r) * s) and 2 * exact(r) * s - 1 <= 2 * exact(x) * s and \
            2 * exact(x) * s < 2 * exact(r) * s + 1
    s = 10 ** (-p)
    return is_integral(exact_div(r, s)) and 2 * exact(r) - s <= 2 * exact(x) and 2 * exact(x) < 2 * exact(r) + s


def round30_case(kind, precision):
    def setup(S, ex):
        arg = KINDS[kind](S, 'arg', ex)
        tok = mk_token('3.1', 'round', parser=mk_parser('3.1', False), nitems=1 if precision is None else 2,
                       context=NONE)
        ctx = mk_context()

        def get_argument(ex, node, a, kw):
            if 'index' in kw:
                return VInt(0 if precision is None else precision)
            return arg
        hooks = std_hooks(tok, {'self.get_argument': get_argument})
        return Case([tok, ctx], hooks=hooks, names={'p': VInt(0 if precision is None else precision)},
                    label=f'{kind},p={precision}')
    return setup


def round30_native(precision):
    def native(inputs):
        expr = 'round($a)' if precision is None else f'round($a, {precision})'
        return eval_native('3.1', expr, a=inputs['arg'])
    return native


for kind in ('int', 'dec', 'float'):
    for precision in (None, 0, 1, 2, -1, -2):
        if kind == 'float' and precision not in (None, 0):
            continue   # float results at other scales are not exactly representable (A-FP): bounded check
        CONTRACTS.append(Contract(
            f'round30.{kind}.p{precision}', 'C06', token_method('3.1', 'round', 'evaluate'),
            round30_case(kind, precision),
            post=[
                ('half_toward_positive_infinity', "not is_finite(arg) or (returned and is_round_p(result, arg, p))"),
                ('result_class_is_argument_class', "not returned or same_class(result, arg)"),
                ('only_coded_errors', "returned or raised_code is not None"),
            ],
            specs=[is_round_p], native=round30_native(precision), samples=arg_samples(kind),
            expect_min_obligations=3))


# ---- float/double operands: IEEE special-value tables (finite arithmetic is A-FP, bounded) -----

def sgn(x):
    """sign of a number as -1/0/1 (infinities included)"""
    if inf_sign(x) != 0:
        return inf_sign(x)
    return 1 if exact(x) > 0 else (-1 if exact(x) < 0 else 0)


def is_zero(x):
    return is_finite(x) and exact(x) == 0


def beyond(a, b):
    """an integer operand that cannot be promoted to xs:double (FOAR0002 is then legitimate)"""
    return (is_int(a) and abs(a) >= 2 ** 1024) or (is_int(b) and abs(b) >= 2 ** 1024)


def exactly_promoted(a, b):
    """integer operands are promoted to double without rounding"""
    return (not is_int(a) or abs(a) <= 2 ** 53) and (not is_int(b) or abs(b) <= 2 ** 53)


FSPECS = [sgn, is_zero, beyond, exactly_promoted, trunc_div]
FLOAT_PAIRS = [('float', 'float'), ('int', 'float'), ('float', 'int')]

for k1, k2 in FLOAT_PAIRS:
    CONTRACTS.append(Contract(
        f'div.{k1}.{k2}', 'C06', token_method('2.0', 'div', 'evaluate'),
        operands_case('2.0', 'div', k1, k2, compat=False),
        post=[
            ('never_raises_for_doubles', "returned or (beyond(op1, op2) and raised_code == 'FOAR0002')"),
            ('result_is_double', "not returned or is_float(result)"),
            ('nan_propagates', "beyond(op1, op2) or not (is_nan(op1) or is_nan(op2)) or is_nan(result)"),
            ('zero_by_zero_and_inf_by_inf_are_nan',
             "not ((is_zero(op1) and is_zero(op2)) or (inf_sign(op1) != 0 and inf_sign(op2) != 0)) or is_nan(result)"),
            ('nonzero_by_zero_is_signed_infinity',
             "not (is_zero(op2) and not is_nan(op1) and not is_zero(op1)) or "
             "(not is_nan(result) and inf_sign(result) == sgn(op1) * (-1 if sign_bit(op2) else 1))"),
            ('infinity_by_finite_is_signed_infinity',
             "beyond(op1, op2) or not (inf_sign(op1) != 0 and is_finite(op2)) or "
             "(not is_nan(result) and inf_sign(result) == inf_sign(op1) * (-1 if sign_bit(op2) else 1))"),
            ('finite_by_infinity_is_signed_zero',
             "beyond(op1, op2) or not (is_finite(op1) and inf_sign(op2) != 0) or "
             "(is_zero(result) and sign_bit(result) == (sign_bit(op1) != sign_bit(op2)))"),
        ],
        specs=FSPECS, native=binary_native('2.0', 'div'), samples=mixed_pairs((k1, k2)), expect_min_obligations=7))
    CONTRACTS.append(Contract(
        f'idiv.{k1}.{k2}', 'C06', token_method('2.0', 'idiv', 'evaluate'),
        operands_case('2.0', 'idiv', k1, k2),
        post=[
            ('nan_or_infinite_dividend_is_FOAR0002_or_FOAR0001',
             "not (is_nan(op1) or is_nan(op2) or inf_sign(op1) != 0) or raised_code in ('FOAR0002', 'FOAR0001')"),
            ('zero_divisor_is_FOAR0001',
             "not (is_zero(op2) and is_finite(op1)) or raised_code == 'FOAR0001'"),
            ('finite_by_infinity_is_zero',
             "beyond(op1, op2) or not (is_finite(op1) and inf_sign(op2) != 0) or (returned and result == 0)"),
            ('result_is_integer', "not returned or is_int(result)"),
            ('only_coded_errors', "returned or raised_code is not None"),
        ],
        specs=FSPECS, native=binary_native('2.0', 'idiv'), samples=mixed_pairs((k1, k2)), expect_min_obligations=5))
    CONTRACTS.append(Contract(
        f'mod.{k1}.{k2}', 'C06', token_method('2.0', 'mod', 'evaluate'),
        operands_case('2.0', 'mod', k1, k2),
        post=[
            ('never_raises_for_doubles', "returned or (beyond(op1, op2) and raised_code == 'FOAR0002')"),
            ('nan_cases', "beyond(op1, op2) or not (is_nan(op1) or is_nan(op2) or inf_sign(op1) != 0 or is_zero(op2)) "
                          "or is_nan(result)"),
            ('finite_mod_infinity_is_dividend',
             "not exactly_promoted(op1, op2) or not (is_finite(op1) and inf_sign(op2) != 0) or "
             "(is_finite(result) and exact(result) == exact(op1))"),
            ('sign_of_dividend_identity',
             "not exactly_promoted(op1, op2) or not (is_finite(op1) and is_finite(op2) and not is_zero(op2)) or "
             "(is_finite(result) and exact(result) == exact(op1) - exact(op2) * trunc_div(op1, op2))"),
            ('zero_result_keeps_sign_of_dividend',
             "not exactly_promoted(op1, op2) or not (is_finite(op1) and is_finite(op2) and not is_zero(op2)) or "
             "not is_zero(result) or not is_float(op1) or sign_bit(result) == sign_bit(op1)"),
            ('result_is_double', "not returned or is_float(result)"),
        ],
        specs=FSPECS, native=binary_native('2.0', 'mod'), samples=mixed_pairs((k1, k2)), expect_min_obligations=3))
    for sym, name in (('+', 'plus'), ('-', 'minus'), ('*', 'times')):
        CONTRACTS.append(Contract(
            f'{name}.{k1}.{k2}', 'C06', token_method('2.0', sym, 'evaluate'),
            operands_case('2.0', sym, k1, k2),
            post=[
                ('never_raises_for_doubles', "returned or (beyond(op1, op2) and raised_code == 'FOAR0002')"),
                ('result_is_double', "not returned or is_float(result)"),
                ('nan_propagates', "beyond(op1, op2) or not (is_nan(op1) or is_nan(op2)) or is_nan(result)"),
            ] + ([('infinity_times_zero_is_nan',
                   "beyond(op1, op2) or not ((inf_sign(op1) != 0 and is_zero(op2)) or (is_zero(op1) and inf_sign(op2) != 0)) "
                   "or is_nan(result)"),
                  ('infinity_times_nonzero_is_signed_infinity',
                   "beyond(op1, op2) or not ((inf_sign(op1) != 0 or inf_sign(op2) != 0) and not is_nan(op1) and not is_nan(op2) and "
                   "not is_zero(op1) and not is_zero(op2)) or inf_sign(result) == sgn(op1) * sgn(op2)")]
                 if sym == '*' else
                 [('opposite_infinities_are_nan',
                   "not (inf_sign(op1) != 0 and inf_sign(op2) != 0 and inf_sign(op1) %s inf_sign(op2)) or is_nan(result)"
                   % ('!=' if sym == '+' else '==')),
                  ('infinity_absorbs_finite',
                   "beyond(op1, op2) or not (inf_sign(op1) != 0 and is_finite(op2)) or inf_sign(result) == inf_sign(op1)")]),
            specs=FSPECS, native=binary_native('2.0', sym), samples=mixed_pairs((k1, k2)), expect_min_obligations=4))
