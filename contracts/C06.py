"""C06 - numeric operators and rounding functions follow F&O arithmetic exactly.

Top-level postconditions are taken from XPath F&O 3.1 section 4.2 (op:numeric-*):
  idiv : $a idiv $b = ($a div $b) truncated toward zero; FOAR0001 on zero divisor;
         FOAR0002 on overflow / NaN / INF dividend.
  mod  : result has the sign of the dividend, a = (a idiv b)*b + (a mod b);
         FOAR0001 on zero divisor for integer/decimal operands; NaN for doubles.
  div  : integer operands give the exact decimal quotient; FOAR0001 on zero divisor for
         integer/decimal; +-INF / NaN for float/double.
"""
from __future__ import annotations

import decimal
import math

from pyvc.values import *  # noqa
from pyvc.contract import Contract, Case
from pyvc.specprims import *  # noqa
from .common import *  # noqa


# ---- spec functions (F&O definitions) ---------------------------------------------------

def trunc_div(a, b):
    """F&O 4.2.5 op:numeric-integer-divide: the quotient truncated toward zero (b != 0)."""
    return tdiv(a, b)


def mod_spec(a, b):
    """F&O 4.2.6 op:numeric-mod for exact operands: a - b * trunc(a / b) (b != 0)."""
    if is_int(a) and is_int(b):
        return a - b * tdiv(a, b)
    return exact(a) - exact(b) * tdiv(a, b)


def huge(a, b):
    """Implementation-defined limit (F&O 4.2: overflow may raise FOAR0002): the integer
    quotient does not fit the 28-digit decimal context, or an operand is beyond the double
    range (more than 308 digits)."""
    return abs(trunc_div(a, b)) >= 10 ** 28 or abs(exact(a)) >= 2 ** 1024 or abs(exact(b)) >= 2 ** 1024


SPECS = [trunc_div, mod_spec, huge]

KINDS = {'int': lambda S, n: S.int(n), 'dec': lambda S, n: S.dec(n), 'float': lambda S, n: S.float(n)}


def operands_case(version, symbol, k1, k2, compat=None, schema=False, nitems=2):
    """self.get_operands(context, cls=...) is the havoc point: it returns the operand pair.
    Its own contract (numeric promotion) is proved separately (get_operands.*)."""
    def setup(S, ex):
        op1 = KINDS[k1](S, 'op1')
        op2 = KINDS[k2](S, 'op2')
        tok = mk_token(version, symbol, parser=mk_parser(version, compat), nitems=nitems)
        ctx = mk_context(schema)
        hooks = std_hooks(tok, {'self.get_operands': lambda ex, node, a, kw: VTuple([op1, op2])})
        return Case([tok, ctx], names={}, hooks=hooks, label=f'{k1}x{k2}')
    return setup


def binary_native(version, op):
    def native(inputs):
        return eval_native(version, f'$a {op} $b', a=inputs['op1'], b=inputs['op2'])
    return native


def pair_samples(gen1, gen2=None):
    def samples(rng):
        g1 = gen1(rng)
        if gen2 is None:
            for a, b in g1:
                yield {'op1': a, 'op2': b}
        else:
            g2 = gen2(rng)
            for (a, _), (_, b) in zip(g1, g2):
                yield {'op1': a, 'op2': b}
    return samples


def mixed_pairs(kinds):
    k1, k2 = kinds
    grid = {'int': INT_GRID, 'dec': DEC_GRID, 'float': FLOAT_GRID}

    def gen(rng):
        for a in grid[k1]:
            for b in grid[k2]:
                yield {'op1': a, 'op2': b}
        while True:
            def one(k):
                if k == 'int':
                    return rng.randint(-10 ** 6, 10 ** 6)
                if k == 'dec':
                    return decimal.Decimal(rng.randint(-10 ** 6, 10 ** 6)) / decimal.Decimal(10 ** rng.randint(0, 4))
                return rng.choice(FLOAT_GRID + [rng.uniform(-100, 100)])
            yield {'op1': one(k1), 'op2': one(k2)}
    return gen


CONTRACTS = []

EXACT_PAIRS = [('int', 'int'), ('dec', 'dec'), ('int', 'dec'), ('dec', 'int')]

for version in ('2.0',):
    for k1, k2 in EXACT_PAIRS:
        CONTRACTS.append(Contract(
            f'idiv.{k1}.{k2}', 'C06', token_method(version, 'idiv', 'evaluate'),
            operands_case(version, 'idiv', k1, k2),
            post=[
                ('zero_divisor_iff_FOAR0001', "(raised_code == 'FOAR0001') == (op2 == 0)"),
                ('truncates_toward_zero',
                 "op2 == 0 or raised_code == 'FOAR0002' or (returned and result == trunc_div(op1, op2))"),
                ('overflow_only_when_huge',
                 "raised_code != 'FOAR0002' or huge(op1, op2)"),
                ('result_is_integer', "not returned or is_int(result)"),
                ('only_coded_errors', "returned or raised_code is not None"),
            ],
            specs=SPECS, native=binary_native(version, 'idiv'), samples=mixed_pairs((k1, k2)),
            expect_min_obligations=5))

    for k1, k2 in EXACT_PAIRS:
        CONTRACTS.append(Contract(
            f'mod.{k1}.{k2}', 'C06', token_method(version, 'mod', 'evaluate'),
            operands_case(version, 'mod', k1, k2),
            post=[
                ('zero_divisor_iff_FOAR0001', "(raised_code == 'FOAR0001') == (op2 == 0)"),
                ('sign_of_dividend_identity',
                 "op2 == 0 or raised_code == 'FOAR0002' or (returned and exact(result) == mod_spec(op1, op2))"),
                ('overflow_only_when_huge',
                 "raised_code != 'FOAR0002' or huge(op1, op2)"),
                ('result_type', "not returned or is_int(result) or (is_dec(result) and not (is_int(op1) and is_int(op2)))"),
                ('only_coded_errors', "returned or raised_code is not None"),
            ],
            specs=SPECS, native=binary_native(version, 'mod'), samples=mixed_pairs((k1, k2)),
            expect_min_obligations=5))

    for k1, k2 in EXACT_PAIRS:
        CONTRACTS.append(Contract(
            f'div.{k1}.{k2}', 'C06', token_method(version, 'div', 'evaluate'),
            operands_case(version, 'div', k1, k2, compat=False),
            post=[
                ('zero_divisor_iff_FOAR0001', "(raised_code == 'FOAR0001') == (op2 == 0)"),
                ('exact_quotient', "op2 == 0 or (returned and exact(result) == exact_div(op1, op2))"),
                ('result_is_decimal', "not returned or is_dec(result)"),
                ('only_coded_errors', "returned or raised_code is not None"),
            ],
            specs=SPECS, native=binary_native(version, 'div'), samples=mixed_pairs((k1, k2)),
            notes=['A-DEC: quotients are exact rationals; rounding of Decimal division at precision 28 is not modelled'],
            expect_min_obligations=4))
