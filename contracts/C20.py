"""C20 - schema-aware evaluation assigns sound XSD types and never changes node selection.

apply_schema / the typed `attributes` property / get_atomic_sequence work on xmlschema component graphs (third-party objects)
outside the deductive engine's subset.  Their postcondition is checked at run time on a stated scope (BOUNDED, nothing proved):
generated schemas over every built-in simple type (atomic, restrictions, lists, unions, simple-content extensions, nillable,
defaults, xsi:type) with valid instances; the typed value of each element/attribute node is compared with the datatype class of
the declared type and with the value the schema processor (xmlschema) decodes from the same text; kind tests with a type argument,
arithmetic/comparison on typed nodes, and selection invariance (same nodes with and without the schema).
"""
from __future__ import annotations

import decimal
import math
import random
import xml.etree.ElementTree as ET

import xmlschema

from .bounded import Bounded
from .C18 import PARENT, atomic_subtype
from elementpath import XPathContext, get_node_tree, datatypes as D
from elementpath.datatypes import builtin_atomic_types as BUILTIN
from elementpath.exceptions import ElementPathError
from elementpath.xpath31 import XPath31Parser
from elementpath.xpath2 import XPath2Parser

BOUNDED_ONLY = ('schema annotation works on xmlschema component graphs (third-party objects) outside the deductive subset; the postcondition is checked at run '
                'time on generated schemas and instances')
NOT_DECIDED = ['for ALL schemas and instances: only the generated scope is explored (bounded stand-in)']
XSI = 'http://www.w3.org/2001/XMLSchema-instance'
NSARG = {'xs': 'http://www.w3.org/2001/XMLSchema', 'xsi': XSI}

SAMPLES = {
    'string': [' a  b ', ''], 'normalizedString': ['a  b'], 'token': ['a b'], 'language': ['en-US'], 'NMTOKEN': ['a.b'], 'Name': ['a:b'], 'NCName': ['ab'], 'ID': ['id1'],
    'IDREF': ['id1'], 'ENTITY': None, 'boolean': ['true', '0', ' true ', '\n 1\t'], 'decimal': ['1.50', '-0.0', ' 2.5 '], 'integer': ['42', '-7', ' 8\n'], 'nonPositiveInteger': ['0', '-3'],
    'negativeInteger': ['-3'], 'long': ['9223372036854775807'], 'int': ['-2147483648'], 'short': ['7'], 'byte': ['-128'], 'nonNegativeInteger': ['0', '12'],
    'positiveInteger': ['5'], 'unsignedLong': ['18446744073709551615'], 'unsignedInt': ['4294967295'], 'unsignedShort': ['65535'], 'unsignedByte': ['255'],
    'float': ['1.5', 'INF', 'NaN'], 'double': ['-1.5e3', '0', ' 1e1 '], 'duration': ['P1Y2M3DT4H'], 'dateTime': ['2000-02-29T12:00:00Z', '1999-12-31T24:00:00'],
    'time': ['13:14:15+01:00'], 'date': ['2000-02-29', '1999-01-01Z', ' 2001-01-01 '], 'gYearMonth': ['2000-02'], 'gYear': ['2000'], 'gMonthDay': ['--02-29'], 'gDay': ['---31'],
    'gMonth': ['--12'], 'hexBinary': ['0a1B'], 'base64Binary': ['YWJj'], 'anyURI': ['http://a/b'], 'QName': ['xs:string'],
}
DERIVED = {          # name -> (base, facet xml, valid samples)
    'small': ('integer', '<xs:maxInclusive value="100"/>', ['7', '100']), 'tiny': ('small', '<xs:maxInclusive value="10"/>', ['3']),
    'code': ('token', '<xs:pattern value="[A-Z]{3}"/>', ['ABC']), 'price': ('decimal', '<xs:fractionDigits value="2"/>', ['9.99']),
    'year20': ('gYear', '<xs:minInclusive value="1900"/>', ['1999']), 'flag': ('boolean', '<xs:pattern value="true|false"/>', ['true']),
    'shortName': ('NCName', '<xs:maxLength value="5"/>', ['abc']), 'day': ('date', '<xs:minInclusive value="2000-01-01"/>', ['2001-02-03']),
    'pct': ('unsignedByte', '<xs:maxInclusive value="100"/>', ['55']), 'ratio': ('double', '<xs:minInclusive value="0"/>', ['0.5']),
}
LISTS = {'ints': ('int', ['1 2  3', ' 4\n5\t6 ', '7']), 'dates': ('date', ['2000-02-29   2001-03-01']), 'smalls': ('small', ['1 2']), 'toks': ('NMTOKEN', ['a b c'])}
UNIONS = {'dateOrInt': (['date', 'integer'], ['2000-01-01', '12']), 'smallOrBool': (['small', 'boolean'], ['7', 'true']), 'numOrName': (['decimal', 'NCName'], ['1.5', 'abc'])}


def builtin_of(tname):
    """The nearest built-in type of a (possibly derived) type name."""
    while tname in DERIVED:
        tname = DERIVED[tname][0]
    return tname


def build_schema(version):
    types = []
    for n, (base, facet, _) in DERIVED.items():
        b = base if base in DERIVED else 'xs:' + base
        types.append(f'<xs:simpleType name="{n}"><xs:restriction base="{b}">{facet}</xs:restriction></xs:simpleType>')
    for n, (item, _) in LISTS.items():
        it = item if item in DERIVED else 'xs:' + item
        types.append(f'<xs:simpleType name="{n}"><xs:list itemType="{it}"/></xs:simpleType>')
    for n, (members, _) in UNIONS.items():
        ms = ' '.join(m if m in DERIVED else 'xs:' + m for m in members)
        types.append(f'<xs:simpleType name="{n}"><xs:union memberTypes="{ms}"/></xs:simpleType>')
    types.append('<xs:complexType name="money"><xs:simpleContent><xs:extension base="xs:decimal"><xs:attribute name="cur" type="xs:token"/>'
                 '<xs:attribute name="rate" type="xs:double" default="1.5"/></xs:extension></xs:simpleContent></xs:complexType>')
    types.append('<xs:complexType name="measure"><xs:simpleContent><xs:extension base="small"><xs:attribute name="unit" type="xs:NCName" use="required"/>'
                 '</xs:extension></xs:simpleContent></xs:complexType>')
    elems, attrs = [], []
    for t in list(SAMPLES) + list(DERIVED) + list(LISTS) + list(UNIONS):
        if SAMPLES.get(t, 1) is None:
            continue
        ref = t if t in DERIVED or t in LISTS or t in UNIONS else 'xs:' + t
        elems.append(f'<xs:element name="e_{t}" type="{ref}" minOccurs="0" maxOccurs="unbounded"/>')
        if t not in ('ID', 'IDREF'):
            attrs.append(f'<xs:attribute name="a_{t}" type="{ref}"/>')
    elems.append('<xs:element name="m" type="money" minOccurs="0" maxOccurs="unbounded"/>')
    elems.append('<xs:element name="q" type="measure" minOccurs="0" maxOccurs="unbounded"/>')
    elems.append('<xs:element name="nil_date" type="xs:date" nillable="true" minOccurs="0" maxOccurs="unbounded"/>')
    elems.append('<xs:element name="nil_small" type="small" nillable="true" minOccurs="0" maxOccurs="unbounded"/>')
    elems.append('<xs:element name="def_int" type="xs:int" default="7" minOccurs="0" maxOccurs="unbounded"/>')
    elems.append('<xs:element name="fix_tok" type="xs:token" fixed="F" minOccurs="0" maxOccurs="unbounded"/>')
    elems.append('<xs:element name="any_dec" type="xs:decimal" minOccurs="0" maxOccurs="unbounded"/>')
    elems.append('<xs:element name="group" minOccurs="0" maxOccurs="unbounded"><xs:complexType><xs:sequence>'
                 '<xs:element name="value" type="xs:int" maxOccurs="unbounded"/></xs:sequence><xs:attribute name="code" type="xs:int"/>'
                 '<xs:anyAttribute processContents="lax"/></xs:complexType></xs:element>')
    elems.append('<xs:element name="other" minOccurs="0" maxOccurs="unbounded"><xs:complexType><xs:sequence>'
                 '<xs:element name="value" type="xs:date" maxOccurs="unbounded"/></xs:sequence></xs:complexType></xs:element>')
    attrs.append('<xs:attribute name="d_bool" type="xs:boolean" default="true"/>')
    xsd = ('<xs:schema xmlns:xs="http://www.w3.org/2001/XMLSchema">' + ''.join(types) + '<xs:attribute name="code" type="xs:string"/>'
           '<xs:element name="root"><xs:complexType><xs:sequence>' + ''.join(elems) + '</xs:sequence>' + ''.join(attrs) + '</xs:complexType></xs:element></xs:schema>')
    cls = xmlschema.XMLSchema11 if version == '1.1' else xmlschema.XMLSchema
    return cls(xsd)


def build_instance(rng, n_per_type=1, version='1.0'):
    """(xml text, expectations): expectations = list of (path, declared type name, lexical text, kind)."""
    body, attrs, exp = [], [], []
    for t, samples in SAMPLES.items():
        if not samples:
            continue
        if version == '1.1' and t in ('date', 'dateTime', 'gYear', 'gYearMonth'):
            samples = {'date': ['0000-01-01', '-0001-12-31'], 'dateTime': ['0000-02-29T00:00:00', '-0004-02-29T12:00:00Z'], 'gYear': ['0000', '-0001'],
                       'gYearMonth': ['0000-02', '-0001-12']}[t] if n_per_type > 1 else samples
        for k, s in enumerate(samples[:2] if n_per_type > 1 else [rng.choice(samples)]):
            body.append(f'<e_{t} xmlns:xs="http://www.w3.org/2001/XMLSchema">{_esc(s)}</e_{t}>')
            exp.append((f'e_{t}[{k + 1}]' if n_per_type > 1 else f'e_{t}[1]', t, s, 'atomic'))
        if t not in ('ID', 'IDREF', 'QName'):
            s = rng.choice(samples)
            attrs.append(f'a_{t}="{_esc(s)}"')
            exp.append((f'@a_{t}', t, s, 'atomic'))
    for t, (_, _, samples) in DERIVED.items():
        s = rng.choice(samples)
        body.append(f'<e_{t}>{s}</e_{t}>')
        exp.append((f'e_{t}[1]', t, s, 'atomic'))
        attrs.append(f'a_{t}="{s}"')
        exp.append((f'@a_{t}', t, s, 'atomic'))
    for t, (item, samples) in LISTS.items():
        s = rng.choice(samples)
        body.append(f'<e_{t}>{s}</e_{t}>')
        exp.append((f'e_{t}[1]', item, s, 'list'))
        attrs.append(f'a_{t}="{" ".join(s.split())}"')
        exp.append((f'@a_{t}', item, ' '.join(s.split()), 'list'))
    for t, (members, samples) in UNIONS.items():
        for k, s in enumerate(samples):
            body.append(f'<e_{t}>{s}</e_{t}>')
            exp.append((f'e_{t}[{k + 1}]', members[k], s, 'atomic'))
    if version == '1.1':
        # year zero and BCE years of XSD 1.1 (elements declared with maxOccurs unbounded: appended after the first sample)
        pass
    body.append('<m cur="EUR">1.50</m><q unit="kg">12</q>')
    exp += [('m[1]', 'decimal', '1.50', 'atomic'), ('m[1]/@cur', 'token', 'EUR', 'atomic'), ('q[1]', 'small', '12', 'atomic'), ('q[1]/@unit', 'NCName', 'kg', 'atomic'),
            ('m[1]/@rate', 'double', '1.5', 'default')]
    body.append(f'<nil_date xmlns:xsi="{XSI}" xsi:nil="true"/><nil_date>2000-01-01</nil_date><nil_small xmlns:xsi="{XSI}" xsi:nil="1"/>')
    exp += [('nil_date[1]', 'date', None, 'nilled'), ('nil_date[2]', 'date', '2000-01-01', 'atomic'), ('nil_small[1]', 'small', None, 'nilled')]
    body.append('<def_int/><def_int>9</def_int><fix_tok/>')
    exp += [('def_int[1]', 'int', '7', 'default'), ('def_int[2]', 'int', '9', 'atomic'), ('fix_tok[1]', 'token', 'F', 'default')]
    body.append(f'<any_dec xmlns:xsi="{XSI}" xmlns:xs="http://www.w3.org/2001/XMLSchema" xsi:type="xs:byte">5</any_dec><any_dec>2.5</any_dec>')
    exp += [('any_dec[1]', 'byte', '5', 'atomic'), ('any_dec[2]', 'decimal', '2.5', 'atomic')]
    body.append('<group code="12"><value>1</value><value>2</value></group><group code="3"><value>3</value></group><other><value>2000-01-01</value></other>')
    exp += [('group[1]/value[1]', 'int', '1', 'atomic'), ('other[1]/value[1]', 'date', '2000-01-01', 'atomic'), ('group[2]/value[1]', 'int', '3', 'atomic'),
            ('group[1]/@code', 'int', '12', 'atomic'), ('@d_bool', 'boolean', 'true', 'default')]
    return '<root ' + ' '.join(attrs) + '>' + ''.join(body) + '</root>', exp


def _esc(s):
    return s.replace('&', '&amp;').replace('<', '&lt;').replace('"', '&quot;')


def _ev(root, expr, schema=None, parser=XPath31Parser):
    kw = {'namespaces': {'xs': 'http://www.w3.org/2001/XMLSchema', 'xsi': XSI}}
    if schema is not None:
        kw['schema'] = schema.xpath_proxy
    try:
        tok = parser(**kw).parse(expr)
        ctx = XPathContext(root=root, namespaces=NSARG, schema=schema.xpath_proxy if schema is not None else None)
        return 'ok', tok.evaluate(ctx)
    except ElementPathError as e:
        return 'err', f'{e.code}: {str(e)[:70]}'
    except Exception as e:      # noqa
        return 'crash', f'{type(e).__name__}: {str(e)[:70]}'


def _same_value(a, b):
    if isinstance(a, float) and isinstance(b, float) and math.isnan(a) and math.isnan(b):
        return True
    try:
        return bool(a == b) and (type(a) is type(b) or isinstance(a, type(b)) or isinstance(b, type(a)))
    except Exception:      # noqa
        return False


def schema_typing(tier, seed):
    rng = random.Random(20260925)
    fam, n = {}, 0

    def bad(k, **w):
        fam.setdefault(k, []).append(w)
    SEL = ['//*', '//@*', '/root/*[1]', '//value', '//group/value[2]', '//*[@cur]', '//m/@*', '/root/*[last()]', '//def_int', '//*[. = 7]', "//*[@unit='kg']",
           '//group[@code = 12]/value', '//nil_date', '/root/@*[1]', '//other//*', '//*[not(*)][position() < 4]', 'count(//@*)', 'count(//*)', '//value/..', '//@code/..']
    for version in ('1.0', '1.1'):
        schema = build_schema(version)
        for rep in range(2 if tier == 'quick' else 8):
            xml, exp = build_instance(rng, 1 + rep % 2, version)
            root = ET.XML(xml)
            if not schema.is_valid(root, namespaces=NSARG):
                errs = [str(e.reason)[:80] for e in schema.iter_errors(root, namespaces=NSARG)][:2]
                bad('the generated instance is not valid (generator error)', errors=errs)
                continue
            xsd_root = schema.elements['root']
            for path, tname, text, kind in exp:
                n += 1
                w = dict(path=path, declared=tname, text=text, xsd=version)
                bt = builtin_of(tname)
                cls = BUILTIN['xs:' + bt]
                st, val = _ev(root, f'data(/root/{path})', schema)
                if st != 'ok':
                    bad(f'data() raises on a typed node ({kind})', **w, got=val)
                    continue
                vals = val if isinstance(val, list) else [val]
                if kind == 'nilled':
                    if vals not in ([], ):
                        bad('the typed value of a nilled element is not the empty sequence', **w, got=repr(vals)[:60])
                    st2, r2 = _ev(root, f'/root/{path} instance of element(*, xs:{bt})', schema)
                    if (st2, r2) != ('ok', False):
                        bad('a nilled element matches element(*, T) without "?"', **w, got=repr((st2, r2))[:60])
                    st3, r3 = _ev(root, f'/root/{path} instance of element(*, xs:{bt}?)', schema)
                    if (st3, r3) != ('ok', True):
                        bad('a nilled element does not match element(*, T?)', **w, got=repr((st3, r3))[:60])
                    continue
                if not vals:
                    bad(f'the typed value is empty ({kind})', **w)
                    continue
                # instance of the datatype class of the declared type
                for v in vals:
                    if not isinstance(v, cls):
                        bad(f'the typed value is not an instance of the declared datatype ({"derived" if tname != bt else "built-in"} type, {kind})', **w,
                            got=f'{type(v).__name__} {v!r}'[:60], expected=cls.__name__)
                        break
                # equals what the schema processor decodes
                lex = text
                try:
                    if kind == 'list':
                        item_type = schema.types[tname] if tname in schema.types else schema.meta_schema.types[bt]
                        want = [item_type.decode(x) for x in lex.split()]
                    else:
                        xt = schema.types[tname] if tname in schema.types else schema.meta_schema.types[bt]
                        want = [xt.decode(lex)]
                except Exception as e:      # noqa
                    want = None
                if want is not None and bt not in ('QName', 'NOTATION'):
                    if len(want) != len(vals) or not all(_loose_equal(a, b) for a, b in zip(vals, want)):
                        bad(f'the typed value differs from the value decoded by the schema processor ({kind})', **w, got=repr(vals)[:60], schema_value=repr(want)[:60])
                # kind tests with type argument: declared type and its base types
                node_kind = 'attribute' if '@' in path.split('/')[-1] else 'element'
                anc = [bt]
                while anc[-1] in PARENT:
                    anc.append(PARENT[anc[-1]])
                if kind != 'list':
                    for t2 in anc[:4]:
                        st4, r4 = _ev(root, f'/root/{path} instance of {node_kind}(*, xs:{t2})', schema)
                        if (st4, r4) != ('ok', True):
                            bad(f'instance of {node_kind}(*, T) fails for the declared type or a base type', **w, tested=t2, got=repr((st4, r4))[:70])
                            break
                    other = 'date' if not atomic_subtype(bt, 'date') else 'integer'
                    st5, r5 = _ev(root, f'/root/{path} instance of {node_kind}(*, xs:{other})', schema)
                    if (st5, r5) != ('ok', False) and not atomic_subtype(bt, other):
                        bad(f'instance of {node_kind}(*, T) holds for an unrelated type', **w, tested=other, got=repr((st5, r5))[:70])
                # arithmetic / comparison use the typed value
                if bt in ('integer', 'int', 'short', 'byte', 'long', 'decimal', 'double', 'float', 'nonNegativeInteger', 'positiveInteger', 'unsignedByte', 'unsignedShort',
                          'unsignedInt', 'unsignedLong', 'negativeInteger', 'nonPositiveInteger') and kind in ('atomic', 'default') and text not in ('NaN', 'INF'):
                    static = ' (static typing with a union-typed node)' if any(path.startswith('e_' + u) for u in UNIONS) else \
                        ' (static typing of an attribute matched by a local declaration and a wildcard)' if path.endswith('group[1]/@code') else ''
                    st6, r6 = _ev(root, f'/root/{path} + 1', schema)
                    num = decimal.Decimal(text) if bt not in ('double', 'float') else float(text)
                    if st6 != 'ok' or not _loose_equal(r6, num + 1):
                        bad('arithmetic on a typed node does not use the typed value' + static, **w, got=repr((st6, r6))[:60])
                    # the other arithmetic operators: integer division on integer-typed nodes, multiplication and unary minus with the value's own type
                    if bt not in ('decimal', 'double', 'float') and not static:
                        ival = int(text)
                        for expr6, want6 in ((f'/root/{path} idiv 1', ival), (f'(/root/{path} * 2) idiv 2', ival), (f'- /root/{path}', -ival), (f'/root/{path} mod 1', 0)):
                            st9, r9 = _ev(root, expr6, schema)
                            if st9 != 'ok' or isinstance(r9, (list, float)) or r9 != want6:
                                bad('arithmetic on a typed node does not use the typed value (idiv, mod, unary minus on integer-typed nodes)', **w, expr=expr6,
                                    got=repr((st9, r9))[:60], expected=want6)
                    st7, r7 = _ev(root, f'/root/{path} lt 1e100', schema)
                    if (st7, r7) != ('ok', True):
                        bad('value comparison on a typed numeric node fails' + static, **w, got=repr((st7, r7))[:60])
                if bt == 'date' and kind == 'atomic':
                    static = ' (static typing with a union-typed node)' if any(path.startswith('e_' + u) for u in UNIONS) else ''
                    st8, r8 = _ev(root, f"/root/{path} gt xs:date('-9000-01-01')", schema)
                    if (st8, r8) != ('ok', True):
                        bad('date comparison on a typed node fails' + static, **w, got=repr((st8, r8))[:60])
            # selection invariance
            rn_plain = get_node_tree(ET.ElementTree(ET.XML(xml)))
            for expr in SEL:
                n += 1
                a = _ev(root, expr, None)
                b = _ev(root, expr, schema)
                ka, kb = _node_keys(a), _node_keys(b)
                if ka != kb:
                    cause = 'other'
                    if isinstance(ka, list) and isinstance(kb, list) and all(isinstance(x, tuple) for x in ka + kb):
                        extra, missing = [x for x in kb if x not in ka], [x for x in ka if x not in kb]
                        if not missing and extra and all('Attribute' in x[0] and x[1] in ('rate', 'd_bool') for x in extra):
                            cause = 'attributes defaulted by the schema are added as nodes'
                        elif not extra and missing == [('EtreeElementNode', 'root', 1)]:
                            cause = "'//' from an element root omits the root element when a schema is given"
                    elif expr.startswith('count('):
                        cause = 'node counts (consequence of the two selection findings)'
                    bad(f'supplying the schema changes which nodes a path selects ({cause})', expr=expr, xsd=version, without=repr(ka)[:100], with_schema=repr(kb)[:100])
            # call forms: the module-level select / iter_select and Selector give the same typed values; a prebuilt node tree used with several contexts keeps them
            from elementpath import select as ep_select, iter_select as ep_iter_select, Selector, XPathContext as _Ctx
            proxy = schema.xpath_proxy if hasattr(schema, 'xpath_proxy') else schema
            probe = 'data((//*[not(*)][string(.) != ""])[1])'
            try:
                outs = {'select': ep_select(ET.XML(xml), probe, parser=XPath31Parser, schema=proxy),
                        'iter_select': list(ep_iter_select(ET.XML(xml), probe, parser=XPath31Parser, schema=proxy)),
                        'Selector.select': Selector(probe, parser=XPath31Parser, schema=proxy).select(ET.XML(xml)),
                        'Selector.iter_select': list(Selector(probe, parser=XPath31Parser, schema=proxy).iter_select(ET.XML(xml)))}
                n += 4
                base = [(type(x).__name__, str(x)) for x in outs['select']]
                for k, v in outs.items():
                    if [(type(x).__name__, str(x)) for x in v] != base:
                        bad(f'{k}(root, path, schema=proxy) does not give the typed value that select gives', xsd=version, got=repr(v)[:80], select=repr(outs['select'])[:80])
                tree = get_node_tree(ET.ElementTree(ET.XML(xml)))
                tok = XPath31Parser(schema=proxy).parse(probe)
                runs = [tok.evaluate(_Ctx(tree, schema=proxy)) for _ in range(3)]
                n += 3
                if any([(type(x).__name__, str(x)) for x in r] != base for r in runs):
                    bad('a prebuilt node tree used with a second context for the same schema loses its type annotations', xsd=version,
                        runs=repr([[type(x).__name__ for x in r] for r in runs])[:120])
            except Exception as e:      # noqa
                bad('the call forms with a schema raise', xsd=version, err=f'{type(e).__name__}: {str(e)[:100]}')
    fails = [{'key': k, 'items': it[:5], 'count': len(it), 'what': f'{k}: e.g. {it[0]}'} for k, it in fam.items()]
    return {'evaluations': n, 'distinct': n, 'exhaustive': False,
            'scope': f'one generated schema per XSD version (1.0, 1.1) over {len(SAMPLES) - 1} built-in simple types, {len(DERIVED)} restrictions (two-level), '
            f'{len(LISTS)} list types, {len(UNIONS)} unions, two simple-content extensions, nillable, default/fixed, xsi:type, same-named local elements, anyAttribute + '
            'global attribute; valid instances with ~150 typed element/attribute nodes each: typed value is an instance of the declared datatype class and equals '
            "xmlschema's decoded value, element(*, T)/attribute(*, T) for the declared type, its bases and an unrelated type, arithmetic and comparisons; 20 selection "
            'expressions with and without the schema', 'failures': fails}


def _loose_equal(a, b):
    if isinstance(a, float) and isinstance(b, float) and math.isnan(a) and math.isnan(b):
        return True
    try:
        if a == b:
            return True
    except Exception:      # noqa
        pass
    return str(a) == str(b)


def _node_keys(outcome):
    st, v = outcome
    if st != 'ok':
        return (st, v.split(':')[0] if isinstance(v, str) else v)
    vs = v if isinstance(v, list) else [v]
    out = []
    for x in vs:
        if hasattr(x, 'position') and hasattr(x, 'parent'):
            out.append((type(x).__name__.replace('Typed', 'Text'), getattr(x, 'name', None), x.position))
        else:
            out.append(repr(x))
    return out


_CACHE = {}


def _replay(f):
    if 'r' not in _CACHE:
        _CACHE['r'] = schema_typing('quick', 0)
    r = _CACHE['r']
    return all(x['key'] != f['key'] for x in r['failures'])


BOUNDED = [Bounded('schema_typing_and_selection_invariance', schema_typing, _replay)]
