"""Reference oracles for C10, written from XSD Part 2 (1.0 second edition / 1.1) and F&O 3.1 sections 19 and 4.

Nothing here imports the library: lexical spaces are regular expressions plus the value-space side conditions
of the datatype (month/day ranges, integer bounds, ...), the casting table is F&O 3.1 19.1, the canonical
double string is F&O 19.1.2.2 (xs:double -> xs:string).
"""
from __future__ import annotations

import calendar
import decimal
import math
import re

TZ = r'(?:Z|[+-](?:(?:0[0-9]|1[0-3]):[0-5][0-9]|14:00))'
YEAR = r'-?(?:[1-9][0-9]{3,}|0[0-9]{3})'
MONTH = r'(?:0[1-9]|1[0-2])'
DAY = r'(?:0[1-9]|[12][0-9]|3[01])'
TIME = r'(?:(?:[01][0-9]|2[0-3]):[0-5][0-9]:[0-5][0-9](?:\.[0-9]+)?|24:00:00(?:\.0+)?)'
NUMBER = r'[+-]?(?:[0-9]+(?:\.[0-9]*)?|\.[0-9]+)'
DU_DATE = r'(?:[0-9]+Y(?:[0-9]+M)?(?:[0-9]+D)?|[0-9]+M(?:[0-9]+D)?|[0-9]+D)'
DU_TIME = r'T(?:[0-9]+H(?:[0-9]+M)?(?:[0-9]+(?:\.[0-9]+)?S)?|[0-9]+M(?:[0-9]+(?:\.[0-9]+)?S)?|[0-9]+(?:\.[0-9]+)?S)'
B64 = r'[A-Za-z0-9+/]'
# XML 1.0 (fifth edition) NameStartChar / NameChar restricted to the Basic Latin + Latin-1 range examined here
NAME_START = r'A-Za-z_À-ÖØ-öø-ÿ'
NAME_CHAR = NAME_START + r'0-9.\-·'

LEXICAL = {
    'string': r'[\s\S]*', 'normalizedString': r'[\s\S]*', 'token': r'[\s\S]*', 'untypedAtomic': r'[\s\S]*',
    'language': r'[a-zA-Z]{1,8}(?:-[a-zA-Z0-9]{1,8})*',
    'Name': f'[{NAME_START}:][{NAME_CHAR}:]*', 'NCName': f'[{NAME_START}][{NAME_CHAR}]*',
    'ID': f'[{NAME_START}][{NAME_CHAR}]*', 'IDREF': f'[{NAME_START}][{NAME_CHAR}]*', 'ENTITY': f'[{NAME_START}][{NAME_CHAR}]*',
    'NMTOKEN': f'[{NAME_CHAR}:]+',
    'QName': f'(?:[{NAME_START}][{NAME_CHAR}]*:)?[{NAME_START}][{NAME_CHAR}]*',
    'boolean': r'true|false|1|0',
    'decimal': NUMBER,
    'float': NUMBER + r'(?:[Ee][+-]?[0-9]+)?|[+-]?INF|NaN',
    'double': NUMBER + r'(?:[Ee][+-]?[0-9]+)?|[+-]?INF|NaN',
    'hexBinary': r'(?:[0-9a-fA-F]{2})*',
    'base64Binary': f'(?:(?:(?:{B64} ?){{4}})*(?:(?:{B64} ?){{3}}{B64}|(?:{B64} ?){{2}}[AEIMQUYcgkosw048] ?=|{B64} ?[AQgw] ?= ?=))?',
    'dateTime': f'{YEAR}-{MONTH}-{DAY}T{TIME}{TZ}?',
    'dateTimeStamp': f'{YEAR}-{MONTH}-{DAY}T{TIME}{TZ}',
    'date': f'{YEAR}-{MONTH}-{DAY}{TZ}?',
    'time': f'{TIME}{TZ}?',
    'gYearMonth': f'{YEAR}-{MONTH}{TZ}?', 'gYear': f'{YEAR}{TZ}?', 'gMonthDay': f'--{MONTH}-{DAY}{TZ}?',
    'gDay': f'---{DAY}{TZ}?', 'gMonth': f'--{MONTH}{TZ}?',
    'duration': f'-?P(?:{DU_DATE}(?:{DU_TIME})?|{DU_TIME})',
    'yearMonthDuration': r'-?P(?:[0-9]+Y(?:[0-9]+M)?|[0-9]+M)',
    'dayTimeDuration': f'-?P(?:[0-9]+D(?:{DU_TIME})?|{DU_TIME})',
}
INT_BOUNDS = {'integer': (None, None), 'nonPositiveInteger': (None, 0), 'negativeInteger': (None, -1),
              'long': (-2 ** 63, 2 ** 63 - 1), 'int': (-2 ** 31, 2 ** 31 - 1), 'short': (-2 ** 15, 2 ** 15 - 1), 'byte': (-128, 127),
              'nonNegativeInteger': (0, None), 'positiveInteger': (1, None), 'unsignedLong': (0, 2 ** 64 - 1),
              'unsignedInt': (0, 2 ** 32 - 1), 'unsignedShort': (0, 65535), 'unsignedByte': (0, 255)}
for _n in INT_BOUNDS:
    LEXICAL[_n] = r'[+-]?[0-9]+'

WS_PRESERVE = {'string', 'untypedAtomic'}
WS_REPLACE = {'normalizedString'}


def normalise(tname: str, s: str) -> str:
    """The whiteSpace facet of the type: preserve, replace or collapse (XSD Part 2, 4.3.6)."""
    if tname in WS_PRESERVE:
        return s
    if tname in WS_REPLACE:
        return re.sub('[\t\n\r]', ' ', s)
    return re.sub('[\t\n\r ]+', ' ', s).strip(' ')


def _year_ok(text: str, xsd_version: str) -> bool:
    m = re.match(r'-?[0-9]+', text)
    y = int(m.group(0))
    return y != 0 or xsd_version == '1.1'


def in_lexical_space(tname: str, s: str, xsd_version: str = '1.1'):
    """True/False; None where the oracle does not decide (anyURI, NOTATION, non Latin-1 names)."""
    if tname in ('anyURI', 'NOTATION', 'anyAtomicType', 'error'):
        return None
    if any(not (c in '\t\n\r' or 0x20 <= ord(c) <= 0xD7FF or 0xE000 <= ord(c) <= 0xFFFD or ord(c) >= 0x10000) for c in s):
        return None        # not an XML Char: outside every XSD string value, nothing to decide
    if tname == 'dateTimeStamp' and xsd_version == '1.0':
        return None        # the type does not exist in XSD 1.0
    if tname in ('dateTime', 'dateTimeStamp', 'date', 'gYear', 'gYearMonth') and re.match(r'-?[0-9]{10,}', s):
        return None        # implementation-defined limit on the year (XSD 1.1 5.4 permits one)
    if tname in ('Name', 'NCName', 'ID', 'IDREF', 'ENTITY', 'NMTOKEN', 'QName') and any(ord(c) > 0xFF for c in s):
        return None
    if re.fullmatch(LEXICAL[tname], s) is None:
        return False
    if tname in INT_BOUNDS:
        lo, hi = INT_BOUNDS[tname]
        v = int(s)
        return (lo is None or v >= lo) and (hi is None or v <= hi)
    if tname in ('float', 'double') and xsd_version == '1.0' and s == '+INF':
        return False
    if tname in ('dateTime', 'dateTimeStamp', 'date'):
        if not _year_ok(s, xsd_version):
            return False
        m = re.match(r'(-?[0-9]+)-([0-9]{2})-([0-9]{2})', s)
        y, mo, d = int(m.group(1)), int(m.group(2)), int(m.group(3))
        # proleptic Gregorian; XSD 1.0 has no year 0 so -0001 is 1 BCE which is a leap year (year + 1)
        yy = y if (xsd_version == '1.1' or y > 0) else y + 1
        leap = yy % 4 == 0 and (yy % 100 != 0 or yy % 400 == 0)
        return d <= (29 if leap else 28) if mo == 2 else d <= (30 if mo in (4, 6, 9, 11) else 31)
    if tname in ('gYearMonth', 'gYear'):
        return _year_ok(s, xsd_version)
    if tname == 'gMonthDay':
        mo, d = int(s[2:4]), int(s[5:7])
        return d <= (29 if mo == 2 else 30 if mo in (4, 6, 9, 11) else 31)
    return True


# ---- F&O 3.1 section 19.1: casting between primitive types ---------------------------------------------
PRIMITIVES = ['untypedAtomic', 'string', 'float', 'double', 'decimal', 'integer', 'duration', 'yearMonthDuration',
              'dayTimeDuration', 'dateTime', 'time', 'date', 'gYearMonth', 'gYear', 'gMonthDay', 'gDay', 'gMonth', 'boolean',
              'base64Binary', 'hexBinary', 'anyURI', 'QName']
_NUM = ['float', 'double', 'decimal', 'integer']
_ALWAYS = {
    'float': {'untypedAtomic', 'string', 'float', 'double', 'boolean'},
    'double': {'untypedAtomic', 'string', 'double', 'boolean'},
    'decimal': {'untypedAtomic', 'string', 'float', 'double', 'decimal', 'integer', 'boolean'},
    'integer': {'untypedAtomic', 'string', 'float', 'double', 'decimal', 'integer', 'boolean'},
    'duration': {'untypedAtomic', 'string', 'duration', 'yearMonthDuration', 'dayTimeDuration'},
    'yearMonthDuration': {'untypedAtomic', 'string', 'duration', 'yearMonthDuration', 'dayTimeDuration'},
    'dayTimeDuration': {'untypedAtomic', 'string', 'duration', 'yearMonthDuration', 'dayTimeDuration'},
    'dateTime': {'untypedAtomic', 'string', 'dateTime', 'time', 'date', 'gYearMonth', 'gYear', 'gMonthDay', 'gDay', 'gMonth'},
    'time': {'untypedAtomic', 'string', 'time'},
    'date': {'untypedAtomic', 'string', 'dateTime', 'date', 'gYearMonth', 'gYear', 'gMonthDay', 'gDay', 'gMonth'},
    'gYearMonth': {'untypedAtomic', 'string', 'gYearMonth'}, 'gYear': {'untypedAtomic', 'string', 'gYear'},
    'gMonthDay': {'untypedAtomic', 'string', 'gMonthDay'}, 'gDay': {'untypedAtomic', 'string', 'gDay'},
    'gMonth': {'untypedAtomic', 'string', 'gMonth'},
    'boolean': {'untypedAtomic', 'string', 'float', 'double', 'decimal', 'integer', 'boolean'},
    'base64Binary': {'untypedAtomic', 'string', 'base64Binary', 'hexBinary'},
    'hexBinary': {'untypedAtomic', 'string', 'base64Binary', 'hexBinary'},
    'anyURI': {'untypedAtomic', 'string', 'anyURI'},
    'QName': {'untypedAtomic', 'string', 'QName'},
}
_MAYBE = {'float': {'decimal', 'integer'}, 'double': {'float', 'decimal', 'integer'}}


def cast_allowed(source: str, target: str, xpath_version: str = '3.1') -> str:
    """'Y' always succeeds, 'M' depends on the value, 'N' never (XPTY0004)."""
    if source in ('untypedAtomic', 'string'):
        if target == source or target in ('untypedAtomic', 'string'):
            return 'Y'
        if target in ('QName',) and source == 'untypedAtomic' and xpath_version == '2.0':
            return 'N'
        return 'M'
    if target in _ALWAYS[source]:
        return 'Y'
    if target in _MAYBE.get(source, ()):
        return 'M'
    return 'N'


# ---- canonical strings -------------------------------------------------------------------------------------
def double_to_string(x: float) -> str:
    """F&O 3.1 19.1.2.2 casting xs:double to xs:string (shortest digits that round-trip, as repr gives)."""
    if math.isnan(x):
        return 'NaN'
    if math.isinf(x):
        return 'INF' if x > 0 else '-INF'
    if x == 0:
        return '-0' if math.copysign(1.0, x) < 0 else '0'
    d = decimal.Decimal(repr(float(x)))
    if 1e-6 <= abs(x) < 1e6:
        t = format(d, 'f')
        if '.' in t:
            t = t.rstrip('0').rstrip('.')
        return t
    sign, digits, exp = d.as_tuple()
    digits = list(digits)
    while len(digits) > 1 and digits[-1] == 0:
        digits.pop()
        exp += 1
    e = exp + len(digits) - 1
    frac = ''.join(map(str, digits[1:])) or '0'
    return f"{'-' if sign else ''}{digits[0]}.{frac}E{e}"


def decimal_to_string(d: decimal.Decimal) -> str:
    t = format(d, 'f')
    if '.' in t:
        t = t.rstrip('0').rstrip('.')
    if t in ('-0', ''):
        t = '0'
    return t
