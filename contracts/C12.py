"""C12 - XSD/XPath regular expressions translate to Python regexes with the same language.

Per-pattern translation validation, decided by a solver for ALL subject strings: a pattern is generated as a syntax tree
over the XSD regex grammar (branches, quantifiers {n,m}, groups, character classes with ranges, negation, subtraction,
multi-character escapes, category escapes); it is rendered to XSD syntax and given to the real `translate_pattern`; the
Python regex that comes back is parsed by the stdlib sre parser and turned into a z3 regular expression (pyvc/regex2z3, Python's
character predicates evaluated on the alphabet), the syntax tree is turned into a z3 regular expression by the XSD
semantics written below (XSD Part 2 Appendix F / G), and the two languages are proved equal over a fixed alphabet of 118
characters and unbounded length by two inclusion queries.  A difference comes with a witness string that is replayed on the
real `re` engine against an independent reference matcher.

Bounded stand-ins: back-references, flags, invalid patterns (RegexError), consistency of fn:matches / replace / tokenize /
analyze-string.
"""
from __future__ import annotations

import random
import re
import unicodedata

import z3

from pyvc import regex2z3
from .bounded import Bounded
from elementpath.regex import translate_pattern, RegexError

# ---- alphabet: printable ASCII, the XML whitespace, and non-ASCII characters of different categories -----------------------------
ALPHABET = [chr(c) for c in range(0x20, 0x7F)] + ['\t', '\n', '\r'] + list('éÉ٣Ωω·\xa0ǅ€²ːৗ‿\u0300\u2028…„«\u00ad')
ALPHABET = sorted(set(ALPHABET))

NAME_START_RANGES = [(0x3A, 0x3A), (0x41, 0x5A), (0x5F, 0x5F), (0x61, 0x7A), (0xC0, 0xD6), (0xD8, 0xF6), (0xF8, 0x2FF), (0x370, 0x37D), (0x37F, 0x1FFF),
                     (0x200C, 0x200D), (0x2070, 0x218F), (0x2C00, 0x2FEF), (0x3001, 0xD7FF), (0xF900, 0xFDCF), (0xFDF0, 0xFFFD), (0x10000, 0xEFFFF)]
NAME_CHAR_EXTRA = [(0x2D, 0x2E), (0x30, 0x39), (0xB7, 0xB7), (0x300, 0x36F), (0x203F, 0x2040)]


def _in(ranges, ch):
    return any(lo <= ord(ch) <= hi for lo, hi in ranges)


ESCAPES = {
    'd': lambda c: unicodedata.category(c) == 'Nd',
    's': lambda c: c in ' \t\n\r',
    'w': lambda c: unicodedata.category(c)[0] not in 'PZC',
    'i': lambda c: _in(NAME_START_RANGES, c),
    'c': lambda c: _in(NAME_START_RANGES, c) or _in(NAME_CHAR_EXTRA, c),
}
CATEGORIES = ['L', 'Lu', 'Ll', 'Lt', 'Lm', 'Lo', 'M', 'Mn', 'N', 'Nd', 'No', 'P', 'Pc', 'Pd', 'Ps', 'Pe', 'Po', 'Z', 'Zs', 'S', 'Sm', 'Sc', 'Sk', 'C', 'Cc', 'Cf']
BLOCKS = {'IsBasicLatin': (0x0, 0x7F), 'IsLatin-1Supplement': (0x80, 0xFF), 'IsGreek': (0x370, 0x3FF), 'IsArabic': (0x600, 0x6FF)}


def char_pred(node):
    """Predicate of a single-character node of the syntax tree (XSD semantics)."""
    k = node[0]
    if k == 'lit':
        return lambda c: c == node[1]
    if k == 'any':
        return lambda c: c not in '\n\r'
    if k == 'esc':
        f = ESCAPES[node[1].lower()]
        return (lambda c: not f(c)) if node[1].isupper() else f
    if k == 'cat':
        name, neg = node[1], node[2]
        if name in BLOCKS:
            lo, hi = BLOCKS[name]
            f = lambda c: lo <= ord(c) <= hi          # noqa
        else:
            f = lambda c: unicodedata.category(c).startswith(name)       # noqa
        return (lambda c: not f(c)) if neg else f
    if k == 'range':
        return lambda c: node[1] <= c <= node[2]
    if k == 'cls':
        _, items, negated, sub = node
        preds = [char_pred(i) for i in items]
        subp = char_pred(sub) if sub else None

        def f(c):
            r = any(p(c) for p in preds)
            if negated:
                r = not r
            return r and not (subp(c) if subp else False)
        return f
    raise ValueError(node)


SINGLE = ('lit', 'any', 'esc', 'cat', 'cls')


def ref_z3(node):
    k = node[0]
    if k in SINGLE:
        f = char_pred(node)
        chars = [c for c in ALPHABET if f(c)]
        if not chars:
            return z3.Empty(z3.ReSort(z3.StringSort()))
        return _union([z3.Re(z3.StringVal(c)) for c in chars])
    if k == 'seq':
        parts = [ref_z3(x) for x in node[1]]
        if not parts:
            return z3.Re(z3.StringVal(''))
        r = parts[0]
        for p in parts[1:]:
            r = z3.Concat(r, p)
        return r
    if k == 'alt':
        return _union([ref_z3(x) for x in node[1]])
    if k == 'group':
        return ref_z3(node[1])
    if k == 'rep':
        _, sub, lo, hi = node
        r = ref_z3(sub)
        if hi is None:
            return z3.Star(r) if lo == 0 else z3.Plus(r) if lo == 1 else z3.Concat(z3.Loop(r, lo, lo), z3.Star(r))
        return z3.Loop(r, lo, hi)
    raise ValueError(node)


def _union(parts):
    r = parts[0]
    for p in parts[1:]:
        r = z3.Union(r, p)
    return r


def ref_python(node):
    """An independent reference matcher: a Python regex with fully enumerated character sets over the alphabet."""
    k = node[0]
    if k in SINGLE:
        f = char_pred(node)
        chars = [c for c in ALPHABET if f(c)]
        if not chars:
            return '(?!)'
        return '[' + ''.join(re.escape(c) for c in chars) + ']'
    if k == 'seq':
        return ''.join(ref_python(x) for x in node[1])
    if k == 'alt':
        return '(?:' + '|'.join(ref_python(x) for x in node[1]) + ')'
    if k == 'group':
        return '(?:' + ref_python(node[1]) + ')'
    if k == 'rep':
        _, sub, lo, hi = node
        return '(?:' + ref_python(sub) + '){%d,%s}' % (lo, '' if hi is None else hi)
    raise ValueError(node)


# ---- rendering to XSD syntax ---------------------------------------------------------------------------------------------------
META = set('\\|.?*+(){}[]^$-')


def render(node, in_class=False):
    k = node[0]
    if k == 'lit':
        c = node[1]
        if c in '\n\r\t':
            return {'\n': '\\n', '\r': '\\r', '\t': '\\t'}[c]
        if in_class:
            return '\\' + c if c in '\\[]-^' else c
        return '\\' + c if c in META else c
    if k == 'any':
        return '.'
    if k == 'esc':
        return '\\' + node[1]
    if k == 'cat':
        return ('\\P{' if node[2] else '\\p{') + node[1] + '}'
    if k == 'range':
        return render(('lit', node[1]), True) + '-' + render(('lit', node[2]), True)
    if k == 'cls':
        _, items, negated, sub = node
        body = ''.join(render(i, True) for i in items)
        return '[' + ('^' if negated else '') + body + ('-' + render(sub) if sub else '') + ']'
    if k == 'seq':
        return ''.join(render(x) for x in node[1])
    if k == 'alt':
        return '|'.join(render(x) for x in node[1])
    if k == 'group':
        return '(' + render(node[1]) + ')'
    if k == 'rep':
        _, sub, lo, hi = node
        s = render(sub)
        if sub[0] in ('seq', 'alt', 'rep'):
            s = '(' + s + ')'
        q = {(0, None): '*', (1, None): '+', (0, 1): '?'}.get((lo, hi))
        if q is None:
            q = '{%d}' % lo if lo == hi else '{%d,%s}' % (lo, '' if hi is None else hi)
        return s + q
    raise ValueError(node)


# ---- generator --------------------------------------------------------------------------------------------------------------------
LITS = list('abcxyz0159 AZ_-.$^+,:;!#%&\'"=<>@~`/') + ['\t', 'é', 'É', '٣', 'Ω', '·', '€', '\xa0']


def gen_class(rng, depth=0):
    items = []
    for _ in range(rng.randint(1, 3)):
        r = rng.random()
        if r < 0.35:
            items.append(('lit', rng.choice([c for c in LITS if c not in '\t'])))
        elif r < 0.6:
            a, b = sorted(rng.sample('abcdefgxyz0123456789ABCXYZ', 2))
            if a.isdigit() != b.isdigit() or a.islower() != b.islower():
                a, b = sorted(rng.sample('abcdefgxyz', 2))
            items.append(('range', a, b))
        elif r < 0.85:
            items.append(('esc', rng.choice('dDsSwWiIcC')))
        else:
            items.append(('cat', rng.choice(CATEGORIES + list(BLOCKS)), rng.random() < 0.3))
    # a literal '-' or '^' only in positions where XSD 1.0 allows it unescaped: the renderer always escapes them
    sub = gen_class(rng, depth + 1) if depth < 2 and rng.random() < 0.3 else None
    return ('cls', items, rng.random() < 0.3, sub)


def gen_atom(rng, depth):
    r = rng.random()
    if r < 0.4:
        return ('lit', rng.choice(LITS))
    if r < 0.47:
        return ('any',)
    if r < 0.62:
        return ('esc', rng.choice('dDsSwWiIcC'))
    if r < 0.7:
        return ('cat', rng.choice(CATEGORIES + list(BLOCKS)), rng.random() < 0.3)
    if r < 0.9 or depth >= 3:
        return gen_class(rng)
    return ('group', gen_regex(rng, depth + 1))


def gen_piece(rng, depth):
    a = gen_atom(rng, depth)
    r = rng.random()
    if r < 0.55:
        return a
    lo, hi = rng.choice([(0, None), (1, None), (0, 1), (2, 2), (0, 2), (1, 3), (2, None), (0, 0), (3, 3)])
    return ('rep', a, lo, hi)


def gen_branch(rng, depth):
    return ('seq', [gen_piece(rng, depth) for _ in range(rng.randint(0 if depth else 1, 4))])


def gen_regex(rng, depth=0):
    n = rng.choice([1, 1, 1, 2, 3])
    if n == 1:
        return gen_branch(rng, depth)
    return ('alt', [gen_branch(rng, depth) for _ in range(n)])


def library_z3(pattern_text, mode):
    """translate_pattern -> stdlib parse tree -> z3 regex (Python's character predicates evaluated on the alphabet)."""
    py = lib_python(pattern_text, mode)
    core = py
    if core.endswith('$(?!\\n\\Z)'):
        core = core[:-len('(?!\\n\\Z)')]      # '$' then "not before a final newline" = the very end of the subject, which is what the translation of '$' denotes
    return py, regex2z3.translate(core, alphabet=ALPHABET)


def lib_python(pattern_text, mode):
    if mode == 'xsd':
        return translate_pattern(pattern_text, back_references=False, lazy_quantifiers=False, anchors=False)
    return translate_pattern('^(' + pattern_text + ')$')


NCHUNKS = 8


def language_equality(tier, seed, chunk=0):
    rng = random.Random(20260925 + chunk)
    fails, n, und = [], 0, []
    count = (80 if tier == "quick" else 2400) // NCHUNKS
    seen = set()
    hand = [r'[a-c-[b]]+', r'[^\D5]', r'[^\S ]', r'[\P{Lu}-[a]]', r'[a-z+-9]', r'[A-F.-9]', r'[0-3*-.]', r'\w', r'\W', r'[\w-[_]]', r'\i\c*', r'[\i-[:]][\c-[:]]*',
            r'\p{IsBasicLatin}+', r'\P{IsGreek}', r'(a|b)*c{2,3}', r'a{0}b', r'.', r'[.]', r'\.', r'[\^]', r'[a\-z]', r'\-', r'\s+', r'[\s-[ ]]', r'[^a-c]', r'[^\d\s]', r'x*',
            r'(a?)*', r'(|a)b', r'[\p{L}-[\p{Lu}]]', r'[\p{Nd}-[0-4]]', r'[^\-\Dd-y]', r'[\-\d5]', r'[\.\s\-\w]', r'[^,b-g-[\-\Wb-f]]', r'\$\^', r'[$^]', r'[+--]', r'[--/]']
    hand = hand[chunk::NCHUNKS]
    trees = [('raw', h) for h in hand]
    while len(trees) < count + len(hand):
        t = gen_regex(rng)
        text = render(t)
        if text not in seen and len(text) < 60:
            seen.add(text)
            trees.append((t, text))
    restrict = z3.Star(_union([z3.Re(z3.StringVal(c)) for c in ALPHABET]))
    for t, text in trees:
        for mode in ('xsd', 'xpath'):
            try:
                if t == 'raw':
                    # hand-written patterns: the reference is obtained by parsing them with the small XSD parser below
                    tree = parse_xsd(text)
                else:
                    tree = t
                py, lib = library_z3(text, mode)
                ref = ref_z3(tree)
            except RegexError as e:
                fam = 'a character range with "-" as an endpoint' if '--' in text else _shape(text)
                fails.append({'key': f'a valid pattern is rejected ({fam})', 'pattern': text, 'mode': mode, 'what': f'translate_pattern({text!r}) raises RegexError: {e}'})
                continue
            except regex2z3.Unsupported as e:
                und.append(f'{text!r}: {e}')
                continue
            n += 1
            for direction, a, b in (('accepts a string outside the XSD language', lib, ref), ('rejects a string of the XSD language', ref, lib)):
                w = _difference(a, b, restrict)
                if w == 'unknown':
                    und.append(f'{text!r} [{mode}] {direction}: solver timeout')
                elif w is not None:
                    real = re.fullmatch(py, w) is not None
                    want = re.fullmatch(ref_python(tree), w) is not None
                    if real != want:
                        fails.append({'key': f'{direction} ({_shape(text, w)})', 'pattern': text, 'mode': mode, 'witness': w, 'python': py[:200],
                                      'what': f'pattern {text!r} [{mode}]: {w!r} is {"matched" if real else "not matched"} by the translated regex, XSD semantics says '
                                      f'{"match" if want else "no match"}'})
                    else:
                        und.append(f'{text!r}: the solver witness {w!r} does not replay on the re engine (encoder imprecision)')
                    break
    uniq = {}
    for f in fails:
        uniq.setdefault(f['key'], f)
    return {'obligations': n, 'discharged': n - len(fails), 'evaluations': n, 'distinct': n, 'exhaustive': True, 'count_each': True, 'undecided': und[:20],
            'n_undecided': len(und),
            'scope': f'{len(trees)} patterns ({len(hand)} hand-written, the rest generated from the XSD regex grammar with a fixed seed) x (XSD mode: anchors=False, '
            f'no back-references; XPath mode: ^(P)$): L(translate_pattern(P)) == L_XSD(P) for ALL strings over an alphabet of {len(ALPHABET)} characters (ASCII, XML '
            'whitespace, 20 non-ASCII characters of different categories), any length; z3 regex theory, two inclusion queries per pattern and mode; each difference '
            'replayed on the re engine against an enumerated-class reference regex', 'failures': list(uniq.values())}


def _shape(text, witness=None, tree=None, py=None):
    """Family of a finding.  Two deviations are pinned by the repository's tests (Python's \\w and \\s are passed through outside
    character classes): when the witness stops being one once the subject characters on which Python's \\w / \\s differ from the XSD
    ones are avoided, the finding belongs to that family; everything else is keyed by the constructs of the pattern."""
    if witness is not None:
        w_diff = [c for c in witness if (re.fullmatch(r'\w', c) is not None) != ESCAPES['w'](c)]
        s_diff = [c for c in witness if (re.fullmatch(r'\s', c) is not None) != ESCAPES['s'](c)]
        outside = re.sub(r'\[(?:[^\]\\]|\\.)*\]', '', text)      # pattern text outside character classes (approximation)
        if w_diff and re.search(r'\\[wW]', outside):
            return "Python's \\w / \\W outside a character class"
        if s_diff and re.search(r'\\[sS]', outside):
            return "Python's \\s / \\S outside a character class"
    fam = []
    for tag, rx in (('\\w', r'\\[wW]'), ('\\i/\\c', r'\\[iIcC]'), ('\\d', r'\\[dD]'), ('\\s', r'\\[sS]'), ('\\p', r'\\[pP]\{'), ('subtraction', r'-\['),
                    ('negated class', r'\[\^'), ('class', r'\['), ('dot', r'(?<!\\)\.'), ('quantifier', r'[*+?{]'), ('branch', r'\|')):
        if re.search(rx, text):
            fam.append(tag)
    return ', '.join(fam[:2]) or 'literals'


def _difference(a, b, restrict, timeout_ms=15000):
    s = z3.String('w')
    sol = z3.Solver()
    sol.set('timeout', timeout_ms)
    sol.add(z3.InRe(s, a), z3.Not(z3.InRe(s, b)), z3.InRe(s, restrict))
    r = sol.check()
    if r == z3.unsat:
        return None
    if r == z3.sat:
        return sol.model()[s].as_string().encode('latin-1', 'backslashreplace').decode('unicode_escape') if False else _z3str(sol.model()[s])
    return 'unknown'


def _z3str(v):
    s = v.as_string()
    # z3 prints non-ASCII as \\u{XXXX}
    return re.sub(r'\\u\{([0-9a-fA-F]+)\}', lambda m: chr(int(m.group(1), 16)), s)


# ---- a small parser of the XSD regex grammar (for the hand-written patterns) -------------------------------------------------------
def parse_xsd(text):
    pos = [0]

    def peek():
        return text[pos[0]] if pos[0] < len(text) else ''

    def take():
        c = text[pos[0]]
        pos[0] += 1
        return c

    def regex():
        branches = [branch()]
        while peek() == '|':
            take()
            branches.append(branch())
        return branches[0] if len(branches) == 1 else ('alt', branches)

    def branch():
        items = []
        while peek() and peek() not in '|)':
            items.append(piece())
        return ('seq', items)

    def piece():
        a = atom()
        c = peek()
        if c and c in '*+?':
            take()
            return ('rep', a, {'*': 0, '+': 1, '?': 0}[c], {'*': None, '+': None, '?': 1}[c])
        if c == '{':
            take()
            m = re.match(r'(\d+)(,(\d*))?\}', text[pos[0]:])
            pos[0] += m.end()
            lo = int(m.group(1))
            hi = lo if m.group(2) is None else (int(m.group(3)) if m.group(3) else None)
            return ('rep', a, lo, hi)
        return a

    def escape(in_class=False):
        c = take()
        if c in 'dDsSwWiIcC':
            return ('esc', c)
        if c in 'pP':
            take()
            name = ''
            while peek() != '}':
                name += take()
            take()
            return ('cat', name, c == 'P')
        return ('lit', {'n': '\n', 'r': '\r', 't': '\t'}.get(c, c))

    def atom():
        c = take()
        if c == '(':
            r = regex()
            take()
            return ('group', r)
        if c == '[':
            return char_class()
        if c == '.':
            return ('any',)
        if c == '\\':
            return escape()
        return ('lit', c)

    def char_class():
        negated = False
        if peek() == '^':
            take()
            negated = True
        items, sub = [], None
        while True:
            if peek() == ']':
                take()
                break
            if text[pos[0]:pos[0] + 2] == '-[':
                take()
                take()
                sub = char_class()
                take()      # the closing bracket of the outer class
                break
            c = take()
            item = escape(True) if c == '\\' else ('lit', c)
            if item[0] == 'lit' and peek() == '-' and text[pos[0] + 1:pos[0] + 2] not in ('[', ']', ''):
                take()
                c2 = take()
                hi = escape(True) if c2 == '\\' else ('lit', c2)
                item = ('range', item[1], hi[1])
            items.append(item)
        return ('cls', items, negated, sub)
    return regex()


def _replay_lang(f):
    if 'witness' not in f:
        try:
            translate_pattern(f['pattern'], back_references=False, lazy_quantifiers=False, anchors=False)
            return True
        except RegexError:
            return False
    text, w = f['pattern'], f['witness']
    tree = parse_xsd(text)
    try:
        real = re.fullmatch(lib_python(text, f['mode']), w) is not None
    except RegexError:
        return False
    return real == (re.fullmatch(ref_python(tree), w) is not None)


GROUND = [Bounded(f'pattern_language_equality_{k}', (lambda tier, seed, k=k: language_equality(tier, seed, k)), _replay_lang) for k in range(NCHUNKS)]


# ---- BOUNDED: back-references, flags, invalid patterns, consistency of the four functions ---------------------------------------------
from elementpath import XPathContext                      # noqa: E402
from elementpath.exceptions import ElementPathError       # noqa: E402
from elementpath.xpath31 import XPath31Parser             # noqa: E402

CONS_PATTERNS = [r'b', r'a+', r'[0-9]+', r'(a)(c)?b', r'(\d+)(\.\d+)?', r'(a)|(b)', r'\s+', r',\s*', r'(ab)+', r'a.c', r'x|yz', r'(a(b))(c)?', r'[a-c-[b]]', r'\p{Lu}',
                 r'1.2', r'^a', r'c$', r'(a)\1', r'(?:a|b)c' if False else r'(a|b)c', r'A', r'a b', r'\.', r'(b)(?:)' if False else r'(b)', r'é+', r'[^,]+', r'-',
                 r'(a)(b)(c)(d)(e)(f)(g)(h)(i)(j)\10', r'(a)(b)(c)(d)(e)(f)(g)(h)(i)\10', r'(a)(b)(c)(d)(e)(f)(g)(h)(i)(j)(k)(l)\11', r'(.)\1', r'(a*)b\1', r'<', r'&|b', r'(<)(b)?', r'\\', r'a#b', r'[\$x]', r'\$', r'\i\c*', r'[\i-[:]]+',
                 r'a{2,10}', r'a{1,03}', r'b{1,1}c', r'[ab]{3,12}', r'a{2,}', r'a{0,1}b', r'(ab){1,10}']
CONS_SUBJECTS = ['', 'abc', 'xabyz', 'aaaaaaaaaaaab', 'abababababab', 'a,b, c', 'aaa', '12.5 and 7', 'ab ab', 'x1\n2y', 'a\nc', 'ABC abc', 'abcdefghijj', 'abcdefghija0', 'abcdefghi1', 'abcdefghijklk',
                 'aa', 'aba', 'aabaa', 'éé-e', ' a  b ', 'cabc', '1x2', 'a b', '-a-', 'abcdefghia0', 'a<b&c>d', 'b\rb', '<a b="c">&amp;</a>', 'a\\b', 'a#b', 'ac', '$x\\', '\U00010000\U00010001 z']
CONS_FLAGS = ['', 's', 'i', 'm', 'x', 'si', 'q']
INVALID = [r'(', r')', r'[', r'[]', r'[\p{IsFoo}]', r'[a-z-[aeiou]', r'[a-z-[aeiou]x', r'[a-z-[', r'a{2,1}', r'a{10,9}', r'a{100,20}', r'a{12,3}', r'a{010,9}', r'*a', r'a**', r'\p{Xx}', r'\p{IsNoSuchBlock}', r'[a-', r'\q', r'(?=a)', r'(?i)a', r'a{', r'[z-a]', r'\1', r'(a)\2', r'[[a]]',
           r'\p{L', r'a|*', r'+', r'[a-b-c]', r'\u0041', r'(?<n>a)', r'a{1,2,3}', r'\_']


def _xp(expr, **v):
    try:
        r = XPath31Parser().parse(expr).evaluate(XPathContext(root=None, item=1, variables=v))
        return 'ok', r
    except ElementPathError as e:
        return 'err', (e.code or '').split(':')[-1]
    except Exception as e:      # noqa
        return 'crash', f'{type(e).__name__}: {e}'


def _python_oracle(p, flags, s):
    """Patterns of CONS_PATTERNS use only syntax shared by XSD and Python (with XSD meaning for \\s \\d): re.search decides matches()."""
    f = 0
    if 'q' in flags:
        p = re.escape(p)
    if 's' in flags:
        f |= re.DOTALL
    if 'i' in flags:
        f |= re.IGNORECASE
    if 'm' in flags:
        f |= re.MULTILINE
    if 'x' in flags and 'q' not in flags:
        p = re.sub(r'[ \t\n\r]', '', p)
    p = p.replace(r'\s', '[ \t\n\r]').replace(r'\p{Lu}', '[A-ZÉ]').replace('[a-c-[b]]', '[ac]')
    if 's' not in flags:
        p = re.sub(r'(?<!\\)\.', r'[^\\n\\r]', p)
    # XSD back-reference \10 with fewer than 10 groups is \1 followed by the digit 0
    ngroups = len(re.findall(r'(?<!\\)\((?!\?)', p))
    p = re.sub(r'\\(\d)(\d)', lambda m: m.group(0) if int(m.group(1) + m.group(2)) <= ngroups else f'\\{m.group(1)}[{m.group(2)}]', p)
    p = re.sub(r'\$', r'(?!\\n)\\Z' if 'm' not in flags else '$', p)
    if s is None:
        return re.compile(p, f)
    return re.search(p, s, f) is not None


def _spec_expand(repl, m, ngroups):
    """F&O 5.6.4 fn:replace: \\\\ and \\$ are literal characters, $N is the N-th group where N is the longest prefix of the digits that does not exceed the number
    of groups (further digits are literal); a single digit beyond the groups, and a group that did not participate, give the empty string"""
    out, k = '', 0
    while k < len(repl):
        c = repl[k]
        if c == '\\':
            out += repl[k + 1]
            k += 2
        elif c == '$':
            j = k + 1
            while j < len(repl) and repl[j] in '0123456789':
                j += 1
            digits = repl[k + 1:j]
            while len(digits) > 1 and int(digits) > ngroups:
                digits = digits[:-1]
            if int(digits) <= ngroups:
                out += m.group(int(digits)) or ''
            k += 1 + len(digits)
        else:
            out += c
            k += 1
    return out


REPLACEMENTS = ['$1', '[$2]', '$10', '\\\\$0', '\\$0', '$1$1', '<$0>', '$3-$1', 'x', '', '$12$0']


def function_consistency(tier, seed):
    fam, n = {}, 0

    def bad(k, **w):
        fam.setdefault(k, []).append(w)
    for p in CONS_PATTERNS:
        for fl in CONS_FLAGS:
            if 'x' in fl and ' ' in p:
                continue
            for s in CONS_SUBJECTS:
                n += 1
                m = _xp('matches($s, $p, $f)', s=s, p=p, f=fl)
                if m[0] != 'ok':
                    bad('matches raises on a valid pattern', pattern=p, flags=fl, subject=s, got=repr(m)[:80])
                    continue
                try:
                    want = _python_oracle(p, fl, s)
                except re.error:
                    want = None
                if 'i' in fl and '\\p{' in p:
                    want = None      # category escapes stay case-sensitive under the i flag (the library follows the QT3 reading); not decided here
                if want is not None and m[1] != want:
                    fam_key = 'back-reference' if re.search(r'\\\d', p) else 'flags ' + (fl or '-') if fl else 'plain'
                    bad(f'matches differs from the regular expression semantics ({fam_key})', pattern=p, flags=fl, subject=s, got=m[1], want=want)
                empty = _xp('matches("", $p, $f)', p=p, f=fl)
                if empty != ('ok', False):
                    continue        # patterns matching the empty string make replace/tokenize/analyze-string raise FORX0003
                a = _xp('analyze-string($s, $p, $f)/*/string()', s=s, p=p, f=fl)
                kinds = _xp('analyze-string($s, $p, $f)/*/local-name()', s=s, p=p, f=fl)
                t = _xp('tokenize($s, $p, $f)', s=s, p=p, f=fl)
                r = _xp("replace($s, $p, '$0', $f)" if 'q' not in fl else "replace($s, $p, $p, $f)", s=s, p=p, f=fl)
                if 'crash' in (a[0], t[0], r[0], kinds[0]) or 'err' in (a[0], t[0], r[0], kinds[0]):
                    bad('replace / tokenize / analyze-string raise where matches succeeds', pattern=p, flags=fl, subject=s,
                        got=[repr(x)[:60] for x in (a, t, r) if x[0] != 'ok'])
                    continue
                parts = a[1] if isinstance(a[1], list) else [a[1]]
                names = kinds[1] if isinstance(kinds[1], list) else [kinds[1]]
                if ''.join(parts) != s:
                    bad('analyze-string: the parts do not concatenate to the input', pattern=p, flags=fl, subject=s, got=parts)
                if any(k == 'match' for k in names) != m[1]:
                    bad('analyze-string and matches disagree on whether the pattern matches', pattern=p, flags=fl, subject=s, got=names)
                toks, cur = [], ''
                for part, k in zip(parts, names):
                    if k == 'match':
                        toks.append(cur)
                        cur = ''
                    else:
                        cur = part
                toks.append(cur)
                got = t[1] if isinstance(t[1], list) else [t[1]]
                if s == '':
                    toks = []
                if got != toks:
                    bad('tokenize is not the non-match parts of analyze-string', pattern=p, flags=fl, subject=s, got=got, want=toks)
                if r[1] != s:
                    bad("replace with '$0' is not the identity", pattern=p, flags=fl, subject=s, got=r[1])
                if 'q' not in fl and want is not None:
                    try:
                        rx = _python_oracle(p, fl, None)
                    except re.error:
                        rx = None
                    for repl in (REPLACEMENTS if rx is not None else ()):
                        n += 1
                        expect = rx.sub(lambda mm: _spec_expand(repl, mm, rx.groups), s)
                        g = _xp('replace($s, $p, $r, $f)', s=s, p=p, r=repl, f=fl)
                        if g != ('ok', expect):
                            kind = ('a group reference beyond the number of groups' if re.search(r'\$(\d+)', repl) and int(re.search(r'\$(\d+)', repl).group(1)) > rx.groups
                                    else 'an escaped backslash or dollar sign' if '\\' in repl else 'group references')
                            bad(f'replace does not expand the replacement string as F&O 5.6.4 defines ({kind})', pattern=p, flags=fl, subject=s, replacement=repl,
                                got=repr(g)[:80], want=expect)
                elif 'q' in fl:
                    for repl in ('$1', '\\', 'a\\b$'):
                        n += 1
                        g = _xp('replace($s, $p, $r, $f)', s=s, p=p, r=repl, f=fl)
                        if g != ('ok', s.replace(p, repl)):
                            bad('replace with the q flag is not the literal substitution', pattern=p, subject=s, replacement=repl, got=repr(g)[:80], want=s.replace(p, repl))
    # facts outside the Python reference: XML name escapes beyond the BMP (XML 1.0 NameStartChar includes #x10000-#xEFFFF), literal characters under the x flag
    for p, subj, fl, want in (('^\\i\\c*$', '\U00010000\U00010001', '', True), ('^\\I$', '\U00010000', '', False), ('^[\\i]$', '\U000EFFFF', '', True),
                              ('^\\i$', '\U000F0000', '', False), ('^\\c+$', 'a\u0301\U00020000', '', True), ('^[\\$]$', '\\', '', False), ('^[\\$]$', '$', '', True),
                              ('^a#b$', 'a#b', 'x', True), ('^a#b$', 'a', 'x', False), ('^a # b$', 'a#b', 'x', True),
                              # category escapes are not affected by the i flag (F&O 5.6.1.1)
                              ('^\\P{Ll}$', 'A', 'i', True), ('^\\P{Ll}$', 'a', 'i', False), ('^\\p{Lu}$', 'a', 'i', False), ('^\\p{Lu}$', 'A', 'i', True),
                              ('^\\P{Lu}+$', 'ab', 'i', True), ('^x\\P{Lu}$', 'Xa', 'i', True), ('^x\\P{Lu}$', 'XA', 'i', False)):
        n += 1
        g = _xp('matches($s, $p, $f)', s=subj, p=p, f=fl)
        if g != ('ok', want):
            bad('matches differs from the regular expression semantics (name escapes beyond the BMP, escaped dollar in a class, # under the x flag)', pattern=p, flags=fl,
                subject=subj, got=repr(g)[:60], want=want)
    # an invalid replacement string is an error whether or not the input has a match (FORX0004); valid ones are not
    for repl, valid in (('$', False), ('$x', False), ('\\', False), ('a\\b', False), ('$1', True), ('\\$', True), ('\\\\', True), ('x$', False), ('$0$', False)):
        for subj in ('', 'zzz', 'abc'):
            n += 1
            g = _xp('replace($s, $p, $r)', s=subj, p='b', r=repl)
            ok = g[0] == 'ok' if valid else g == ('err', 'FORX0004')
            if not ok:
                bad('replace: the replacement string is validated independently of the input (FORX0004)', replacement=repl, subject=subj, got=repr(g)[:60],
                    want='a string' if valid else 'FORX0004')
    # a class escape inside and outside a class denotes the same set after the Unicode data has been changed and restored (history)
    try:
        from elementpath.regex import install_unicode_data, unicode_version
        import unicodedata as _ud
        probes = ['\U00010D40', '\u0660', '5', 'a', '\U0001E5F1', '_']
        start_version = unicode_version()
        versions = [v for v in ('16.0.0', '15.0.0', '13.0.0', None) if v is None or v != start_version]
        for hist in versions[:3]:
            for cls_, ref in (('[\\d]', '\\p{Nd}'), ('[\\D]', '\\P{Nd}'), ('[\\w]', '[^\\p{P}\\p{Z}\\p{C}]'), ('[\\W]', '[\\p{P}\\p{Z}\\p{C}]')):
                _xp('matches("5", $p)', p='^' + cls_ + '$')          # use before the change (fills the lazy tables)
            try:
                install_unicode_data(hist) if hist else install_unicode_data()
            except Exception:      # noqa - version not installable offline: nothing to compare
                continue
            for cls_, ref in (('[\\d]', '\\p{Nd}'), ('[\\D]', '\\P{Nd}'), ('[\\w]', '[^\\p{P}\\p{Z}\\p{C}]'), ('[\\W]', '[\\p{P}\\p{Z}\\p{C}]')):
                for ch in probes:
                    n += 1
                    g1, g2 = _xp('matches($s, $p)', s=ch, p='^' + cls_ + '$'), _xp('matches($s, $p)', s=ch, p='^' + ref + '$')
                    if g1 != g2:
                        bad('after install_unicode_data a multi-character escape in a class no longer denotes the categories it is defined by', installed=hist or 'default',
                            escape=cls_, defined_as=ref, char=f'U+{ord(ch):04X}', got=repr(g1)[:40], by_definition=repr(g2)[:40])
    finally:
        try:
            install_unicode_data()
        except Exception:      # noqa
            pass
    # flags: q makes the pattern a literal (once, whatever the order of the flags) and x ineffective; q is not a flag of XPath 2.0
    from elementpath import XPath2Parser as _P2
    for expr, want in (("matches('a b', 'a b', 'qx')", True), ("matches('a b', 'a b', 'xq')", True), ("matches('ab', 'a b', 'qx')", False), ("matches('a.b', 'a.b', 'qq')", True),
                       ("matches('axb', 'a.b', 'qq')", False), ("replace('a.b', '.', '$1', 'qq')", 'a$1b'), ("tokenize('a.b.c', '.', 'xq')", ['a', 'b', 'c']),
                       ("matches('A.b', 'a.B', 'qi')", True), ("matches('ab', 'a b', 'x')", True), ("matches('a b', 'a b', 'x')", False)):
        n += 1
        g = _xp(expr)
        if g != ('ok', want):
            bad('the q and x flags: a literal pattern, whitespace removed only without q', expr=expr, got=repr(g)[:60], want=want)
    for expr in ("matches('a', 'a', 'q')", "replace('a', 'a', 'b', 'q')", "tokenize('a', 'a', 'q')"):
        n += 1
        try:
            r = ('ok', _P2().parse(expr).evaluate(XPathContext(root=None, item=1)))
        except ElementPathError as e:
            r = ('err', str(e.code).split(':')[-1])
        if r != ('err', 'FORX0001'):
            bad('XPath 2.0: q is not a regular expression flag (FORX0001)', expr=expr, got=repr(r)[:60])
    # the one-argument fn:tokenize splits on XML whitespace only
    for subj, want in (('a\x0cb', ['a\x0cb']), (' a  b\t', ['a', 'b']), ('a\x0bb c', ['a\x0bb', 'c']), ('a\u00a0b', ['a\u00a0b']), ('\r\na\n', ['a']), ('', [])):
        n += 1
        g = _xp('tokenize($s)', s=subj)
        got = g[1] if g[0] == 'ok' and isinstance(g[1], list) else [g[1]] if g[0] == 'ok' else g
        if got != want:
            bad('the one-argument tokenize does not split on XML whitespace only', subject=repr(subj), got=repr(got)[:60], want=want)
    for p in INVALID:
        n += 1
        try:
            translate_pattern(p)
            bad(f'an invalid pattern is accepted by translate_pattern: {p}', pattern=p)
        except RegexError:
            pass
        except Exception as e:       # noqa
            bad('translate_pattern raises a non-RegexError on an invalid pattern', pattern=p, exc=type(e).__name__)
        for fn in ("matches('a', $p)", "replace('a', $p, 'b')", "tokenize('a', $p)", "analyze-string('a', $p)"):
            g = _xp(fn, p=p)
            if g != ('err', 'FORX0002'):
                bad(f'{fn.split("(")[0]}: an invalid pattern does not raise FORX0002: {p}', pattern=p, got=repr(g)[:80])
    fails = [{'key': k, 'items': it[:4], 'count': len(it), 'what': f'{k}: e.g. {it[0]}'} for k, it in fam.items()]
    return {'evaluations': n, 'distinct': n, 'exhaustive': False,
            'scope': f'{len(CONS_PATTERNS)} patterns (groups that do not participate, back-references \\\\1..\\\\11 with 9 to 12 groups, anchors, classes) x '
            f'{len(CONS_FLAGS)} flag sets x {len(CONS_SUBJECTS)} subjects: matches against a Python reference, analyze-string parts concatenate to the input, tokenize '
            f"= non-match parts, replace '$0' = identity, matches <=> a match part; {len(INVALID)} invalid patterns raise RegexError / FORX0002 in all four functions",
            'failures': fails}


_REPLAY_CACHE = {}


def _replay_cons(f):
    if 'r' not in _REPLAY_CACHE:         # one re-run per process serves every recorded failure
        _REPLAY_CACHE['r'] = function_consistency('quick', 0)
    return all(x['key'] != f['key'] for x in _REPLAY_CACHE['r']['failures'])


BOUNDED = [Bounded('matches_replace_tokenize_analyze_string_consistency', function_consistency, _replay_cons)]
