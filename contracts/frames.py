"""Frame (modifies-clause) obligations shared by C05, C15, C16, C19, C20.

Each store statement of each function under the frame contract is one obligation; it is
discharged when pyvc.frame proves the target fresh or inside the function's modifies set.
Per-function adjustments are explicit and justified here (they are part of the trusted base and
are listed in the evidence).
"""
from __future__ import annotations

import inspect
from pyvc.extract import REPO_PKG as _REPO_PKG
import types

from pyvc.frame import check_frame
from pyvc.extract import unwrap, ExtractError
from .common import PARSERS

FOCUS = {'context.item', 'context.axis', 'context.position', 'context.size'}

# local names that hold a token class / constructor: calling them creates a new object
FRESH_CALLS = {
    'evaluate__function_reference': {'token_class'},
    'evaluate__function_lookup': {'cls'},
}
# stores that are safe for a stated reason the analysis cannot see (kept minimal)
JUSTIFIED = {
    'evaluate__format_number': [('prefix +=', 'prefix/suffix are str values: += rebinds the local name'),
                                ('suffix +=', 'prefix/suffix are str values: += rebinds the local name'),
                                ('fmt_tokens', 'fmt_tokens is the fresh list returned by str.split / re.split on a str')],
    'evaluate__value_comparison_operators': [('operands[k].tzinfo = context.timezone',
                                              'operands[k] was rebound to copy(operands[k]) by the statement before (the analysis does not track single list slots)')],
    'serialize_to_xml': [('cks[0] =', 'cks is the new list returned by ElementTree.tostringlist in this call')],
    'serialize_to_json': [('chunks[0] =', 'chunks is the new list returned by ElementTree.tostringlist in this call'),
                          ('self[None] = None', 'self is the MapEncodingDict under construction (__init__ of the local class)'),
                          ('self._items = items', 'self is the MapEncodingDict under construction (__init__ of the local class)')],
}


def token_methods(attrs=('evaluate', 'select', '__call__', 'cast', 'select_with_focus', 'select_results', 'nud', 'led')):
    """every function registered as one of `attrs` on a token class of the four parsers (live registry)"""
    seen, out = set(), []
    for ver, P in PARSERS.items():
        for sym, cls in P.symbol_table.items():
            for k in cls.__mro__:
                if not k.__module__.startswith('elementpath'):
                    continue
                for attr in attrs:
                    f = k.__dict__.get(attr)
                    if f is None:
                        continue
                    try:
                        g = unwrap(f)
                    except ExtractError:
                        continue
                    if id(g.__code__) in seen or not g.__code__.co_filename.startswith(_REPO_PKG):
                        continue
                    seen.add(id(g.__code__))
                    out.append(g)
    return out


def class_methods(cls, names=None, exclude=()):
    out = []
    for n, v in vars(cls).items():
        if names is not None and n not in names:
            continue
        if n in exclude:
            continue
        try:
            g = unwrap(v)
        except (ExtractError, Exception):
            continue
        if isinstance(g, types.FunctionType):
            out.append(g)
    return out


def frame_ground(check_id, functions, modifies_of, what, callee_effects=None, fresh_params_of=None):
    """Build a GROUND runner: one obligation per store statement."""
    def run(tier, seed):
        fails, n, nfun, recs, skipped = [], 0, 0, [], []
        for g in functions():
            name = g.__qualname__
            try:
                ext, stores = check_frame(g, modifies_of(g), callee_effects=callee_effects,
                                          fresh_params=(fresh_params_of(g) if fresh_params_of else ()),
                                          fresh_calls=FRESH_CALLS.get(g.__name__, ()))
            except ExtractError as e:
                skipped.append(f'{name}: {str(e)[:80]}')
                continue
            nfun += 1
            for st in stores:
                n += 1
                if st.allowed:
                    continue
                just = next((why for frag, why in JUSTIFIED.get(g.__name__, []) if frag in st.text), None)
                if just:
                    recs.append({'function': name, 'code': st.text[:80], 'justified': just})
                    continue
                fails.append({'key': f'{name}: {st.text[:70]}',
                              'what': f'{g.__module__}.{name} line {st.lineno}: `{st.text[:90]}` {st.why[:160]}',
                              'function': f'{g.__module__}.{name}'})
        return {'obligations': n, 'discharged': n - len(fails), 'evaluations': n, 'distinct': n, 'exhaustive': True,
                'count_each': True, 'functions_under_frame_contract': nfun, 'manually_justified_stores': recs, 'skipped': skipped,
                'scope': what, 'failures': fails}
    return run


def frame_replay(functions, modifies_of, callee_effects=None):
    """replay of a recorded frame failure: True if that store is no longer a violation"""
    def replay(f):
        for g in functions():
            if f'{g.__module__}.{g.__qualname__}' != f.get('function'):
                continue
            ext, stores = check_frame(g, modifies_of(g), callee_effects=callee_effects, fresh_calls=FRESH_CALLS.get(g.__name__, ()))
            return not any((not st.allowed) and f['key'] == f'{g.__qualname__}: {st.text[:70]}' for st in stores)
        return True
    return replay
