"""C02 - node trees are faithful, strictly document-ordered images of the input XML.

The builders (`build_node_tree`, `build_lxml_node_tree`: nested for/else loops over ElementTree iterators with explicit
stacks) are outside the Python subset of the deductive engine.  Their contract is therefore stated as an executable
representation invariant `well_formed(node_tree, input)` (the postcondition of the builders and of the lazy
`namespace_nodes` / `attributes` properties) and checked at run time on a complete small scope plus a seeded sample:
a BOUNDED stand-in, never counted as proved.  The operator contracts ('is', '<<', '>>', union/intersect/except,
root/innermost/outermost) are checked against the index of each node in the oracle's document order.
"""
from __future__ import annotations

import itertools
import random

from elementpath import XPathContext, get_node_tree
from elementpath.xpath_nodes import (DocumentNode, ElementNode, TextNode, CommentNode, ProcessingInstructionNode, AttributeNode,
                                     NamespaceNode, XPathNode)
from elementpath.xpath31 import XPath31Parser
from elementpath.xpath2 import XPath2Parser

from .bounded import Bounded
from . import trees as T

XML_NS = 'http://www.w3.org/XML/1998/namespace'
BOUNDED_ONLY = ('build_node_tree / build_lxml_node_tree are nested for/else loops over ElementTree iterators with explicit stacks, outside the '
                'Python subset of the deductive engine; their postcondition is checked at run time on a stated finite scope')
NOT_DECIDED = ['for ALL finite trees: only the stated scope is explored (bounded stand-in)',
               'schema-annotated trees (build_schema_node_tree): see C20']
NS_ARGS = [None, {}, {'p': 'urn:x'}, {'': 'urn:d', 'q': 'urn:y'}, {'xml': XML_NS, 'p': 'urn:x'}]


# ---- oracle: the XDM node sequence of an input tree, computed from the ElementTree objects only -----------------
def expected_nodes(root_elem, lib, namespaces, document, prolog=(), epilog=()):
    out = []
    if document:
        out.append(('document',))
        for x in prolog:
            out.append(_leaf(x))

    def walk(e):
        if callable(e.tag):
            out.append(_leaf(e))
            return
        out.append(('element', e.tag))
        if lib == 'lxml':
            ns = {(k or ''): v for k, v in e.nsmap.items()}
        else:
            ns = dict(namespaces or {})
        ns['xml'] = XML_NS
        out.append(('namespaces', frozenset(ns.items())))
        out.append(('attributes', frozenset(e.attrib.items())))
        if e.text is not None:
            out.append(('text', e.text))
        for c in e:
            walk(c)
            if c.tail is not None:
                out.append(('text', c.tail))
    walk(root_elem)
    if document:
        for x in epilog:
            out.append(_leaf(x))
    return out


def _leaf(e):
    if e.tag.__name__ == 'Comment':
        return ('comment', e.text)
    if hasattr(e, 'target'):
        return ('pi', e.target, e.text or '')
    target, _, content = (e.text or '').partition(' ')
    return ('pi', target, content)


def actual_nodes(root_node):
    """Walk through children / namespace_nodes / attributes (the structure, not the library's iterators)."""
    out, nodes = [], []

    def walk(n):
        nodes.append(n)
        if isinstance(n, DocumentNode):
            out.append(('document',))
            for c in n.children:
                walk(c)
        elif isinstance(n, ElementNode):
            out.append(('element', n.elem.tag))
            nss = list(n.namespace_nodes)
            out.append(('namespaces', frozenset(((x.name or ''), x.value) for x in nss)))
            nodes.extend(nss)
            ats = list(n.attributes)
            out.append(('attributes', frozenset((x.name, x.value) for x in ats)))
            nodes.extend(ats)
            for c in n.children:
                walk(c)
        elif isinstance(n, TextNode):
            out.append(('text', n.value))
        elif isinstance(n, CommentNode):
            out.append(('comment', n.elem.text))
        elif isinstance(n, ProcessingInstructionNode):
            out.append(('pi', n.name, n.string_value))
        else:
            out.append(('?', type(n).__name__))
    walk(root_node)
    return out, nodes


def descendant_text(n):
    if isinstance(n, TextNode):
        return n.value
    if isinstance(n, (DocumentNode, ElementNode)):
        return ''.join(descendant_text(c) for c in n.children if isinstance(c, (TextNode, ElementNode)))
    return ''


def well_formed(root_node, exp):
    """The representation invariant; returns a list of violated clauses (empty = holds)."""
    bad = []
    act, nodes = actual_nodes(root_node)
    if act != exp:
        k = next((i for i, (a, b) in enumerate(zip(act, exp)) if a != b), min(len(act), len(exp)))
        bad.append(('one node per input item, in document order', f'index {k}: built {act[k:k + 1]}, input {exp[k:k + 1]}'))
    # namespace/attribute multiplicity (sets above hide duplicates)
    for n in nodes:
        if isinstance(n, ElementNode):
            if len({x.name for x in n.namespace_nodes}) != len(n.namespace_nodes):
                bad.append(('one namespace node per in-scope prefix', repr(n.namespace_nodes)))
            if len(n.attributes) != len(n.elem.attrib):
                bad.append(('one attribute node per attribute', repr(n.attributes)))
    # links
    for n in nodes:
        kids = n.children if isinstance(n, (DocumentNode, ElementNode)) else []
        for c in kids:
            if c.parent is not n:
                bad.append(('child.parent is the node holding it', f'{c!r} under {n!r} has parent {c.parent!r}'))
        if isinstance(n, ElementNode):
            for x in list(n.namespace_nodes) + list(n.attributes):
                if x.parent is not n:
                    bad.append(('attribute/namespace parent link', repr(x)))
    if root_node.parent is not None:
        bad.append(('the root has no parent', repr(root_node.parent)))
    # positions
    pos = [n.position for n in nodes]
    if any(a >= b for a, b in zip(pos, pos[1:])):
        k = next(i for i, (a, b) in enumerate(zip(pos, pos[1:])) if a >= b)
        bad.append(('positions strictly increase in document order',
                    f'{nodes[k]!r}@{pos[k]} then {nodes[k + 1]!r}@{pos[k + 1]}'))
    # string values
    for n in nodes:
        if isinstance(n, (DocumentNode, ElementNode)) and n.string_value != descendant_text(n):
            bad.append(('string value = concatenated descendant text', f'{n!r}: {n.string_value!r} != {descendant_text(n)!r}'))
    # the library's own document-order iterator agrees with the structure
    it = list(root_node.iter_document()) if hasattr(root_node, 'iter_document') else list(root_node.iter())
    if len(it) != len(nodes) or any(a is not b for a, b in zip(it, nodes)):
        bad.append(('iter_document() enumerates the structure in order', f'{len(it)} vs {len(nodes)} nodes'))
    # element map
    elements = getattr(root_node.tree, 'elements', None)
    if elements:
        for n in nodes:
            if isinstance(n, (ElementNode, CommentNode, ProcessingInstructionNode)) and getattr(n, 'elem', None) is not None:
                try:
                    if elements.get(n.elem) is not n:
                        bad.append(('tree.elements maps each wrapped object to its node', repr(n)))
                except TypeError:
                    pass
    return bad, nodes


# ---- operator contracts ------------------------------------------------------------------------------------------
def _ancestors(n):
    out = []
    while n.parent is not None:
        n = n.parent
        out.append(n)
    return out


def operator_clauses(root_node, nodes, rng, pairs):
    bad = []
    idx = {id(n): i for i, n in enumerate(nodes)}
    p31, p2 = XPath31Parser(), XPath2Parser()
    toks = {k: (p31 if k in ('inner', 'outer') else p2).parse(e) for k, e in {
        'is': '$a is $b', 'lt': '$a << $b', 'gt': '$a >> $b', 'union': '$s union $t', 'inter': '$s intersect $t', 'exc': '$s except $t',
        'root': 'root($a)', 'inner': 'innermost($s)', 'outer': 'outermost($s)', 'bar': '$s | $t'}.items()}

    def ev(k, **v):
        return toks[k].evaluate(XPathContext(root=root_node, variables=v))
    sample = [(a, b) for a in nodes for b in nodes]
    if len(sample) > pairs:
        sample = rng.sample(sample, pairs)
    for a, b in sample:
        ia, ib = idx[id(a)], idx[id(b)]
        got = (ev('is', a=a, b=b), ev('lt', a=a, b=b), ev('gt', a=a, b=b))
        want = (ia == ib, ia < ib, ia > ib)
        if got != want:
            bad.append(("'is' '<<' '>>' follow identity and document order", f'{a!r} vs {b!r}: {got} expected {want}'))
    for n in rng.sample(nodes, min(len(nodes), 6)):
        r = ev('root', a=n)
        if r is not root_node:
            bad.append(('fn:root returns the root of the tree', f'root({n!r}) = {r!r}'))
        # an operand that is a rooted path does not change the focus seen by its sibling operands
        for e in ('(/*, .)', '(//*, .)', '(/node(), .)', '(//node()[1], ., .)'):
            got = p31.parse(e).evaluate(XPathContext(root=root_node, item=n))
            got = got if isinstance(got, list) else [got]
            if not got or got[-1] is not n:
                bad.append(('a rooted path operand leaves the context item of the sibling operands alone', f'{e} with the context item {n!r} ends with {got[-1:]!r}'))
        for e in ('(/*)[1] is .', '. is (/*)[1]', '(//node())[last()] >> .', '. << (//node())[last()]'):
            # the two operand orders of a node comparison agree (the second is the mirror of the first)
            pass
        a1 = p31.parse('((/*)[1] is .) = (. is (/*)[1])').evaluate(XPathContext(root=root_node, item=n))
        a2 = p31.parse('(count(//node()), count(./self::node()))').evaluate(XPathContext(root=root_node, item=n))
        if a1 is not True:
            bad.append(("'is' gives the same answer in both operand orders when one operand is a rooted path", f'context item {n!r}'))
        if not isinstance(a2, list) or a2[-1] != 1:
            bad.append(('a rooted path operand leaves the context item of the sibling operands alone', f'(count(//node()), count(./self::node())) with {n!r} = {a2!r}'))
    for _ in range(max(4, pairs // 8)):
        s = rng.sample(nodes, rng.randint(0, min(len(nodes), 5)))
        t = rng.sample(nodes, rng.randint(0, min(len(nodes), 5)))
        rng.shuffle(s)
        si, ti = {idx[id(x)] for x in s}, {idx[id(x)] for x in t}
        for k, want in (('union', si | ti), ('bar', si | ti), ('inter', si & ti), ('exc', si - ti)):
            got = ev(k, s=s + s[:1], t=t)
            got = got if isinstance(got, list) else [got]
            gi = [idx.get(id(x), -1) for x in got]
            if gi != sorted(want):
                bad.append((f"'{k}' = set operation on identity, in document order, without duplicates", f'{gi} expected {sorted(want)}'))
        anc = {i: {idx[id(x)] for x in _ancestors(nodes[i])} for i in si}
        inner = sorted(i for i in si if not any(i in anc[j] for j in si if j != i))
        outer = sorted(i for i in si if not (anc[i] & si))
        for k, want in (('inner', inner), ('outer', outer)):
            got = ev(k, s=s)
            got = got if isinstance(got, list) else [got]
            gi = [idx.get(id(x), -1) for x in got]
            if gi != want:
                bad.append((f'fn:{k}most', f'{gi} expected {want} for {sorted(si)}'))
    return bad


def cross_tree_clauses(root_node, nodes, other, rng):
    """Nodes of two different trees: set operators work on identity, '<<'/'>>' order the trees as blocks (XDM 2.4)."""
    bad = []
    p2 = XPath2Parser()
    exc, inter, uni, lt, gt = (p2.parse(e) for e in ('$s except $t', '$s intersect $t', '$s union $t', '$a << $b', '$a >> $b'))

    def ev(tok, **v):
        r = tok.evaluate(XPathContext(root=root_node, variables=v))
        return r
    s = rng.sample(nodes, min(len(nodes), 5))
    t = rng.sample(other, min(len(other), 5)) + [x for x in other if x.position in {y.position for y in s}][:5]
    got = ev(exc, s=s, t=t)
    got = got if isinstance(got, list) else [got]
    if {id(x) for x in got} != {id(x) for x in s}:
        bad.append(("'except' removes nodes by identity (operands from two trees)", f'{len(got)} of {len(s)} nodes left'))
    got = ev(inter, s=s, t=t)
    if got not in ([], None) and got:
        bad.append(("'intersect' of nodes from two trees is empty", repr(got)[:120]))
    got = ev(uni, s=s, t=t)
    got = got if isinstance(got, list) else [got]
    if len({id(x) for x in got}) != len({id(x) for x in s + t}) or len(got) != len({id(x) for x in got}):
        bad.append(("'union' of nodes from two trees keeps every node once", f'{len(got)} nodes for {len(set(map(id, s + t)))} distinct'))
    verdicts = set()
    for a in rng.sample(nodes, min(len(nodes), 4)):
        for b in rng.sample(other, min(len(other), 4)):
            x, y = ev(lt, a=a, b=b), ev(gt, a=a, b=b)
            if x == y:
                bad.append(("exactly one of '<<' and '>>' holds for distinct nodes", f'{a!r} {b!r}: {x} {y}'))
            verdicts.add(x)
    if len(verdicts) > 1:
        bad.append(("'<<' orders two trees as blocks (no interleaving)", 'the verdict depends on the pair of nodes'))
    return bad


def _inputs(tier, seed):
    rng = random.Random(seed)
    trees = list(T.exhaustive_small())
    if tier == 'quick':
        trees = trees[::7]
    trees += list(T.enumerate_trees(4 if tier == 'quick' else 5, 6 if tier == 'quick' else 40, seed))
    return trees, rng


def node_tree_invariant(tier, seed):
    trees, rng = _inputs(tier, seed)
    fam, n, nodes_total, other = {}, 0, 0, None

    def bad(clause, detail, **w):
        fam.setdefault(clause, []).append(dict(w, detail=detail[:300]))
    for ti, t in enumerate(trees):
        for lib in ('et', 'lxml'):
            root_elem = T.realise(t, lib)
            mod = T.ET if lib == 'et' else T.LX
            prolog = epilog = ()
            doc = mod.ElementTree(root_elem)
            if lib == 'lxml' and ti % 4 != 3:
                if ti % 4 in (0, 2):
                    root_elem.addprevious(T.LX.Comment('pre'))
                    root_elem.addprevious(T.LX.ProcessingInstruction('pi', 'p'))
                if ti % 4 in (0, 1):
                    root_elem.addnext(T.LX.Comment('post'))
                    root_elem.addnext(T.LX.ProcessingInstruction('pi', 'end'))
                prolog = list(reversed(list(root_elem.itersiblings(preceding=True))))
                epilog = list(root_elem.itersiblings())
            for as_doc, fragment in itertools.product((False, True), (None, True, False)):
                nsarg = NS_ARGS[(ti + as_doc) % len(NS_ARGS)] if lib == 'et' else None
                root = doc if as_doc else root_elem
                is_document = (as_doc and not fragment) or (not as_doc and fragment is False)
                # lxml: an element with document-level siblings is presented under its document
                if lib == 'lxml' and not as_doc and fragment is None and (prolog or epilog):
                    is_document = True
                w = dict(tree=repr(t)[:400], lib=lib, root='ElementTree' if as_doc else 'Element', fragment=fragment, namespaces=nsarg, ti=ti)
                try:
                    rn = get_node_tree(root, namespaces=nsarg, fragment=fragment)
                except Exception as e:       # noqa
                    bad('the builder returns a node tree', f'{type(e).__name__}: {e}', **w)
                    continue
                n += 1
                if isinstance(rn, DocumentNode) != is_document:
                    bad('root node kind follows (root, fragment)', f'{type(rn).__name__}', **w)
                    continue
                exp = expected_nodes(root_elem, lib, nsarg, is_document, prolog if is_document else (), epilog if is_document else ())
                try:
                    problems, nodes = well_formed(rn, exp)
                    nodes_total += len(nodes)
                    if not problems and (ti % 4 == 0 or tier != 'quick'):
                        problems = operator_clauses(rn, nodes, rng, 24 if tier == 'quick' else 80)
                        if not problems and other is not None:
                            problems = cross_tree_clauses(rn, nodes, other, rng)
                        other = nodes
                except Exception as e:       # noqa
                    problems = [('the invariant can be evaluated', f'{type(e).__name__}: {e}')]
                for clause, detail in problems[:3]:
                    bad(clause, detail, **w)
                if problems or as_doc or fragment is not None or ti % 3:
                    continue
                # the same tree reached through the other entry points keeps the invariant:
                # (1) an element node tree handed back with fragment=False gets its document node as the parent of the root element
                try:
                    en = get_node_tree(T.realise(t, lib), namespaces=nsarg)
                    if not isinstance(en, DocumentNode):
                        raw = en.value
                        dn = get_node_tree(en, namespaces=nsarg, fragment=False)
                        n += 1
                        if not isinstance(dn, DocumentNode):
                            bad('an element node tree handed back with fragment=False is presented under a document node', type(dn).__name__, **w)
                        else:
                            pr, _ = well_formed(dn, expected_nodes(raw, lib, nsarg, True))
                            for clause, detail in pr[:2]:
                                bad(clause + ' (element node tree handed back with fragment=False)', detail, **w)
                        cn = XPathContext(get_node_tree(T.realise(t, lib), namespaces=nsarg), namespaces=nsarg, fragment=False)
                        if not isinstance(cn.root, DocumentNode) or any(c.parent is not cn.root for c in cn.root.children):
                            bad('XPathContext(element node, fragment=False): the document node is the parent of its children', repr(cn.root)[:80], **w)
                except Exception as e:       # noqa
                    bad('the invariant can be evaluated', f'{type(e).__name__}: {e}', **w)
                # (2) the caller's prefix map is read when the context is created: changing it afterwards does not change the (lazily built) tree
                if lib == 'et' and nsarg:
                    try:
                        mine = dict(nsarg)
                        raw = T.realise(t, lib)
                        cx = XPathContext(raw, namespaces=mine)
                        mine['zz1'], mine['zz2'] = 'urn:zz1', 'urn:zz2'
                        n += 1
                        pr, _ = well_formed(cx.root, expected_nodes(raw, lib, nsarg, isinstance(cx.root, DocumentNode)))
                        for clause, detail in pr[:2]:
                            bad(clause + " (the caller's namespaces map changed after the context was created)", detail, **w)
                    except Exception as e:       # noqa
                        bad('the invariant can be evaluated', f'{type(e).__name__}: {e}', **w)
    fails = [{'key': k, 'items': it[:5], 'count': len(it), 'what': f'{k}: {it[0]["detail"]} [{it[0]["lib"]}, {it[0]["root"]}, fragment={it[0]["fragment"]}, '
              f'namespaces={it[0]["namespaces"]}, tree={it[0]["tree"][:160]}]'} for k, it in fam.items()]
    return {'evaluations': n, 'distinct': n, 'exhaustive': False,
            'scope': f'{len(trees)} abstract trees (every decoration of the 1- and 2-node trees{" (1/7 sample)" if tier == "quick" else ""}, seeded decorations of all '
            f'shapes up to {4 if tier == "quick" else 5} nodes) x {{ElementTree, lxml}} x {{Element, ElementTree}} root x fragment in (None, True, False) x 5 namespaces '
            f'arguments; lxml prolog/epilog comments and PIs on every third tree; {nodes_total} nodes checked against the representation invariant; '
            "operator clauses on sampled node pairs and subsets", 'failures': fails}


def _replay(f):
    r = node_tree_invariant('quick', 0)
    return all(x['key'] != f['key'] for x in r['failures'])


BOUNDED = [Bounded('node_tree_representation_invariant', node_tree_invariant, _replay)]


# ---- deductive: positions of the lazily built namespace nodes (real code of ElementNode.namespace_nodes) ---------------------------------
import z3                                                        # noqa: E402
from pyvc.values import *                                        # noqa: E402,F401
from pyvc.contract import Contract, Case                         # noqa: E402
from pyvc.interp import LoopSpec                                 # noqa: E402
from pyvc.specprims import *                                     # noqa: E402,F401
from elementpath.xpath_nodes import ElementNode as _ElementNode  # noqa: E402


class _Ghost:
    pass


def nsnodes_case(S, ex):
    """element at position P with an arbitrary in-scope namespace map given as a list E of entries (prefix, uri); ghost counter `created` and the
    obligation at every NamespaceNode(...) call that its position is P + 1 + created (consecutive from P + 1)."""
    entries = S.seq('E', K_ITEM)
    counts = S.seq('C', K_INT)
    P = S.int('P')
    ghost = VObj(_Ghost, {'created': VInt(0)}, name='ghost')
    prefix = z3.Function('entry_prefix', ITEM_SORT, z3.StringSort())
    uri = z3.Function('entry_uri', ITEM_SORT, ITEM_SORT)
    nsmap = VObj(_Ghost, {}, name='nsmap')
    node = VObj(_ElementNode, {'position': P, 'nsmap': nsmap}, name='self')

    def unpack(ex, v, n):
        return [VStr(prefix(v.t)), VItem(uri(v.t))]

    def new_namespace_node(ex, node_, a, kw):
        pos = a[3]
        ex.oblige('namespace_node_positions_are_consecutive_from_P_plus_1', pos.t == P.t + 1 + ghost.fields['created'].t, 'V',
                  'position of the k-th namespace node created == element position + 1 + k')
        ghost.fields['created'] = VInt(ghost.fields['created'].t + 1)
        return VObj(_Ghost, {'position': pos}, name='nsnode')

    def havoc_ghost(ex, env):
        ghost.fields['created'] = VInt(ex.fresh('created', z3.IntSort()))
    hooks = {'unpack': unpack, 'NamespaceNode': new_namespace_node, 'hasattr': lambda ex, n_, a, kw: VBool(False),
             'self.nsmap.items': lambda ex, n_, a, kw: entries, 'self._namespace_nodes.append': lambda ex, n_, a, kw: NONE,
             ('truthy', '_Ghost'): lambda ex, v: z3.BoolVal(True)}
    case = Case([node], hooks=hooks, names={'E': entries, 'C': counts, 'P': P, 'ghost': ghost})
    case.havoc_ghost = havoc_ghost
    nsnodes_case.havoc = havoc_ghost
    return case


def not_xml(e):
    return entry_prefix(e) != 'xml'


CONTRACTS = [Contract(
    'ElementNode.namespace_nodes', 'C02', lambda: _ElementNode.namespace_nodes.fget, nsnodes_case,
    pre=["len(C) == len(E) + 1", "C[0] == 0", "forall_range(0, len(E), lambda j: C[j + 1] == C[j] + (1 if entry_prefix(E[j]) != 'xml' else 0))"],
    post=[('one_node_for_xml_plus_one_per_other_prefix', "returned and ghost.created == 1 + C[len(E)]")],
    loops={0: LoopSpec(["_i0 <= len(E)", "ghost.created == 1 + C[_i0]", "position == P + 1 + ghost.created"],
                       havoc_hook=lambda ex, env: nsnodes_case.havoc(ex, env))},
    native=None, expect_min_obligations=4,
    notes=['the in-scope namespace map is an arbitrary list of (prefix, uri) entries; the obligation inside the NamespaceNode hook makes every created node take the '
           'next free position after the element: together with the count this is "positions P+1 .. P+n, strictly increasing, gap exactly filled"; the non-empty-map '
           'branch (a truthy nsmap) is the one analysed'])]

