"""C05 - evaluation is pure and repeatable; variable bindings are lexically scoped.

Deductive part (frame contracts): every evaluate / select / __call__ / cast method registered in
the symbol tables of the four parsers, and the helper methods of XPathToken / XPathContext they
call, may write only the focus fields of the dynamic context (item, axis, position, size) - not
token fields, not the caller's variable map or its values, not namespaces, root or schema.
Binding constructs (for / let / some / every, inline function calls) must write bindings only into
a variable map that is fresh in the call (context.variables = context.variables.copy() dominates).
One obligation per store statement, discharged by pyvc.frame (abstract interpretation).
"""
from __future__ import annotations

from .common import *  # noqa
from .bounded import Bounded
from .frames import FOCUS, token_methods, class_methods, frame_ground, frame_replay
from elementpath.xpath_tokens.base import XPathToken
from elementpath.xpath_context import XPathContext
from elementpath import xpath_selectors

# helper methods of XPathToken used during evaluation (parse-time helpers such as bind_namespace are not
# part of the property)
EVAL_HELPERS = {'get_argument', 'get_atomized_operand', 'iter_comparison_data', 'get_operands', 'get_absolute_uri',
                'select_data_values', 'atomization', 'get_results', 'select_results', 'adjust_datetime', 'boolean_value',
                'data_value', 'string_value', 'number_value', 'get_function', 'validated_value', 'cast_to_qname',
                'cast_to_double', 'cast_to_primitive_type', 'select_with_focus', 'select_flatten', 'select', 'evaluate',
                'schema_node_value', 'get_argument_tokens', 'is_reference', 'select_xsd_nodes', 'add_xsd_type',
                'get_xsd_type', 'get_typed_node', 'iter_flatten', 'validated_argument', 'validated_result'}
CONTEXT_SELF = {'self.item', 'self.axis', 'self.position', 'self.size'}


def c05_functions():
    fs = token_methods(('evaluate', 'select', '__call__', 'cast', 'select_with_focus', 'select_results'))
    fs += class_methods(XPathToken, names=EVAL_HELPERS)
    fs += class_methods(XPathContext, exclude={'__init__', 'schema', 'get_root', '__copy__'})
    fs += [f for f in vars(xpath_selectors).values() if callable(f) and getattr(f, '__module__', '') == xpath_selectors.__name__
           and hasattr(f, '__code__')]
    # module-level helpers that evaluation hands caller-owned objects (elements, maps, items) to
    from elementpath import serialization, compare, etree
    for mod in (serialization, compare, etree):
        fs += [f for f in vars(mod).values() if callable(f) and getattr(f, '__module__', '') == mod.__name__ and hasattr(f, '__code__')]
    seen, out = set(), []
    for f in fs:
        if id(f.__code__) not in seen:
            seen.add(id(f.__code__))
            out.append(f)
    return out


def c05_modifies(g):
    if g.__qualname__.startswith('XPathContext.'):
        # the context's own iterators move the focus; iter_product binds variables in the receiver's
        # map, which every caller must have made fresh (checked at the call sites through callee_effects)
        return CONTEXT_SELF | ({'self.variables[]'} if g.__name__ == 'iter_product' else set())
    return FOCUS


CALLEE_EFFECTS = {'iter_product': [('recv', 'variables.[]')]}

GROUND = [Bounded('frame_token_and_context_methods', frame_ground(
    'frame_token_and_context_methods', c05_functions, c05_modifies,
    'every store statement of every evaluate/select/__call__/cast method of the four symbol tables, of the evaluation '
    'helpers of XPathToken, of XPathContext methods and of xpath_selectors: target fresh or in the modifies set '
    '(the focus fields of the dynamic context only)', callee_effects=CALLEE_EFFECTS),
    frame_replay(c05_functions, c05_modifies, CALLEE_EFFECTS))]
CONTRACTS = []
NOT_DECIDED = ['mutation inside ElementTree / lxml C code (no mutating method of the tree API is called: see the mutator table)',
               'determinism of callees (used by the repeatability argument)']


# ---- bounded stand-in: observable purity and scoping on a set of expressions -------------------------

def bounded_purity(tier, seed):
    import copy
    from xml.etree import ElementTree as ET
    from elementpath import Selector, select, iter_select, XPath2Parser
    from elementpath.datatypes import DateTime, Timezone
    docs = ['<a><b x="1">t<c/>u</b><b x="2"/><!--k--></a>', '<r xmlns:p="urn:p"><p:e>1</p:e><e>2</e></r>']
    exprs = ['//b', '/a/b[@x="2"]', 'count(//*)', '//b/@x', 'for $i in (1,2) return $i * $v', 'some $i in (1,2) satisfies $i = $v',
             'let $x := 1 return ($x, $v)', '(function($v){$v + 1}(5), $v)', 'string-join(for $b in //b return string($b/@x), ",")',
             '$d + xs:dayTimeDuration("PT1H")', '$d lt $d2', 'map:put($m, "k", 2)?k', 'array:append($arr, 9)?*', '$arr?*', '$m?k',
             'every $i in (1, 2), $j in (3, 4) satisfies $i lt $j', '//e | //p:e', 'reverse(//b)/@x', '$v',
             'serialize(/a/b[1])', 'serialize(/a/b[1], map{"standalone": true()})', 'serialize(/a/b[1], map{"method": "json"})', 'string(/a/b[1])', 'data(/a/b[1])',
             'let $f := function($a, $b) { $a - $b }, $g := $f(1, ?), $h := $f(?, 10) return ($g(5), $h(5), $f(3, 1))',
             'let $m2 := map:merge(($m, map{"k": 5}), map{"duplicates": "combine"}) return ($m?k, $m2?k)', 'array:sort($arr)?*', 'map:remove($m, "k")?k']
    fails, n, seen = [], 0, set()
    for di, doc in enumerate(docs):
        for expr in exprs:
            root = ET.XML(doc)
            before = ET.tostring(root)
            variables = {'v': 1, 'd': DateTime.fromstring('2000-01-01T12:00:00'), 'd2': DateTime.fromstring('2000-01-01T13:00:00Z'),
                         'm': None, 'arr': None}
            P = PARSERS['3.1']
            ns = {'p': 'urn:p'}
            try:
                variables['m'] = select(root, 'map{"k": 1}', parser=P)
                variables['arr'] = select(root, '[1, 2]', parser=P)
                snapshot = {k: (str(v), getattr(v, 'tzinfo', None)) for k, v in variables.items()}
                sel = Selector(expr, namespaces=ns, parser=P, variables=variables, timezone=Timezone.fromstring('+02:00'))
                r1 = sel.select(root)
                r2 = list(sel.iter_select(root))
                other = ET.XML(docs[1 - di])
                sel.select(other)
                r3 = sel.select(root)
                fresh = Selector(expr, namespaces=ns, parser=P, variables=variables, timezone=Timezone.fromstring('+02:00')).select(root)
            except Exception as e:
                continue
            n += 1
            seen.add((di, expr))

            def norm(r):
                return [ET.tostring(x) if hasattr(x, 'tag') else repr(x) for x in (r if isinstance(r, list) else [r])]
            if norm(r1) != norm(r2):
                fails.append({'key': f'select/iter_select {expr}', 'what': f'select != iter_select for `{expr}`: {norm(r1)} vs {norm(r2)}'})
            if norm(r1) != norm(r3) or norm(r1) != norm(fresh):
                fails.append({'key': f'repeat {expr}', 'what': f'`{expr}`: a re-used Selector gives {norm(r3)} after another document, '
                                                               f'first {norm(r1)}, fresh {norm(fresh)}'})
            if ET.tostring(root) != before:
                fails.append({'key': f'tree {expr}', 'what': f'`{expr}` modified the input tree'})
            after = {k: (str(v), getattr(v, 'tzinfo', None)) for k, v in variables.items()}
            if after != snapshot:
                fails.append({'key': f'variables {expr}', 'what': f'`{expr}` changed the variable values of the caller: {snapshot} -> {after}'})
    scoping = [('let $x := 1 return (function($x){$x}(2), $x)', [2, 1]), ('(for $x in (1,2) return $x, 0)', [1, 2, 0]),
               ('for $x in (1,2) return (for $x in (3) return $x, $x)', [3, 1, 3, 2]),
               ('let $x := 1 return ((some $x in (5) satisfies $x = 5), $x)', [True, 1]),
               ('let $x := 1 return (let $x := 2 return $x, $x)', [2, 1])]
    for expr, want in scoping:
        n += 1
        seen.add(('scope', expr))
        got = run_native(lambda: select(None, expr, parser=PARSERS['3.1'], item=1))
        if got != ('return', want):
            fails.append({'key': f'scope {expr}', 'what': f'`{expr}` = {got!r}, lexical scoping gives {want!r}'})
    # a later binding of the same name (a new scope) changes neither what an existing function item sees nor the caller's variable map
    for expr, want in (('let $x := 1, $f := function() { $x }, $x := 2 return ($f(), $x)', [1, 2]), ('let $f := function($y) { $x + $y }, $x := 100 return ($f(1), $x)', [2, 100]),
                       ('let $f := function($y) { $x * $y }, $x := 100 return (for $k in (1, 2, 3) return $f($k))', [1, 2, 3]),
                       ('for $x in (5, 6) return (let $g := function() { $x } return (for $x in (7) return $g()))', [5, 6]),
                       ('(let $x := 9 return $x, $x)', [9, 1]), ('(for $x in (8, 9) return $x, $x)', [8, 9, 1]), ('((some $x in (3) satisfies $x = 3), $x)', [True, 1]),
                       ('(function($x) { $x }(4), $x)', [4, 1]), ('let $x := $x + 1, $x := $x + 1 return $x', 3)):
        for version in ('3.0', '3.1'):
            n += 1
            seen.add(('outer variable', expr))
            caller = {'x': 1}
            got = run_native(lambda: select(None, expr, parser=PARSERS[version], item=1, variables=caller))
            if got != ('return', want) or caller != {'x': 1}:
                fails.append({'key': f'outer variable {expr}', 'what': f'XPath {version}: `{expr}` with $x := 1 from the caller = {got!r} (lexical scoping: {want!r}); the '
                              f"caller's variable map afterwards: {caller!r}"})
    # the four entry points build the same initial focus from their arguments
    root = ET.XML(docs[0])
    for expr, want in (('position()', [2]), ('last()', [5]), ('(position(), last())', [2, 5])):
        outs = {}
        for name, fn_ in (('select', lambda: select(root, expr, item=root, position=2, size=5, parser=PARSERS['3.1'])),
                          ('iter_select', lambda: list(iter_select(root, expr, item=root, position=2, size=5, parser=PARSERS['3.1']))),
                          ('Selector.select', lambda: Selector(expr, parser=PARSERS['3.1']).select(root, item=root, position=2, size=5)),
                          ('Selector.iter_select', lambda: list(Selector(expr, parser=PARSERS['3.1']).iter_select(root, item=root, position=2, size=5)))):
            n += 1
            seen.add(('focus', name, expr))
            got = run_native(fn_)
            g = got[1] if got[0] == 'return' else got
            g = g if isinstance(g, list) else [g]
            if g != want:
                fails.append({'key': f'focus {name} {expr}', 'what': f'{name}(root, {expr!r}, position=2, size=5) = {got!r}, expected {want}'})
    return {'evaluations': n, 'distinct': len(seen), 'failures': fails, 'n_failures': len(fails),
            'scope': f'{len(exprs)} expressions x {len(docs)} documents: select == iter_select, re-used Selector across documents == '
                     'fresh Selector, input tree bytes unchanged, caller variable values (incl. xs:dateTime tzinfo, maps, arrays) '
                     'unchanged; 5 scoping programs', 'rule': 'distinct = (document, expression)'}


BOUNDED = [Bounded('purity_and_scoping_programs', bounded_purity)]
