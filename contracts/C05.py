"""C05 - evaluation is pure and repeatable; variable bindings are lexically scoped.

Deductive part (frame contracts): every evaluate / select / __call__ / cast method registered in
the symbol tables of the four parsers, and the helper methods of XPathToken / XPathContext they
call, may write only the focus fields of the dynamic context (item, axis, position, size) - not
token fields, not the caller's variable map or its values, not namespaces, root or schema.
Binding constructs (for / let / some / every, inline function calls) must write bindings only into
a variable map that is fresh in the call (context.variables = context.variables.copy() dominates).
One obligation per store statement, discharged by pyvc.frame (abstract interpretation).
"""
from __future__ import annotations

from .common import *  # noqa
from .bounded import Bounded
from .frames import FOCUS, token_methods, class_methods, frame_ground, frame_replay
from elementpath.xpath_tokens.base import XPathToken
from elementpath.xpath_context import XPathContext
from elementpath import xpath_selectors

# helper methods of XPathToken used during evaluation (parse-time helpers such as bind_namespace are not
# part of the property)
EVAL_HELPERS = {'get_argument', 'get_atomized_operand', 'iter_comparison_data', 'get_operands', 'get_absolute_uri',
                'select_data_values', 'atomization', 'get_results', 'select_results', 'adjust_datetime', 'boolean_value',
                'data_value', 'string_value', 'number_value', 'get_function', 'validated_value', 'cast_to_qname',
                'cast_to_double', 'cast_to_primitive_type', 'select_with_focus', 'select_flatten', 'select', 'evaluate',
                'schema_node_value', 'get_argument_tokens', 'is_reference', 'select_xsd_nodes', 'add_xsd_type',
                'get_xsd_type', 'get_typed_node', 'iter_flatten', 'validated_argument', 'validated_result'}
CONTEXT_SELF = {'self.item', 'self.axis', 'self.position', 'self.size'}


def c05_functions():
    fs = token_methods(('evaluate', 'select', '__call__', 'cast', 'select_with_focus', 'select_results'))
    fs += class_methods(XPathToken, names=EVAL_HELPERS)
    fs += class_methods(XPathContext, exclude={'__init__', 'schema', 'get_root', '__copy__'})
    fs += [f for f in vars(xpath_selectors).values() if callable(f) and getattr(f, '__module__', '') == xpath_selectors.__name__
           and hasattr(f, '__code__')]
    seen, out = set(), []
    for f in fs:
        if id(f.__code__) not in seen:
            seen.add(id(f.__code__))
            out.append(f)
    return out


def c05_modifies(g):
    if g.__qualname__.startswith('XPathContext.'):
        # the context's own iterators move the focus; iter_product binds variables in the receiver's
        # map, which every caller must have made fresh (checked at the call sites through callee_effects)
        return CONTEXT_SELF | ({'self.variables[]'} if g.__name__ == 'iter_product' else set())
    return FOCUS


CALLEE_EFFECTS = {'iter_product': [('recv', 'variables.[]')]}

GROUND = [Bounded('frame_token_and_context_methods', frame_ground(
    'frame_token_and_context_methods', c05_functions, c05_modifies,
    'every store statement of every evaluate/select/__call__/cast method of the four symbol tables, of the evaluation '
    'helpers of XPathToken, of XPathContext methods and of xpath_selectors: target fresh or in the modifies set '
    '(the focus fields of the dynamic context only)', callee_effects=CALLEE_EFFECTS),
    frame_replay(c05_functions, c05_modifies, CALLEE_EFFECTS))]
CONTRACTS = []
NOT_DECIDED = ['mutation inside ElementTree / lxml C code (no mutating method of the tree API is called: see the mutator table)',
               'determinism of callees (used by the repeatability argument)']
