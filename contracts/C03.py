"""C03 - parse and evaluate fail only with ElementPathError; parsers stay reusable.

Deductive:
 * `Parser.parse` (real code, extracted): on EVERY exit - normal return, or any exception raised by the tokenizer, by
   `advance`, `expression` or `expected` (callees havocked: they may overwrite token/next_token/next_match arbitrarily and
   either return or raise) - the parser fields are reset: next_match is None, token is next_token is _start_token,
   tokens is a fresh empty iterator.  (try/finally semantics of the symbolic executor.)
Finite, completely enumerated (GROUND):
 * parse-time state discipline: every store into a parser attribute made by any function of the package outside
   `__init__` either targets one of the four reset fields / `source` / lazily built tables, or sits in a `try` whose
   `finally` restores the same attribute.  With the contract above this gives: state after a failed parse = state of a
   fresh instance, as far as parsing reads it.
Bounded stand-in (never counted as proved): escape sets. Token strings over a per-version alphabet, grammar-derived and
mutated expressions, parsed and evaluated on small documents/contexts: only ElementPathError may escape; after every
failing parse the same instance parses the next expression exactly as a fresh instance does.
"""
from __future__ import annotations

import ast
import inspect
import itertools
import random
import sys

import z3

from pyvc.values import *  # noqa
from pyvc.contract import Contract, Case
from pyvc.specprims import *  # noqa
from pyvc.interp import PyRaise
from .common import *  # noqa
from .bounded import Bounded
from elementpath.tdop import Parser
from elementpath.exceptions import ElementPathError
import elementpath


class _Tok:       # stand-in class of havocked token objects
    pass


class _Iter:
    pass


def parse_case(S, ex):
    start = VObj(_Tok, {}, name='_start_token')
    parser = VObj(Parser, {'tokenizer': VObj(_Tok, {}, name='tokenizer'), '_start_token': start, 'symbol_table': VObj(_Tok, {}, name='symbol_table'),
                           'token': start, 'next_token': start, 'next_match': NONE, 'tokens': VObj(_Iter, {'empty': VBool(True)}, name='it0'),
                           'source': VStr('')}, name='self')
    source = S.str('source')
    n = {'k': 0}

    def may_raise(ex, what):
        # the callee either returns or raises an arbitrary exception (three representative classes of the lattice:
        # a library error, a built-in error that is not a library error, a non-Exception BaseException)
        d = ex.choose(4, what)
        if d == 1:
            ex.raise_py(ElementPathError)
        if d == 2:
            ex.raise_py(AttributeError)
        if d == 3:
            ex.raise_py(KeyboardInterrupt)

    def scramble():
        n['k'] += 1
        parser.fields['token'] = VObj(_Tok, {}, name=f'token{n["k"]}')
        parser.fields['next_token'] = VObj(_Tok, {}, name=f'next{n["k"]}')
        parser.fields['next_match'] = VObj(_Tok, {}, name=f'match{n["k"]}')

    def finditer(ex, node, a, kw):
        d = ex.choose(2, 'finditer')
        if d == 1:
            ex.raise_py(TypeError)
        return VObj(_Iter, {'empty': VBool(False)}, name='matches')

    def iter_(ex, node, a, kw):
        if not a or (isinstance(a[0], VTuple) and not a[0].items):
            return VObj(_Iter, {'empty': VBool(True)}, name='fresh-empty-iterator')
        return a[0]

    def advance(ex, node, a, kw):
        scramble()
        may_raise(ex, 'advance')
        return parser.fields['token']

    def expression(ex, node, a, kw):
        scramble()
        may_raise(ex, 'expression')
        return VObj(_Tok, {}, name='root_token')

    def expected(ex, node, a, kw):
        may_raise(ex, 'expected')
        return NONE

    def invalid(ex, node, a, kw):
        return VObj(_Tok, {}, name='invalid-token')

    def wrong_syntax(ex, node, a, kw):
        return VExc(ElementPathError, 'XPST0003')
    hooks = {'self.tokenizer.finditer': finditer, 'iter': iter_, 'self.advance': advance, 'self.expression': expression,
             'self.next_token.expected': expected, "self.symbol_table['(invalid)']": invalid, 'token.wrong_syntax': wrong_syntax}
    return Case([parser, source], hooks=hooks, names={'parser': parser})


RESET = ("parser.next_match is None and parser.token is parser._start_token and parser.next_token is parser._start_token "
         "and parser.tokens.empty")
CONTRACTS = [Contract(
    'Parser.parse', 'C03', lambda: Parser.parse, parse_case,
    post=[('fields_reset_on_normal_return', f"(not returned) or ({RESET})"),
          ('fields_reset_on_every_exception', f"returned or ({RESET})"),
          ('source_recorded_before_tokens_are_consumed', "(not returned) or parser.source == source")],
    native=None, expect_min_obligations=3,
    notes=['callees (tokenizer.finditer, advance, expression, expected) are havocked: arbitrary writes to token/next_token/next_match, '
           'return or raise of ElementPathError / AttributeError / KeyboardInterrupt (representatives of the three strata of the exception lattice)'])]


# ---- GROUND: parse-time state discipline ----------------------------------------------------------------------------
PARSER_RESET_FIELDS = {'tokens', 'next_match', 'token', 'next_token'}
# written during a parse without being reset, and why that is harmless for the next parse
PARSER_BENIGN = {'source': 'assigned at the start of every parse before it is read',
                 'tokenizer': 'lazily built table, a function of the (class-level) symbol table only',
                 'symbol_table': 'copy-on-write of the class table when a schema/constructor is registered (configuration, not parse state)',
                 'function_signatures': 'same copy-on-write as symbol_table',
                 'schema': 'configuration set through the schema property', }


def _functions_of_package():
    import importlib
    import pkgutil
    seen = set()
    for m in pkgutil.walk_packages(elementpath.__path__, 'elementpath.'):
        if 'validators' in m.name:
            continue
        try:
            mod = importlib.import_module(m.name)
        except Exception:      # noqa - optional modules
            continue
        for name, obj in vars(mod).items():
            objs = [obj]
            if inspect.isclass(obj) and obj.__module__ == mod.__name__:
                objs = [v for v in vars(obj).values()]
            for o in objs:
                o = getattr(o, '__func__', o)
                o = getattr(o, 'fget', o) if isinstance(o, property) else o
                if inspect.isfunction(o) and o.__module__ == mod.__name__ and id(o) not in seen:
                    seen.add(id(o))
                    yield mod, o


def _parser_classes():
    return tuple(PARSERS.values()) + (Parser,)


def parser_state_discipline(tier, seed):
    from pyvc.extract import extract
    fails, n, stores = [], 0, []
    parser_method_names = set()
    for cls in _parser_classes():
        for k in cls.__mro__:
            if issubclass(k, Parser):
                parser_method_names.update(id(getattr(v, '__func__', v)) for v in vars(k).values())
    for mod, fn in _functions_of_package():
        try:
            src = inspect.getsource(fn)
            tree = ast.parse(__import__('textwrap').dedent(src))
        except (OSError, TypeError, SyntaxError, IndentationError):
            continue
        is_parser_method = id(fn) in parser_method_names
        if fn.__name__ in ('__init__', '__setstate__', '__new__'):
            continue
        parents = {}
        for node in ast.walk(tree):
            for ch in ast.iter_child_nodes(node):
                parents[ch] = node
        for node in ast.walk(tree):
            targets = []
            if isinstance(node, ast.Assign):
                targets = node.targets
            elif isinstance(node, (ast.AugAssign, ast.AnnAssign)):
                targets = [node.target]
            for t in targets:
                for sub in ast.walk(t):
                    attr = None
                    if isinstance(sub, ast.Attribute) and isinstance(sub.ctx, ast.Store):
                        base = ast.unparse(sub.value)
                        if base in ('self.parser', 'parser', 'self[0].parser', 'token.parser'):
                            attr = sub.attr
                        elif base == 'self' and is_parser_method:
                            attr = sub.attr
                    if attr is None:
                        continue
                    n += 1
                    where = f'{mod.__name__}.{fn.__qualname__}:{fn.__code__.co_firstlineno + node.lineno - 1}'
                    stores.append(f'{where} {attr}')
                    if attr in PARSER_RESET_FIELDS or attr in PARSER_BENIGN:
                        continue
                    if fn.__name__ in ('parse',) and is_parser_method and False:
                        continue
                    # must be restored by an enclosing or directly following try/finally on the same attribute
                    ok = False
                    p = node
                    while p in parents:
                        p = parents[p]
                        if isinstance(p, ast.Try) and p.finalbody and any(
                                isinstance(x, ast.Attribute) and isinstance(x.ctx, ast.Store) and x.attr == attr
                                for st in p.finalbody for x in ast.walk(st)):
                            ok = True
                            break
                    if not ok:
                        # pattern: X = v; try: ... finally: X = w   (the store directly precedes the protecting try)
                        par = parents.get(node)
                        body = getattr(par, 'body', None)
                        for blk in (getattr(par, 'body', []), getattr(par, 'orelse', []), getattr(par, 'finalbody', [])):
                            if node in blk:
                                i = blk.index(node)
                                nxt = blk[i + 1] if i + 1 < len(blk) else None
                                if isinstance(nxt, ast.Try) and nxt.finalbody and any(
                                        isinstance(x, ast.Attribute) and isinstance(x.ctx, ast.Store) and x.attr == attr
                                        for st in nxt.finalbody for x in ast.walk(st)):
                                    ok = True
                                # a store inside a finally block is the restoring store itself
                        q = node
                        while q in parents and not ok:
                            pq = parents[q]
                            if isinstance(pq, ast.Try) and q in pq.finalbody:
                                ok = True
                            q = pq
                    if not ok:
                        fails.append({'key': f'parser.{attr} written outside the reset set without a restoring finally in {mod.__name__}.{fn.__qualname__}',
                                      'where': where, 'attr': attr,
                                      'what': f'{where}: store to parser.{attr} is not undone when the parse fails (no try/finally restores it)'})
    return {'obligations': n, 'discharged': n - len(fails), 'evaluations': n, 'distinct': n, 'exhaustive': True, 'count_each': True,
            'scope': f'every store into a parser attribute in every function of the package outside __init__ ({n} stores): reset field, benign table '
            f'({", ".join(PARSER_BENIGN)}) or restored by try/finally', 'stores': stores[:80], 'failures': fails}


def _replay_state(f):
    r = parser_state_discipline('quick', 0)
    return all(x['key'] != f['key'] for x in r['failures'])


GROUND = [Bounded('parser_state_discipline', parser_state_discipline, _replay_state)]


# ---- BOUNDED: escape sets and reuse -----------------------------------------------------------------------------------
ALPHABET = {
    '1.0': ['a', 'b', '*', '/', '//', '.', '..', '@', '[', ']', '(', ')', ',', '|', '+', '-', 'div', 'mod', 'and', 'or', '=', '!=', '<', '>=',
            '1', '2.5', "'s'", '$v', 'text()', 'node()', 'count(', 'string(', 'position()', 'last()', 'child::', 'ancestor::', 'x:a', ':', '::', 'sum('],
}
ALPHABET['2.0'] = ALPHABET['1.0'] + ['if', 'then', 'else', 'for', 'in', 'return', 'some', 'every', 'satisfies', 'to', 'idiv', 'eq', 'lt', 'is', '<<',
                                      'union', 'intersect', 'except', 'instance', 'of', 'treat', 'as', 'cast', 'castable', 'xs:integer', 'xs:date(',
                                      '1e3', '?', 'element(', 'xs:QName(', '(:', ':)', 'Q{', '}', 'empty-sequence()', 'item()', 'compare(', 'xs:decimal(']
ALPHABET['3.0'] = ALPHABET['2.0'] + ['let', ':=', '||', '!', '#', 'function', '{', 'abs#1', 'Q{u}a', 'math:pi()', 'fold-left(', 'concat#3']
ALPHABET['3.1'] = ALPHABET['3.0'] + ['=>', 'map', 'array', '[1, 2]', 'map{1: 2}', '?*', '?1', 'sort(', 'array:get(', 'map:get(']

SEED_EXPRS = [
    "1 + 2", "/a/b[1]", "//b[@k='v']", "count(//*)", "sum((1, 2, 'a'))", "1 div 0", "1 idiv 0", "xs:integer('a')", "$v + 1", "$undefined",
    "(1, 2) eq 1", "'a' + 1", "xs:date('2000-01-01') - xs:date('1999-01-01')", "for $x in (1, 2) return $x * 2", "some $x in //b satisfies $x",
    "if (1) then 2 else 3", "1 to 3", "(1 to 3)[2]", "string-join(('a', 'b'), '-')", "substring('abc', 2)", "compare('a', 'b')", "compare('a', 'b', 1)",
    "Q{1}a", "Q{u}a()", "a:b:c", "child::", "1 instance of xs:integer", "1 cast as xs:string", "'a:b' cast as xs:QName", "xs:QName('p:a')",
    "10000000000000000000000000000000000000000 lt 1e0", "number(10 * 1000000000000000000000000000000000000)", "sum((1e308, 1e308))",
    "1 + (: comment", "(: a (: b :) c :) 1", "let $f := function($x) { $x + 1 } return $f(1)", "abs#1(-1)", "fold-left((1, 2), 0, function($a, $b) { $a + $b })",
    "map{1: 2}(1)", "[1, 2](3)", "[1, 2]?3", "map{1: 2}?*", "(1, 2) => sum()", "-5 => abs()", "'a' => concat('b')", "1 => ", "array:get([1], 0)",
    "map:merge((map{1: 2}, map{1: 3}))", "sort((3, 1, 2))", "sort(('a', 1))", "json-to-xml('{')", "parse-json('[')", "xml-to-json(/a)",
    "format-number(1, '#')", "format-integer(1, 'w')", "format-date(xs:date('2000-01-01'), '[Y]')", "round(1.5, 99999999999)", "round-half-to-even(1.5, -400)",
    "xs:decimal(1e400)", "xs:float('1e400')", "string-to-codepoints('a')", "codepoints-to-string(0)", "codepoints-to-string(1114112)", "matches('a', '(')",
    "replace('a', 'a', '$2')", "tokenize('a', '')", "analyze-string('a', '(')", "doc('x')", "collection()", "id('a')", "root()", "base-uri()",
    "lang('en')", "name(1)", "local-name(())", "namespace-uri-for-prefix('p', /a)", "resolve-uri('a', ':')", "xs:anyURI('%')", "encode-for-uri(1)",
    "deep-equal((1, 2), (1, 'a'))", "index-of((1, 'a'), 1)", "distinct-values((1, 'a', 1.0))", "min((1, 'a'))", "max(())", "avg(('a'))",
    "subsequence((1, 2), 1e400)", "insert-before((1), 0, ())", "remove((1), 99999999999999999999)", "exactly-one(())", "zero-or-one((1, 2))",
    "xs:dateTime('2000-01-01T00:00:00') + xs:dayTimeDuration('P999999999999D')", "xs:date('9999-12-31') + xs:yearMonthDuration('P1Y')",
    "xs:duration('P1Y') lt xs:duration('P1M')", "xs:gYear('2000') eq xs:gYear('2001')", "adjust-date-to-timezone(xs:date('2000-01-01'), xs:dayTimeDuration('PT15H'))",
    "timezone-from-time(xs:time('12:00:00'))", "xs:hexBinary('0') ", "xs:base64Binary('=')", "string(xs:hexBinary('0A') = xs:hexBinary('0a'))",
    "1 treat as xs:string", "(1, 2) treat as xs:integer", "() treat as item()+", "element(a) ", "attribute(*, xs:int)", "document-node(element(a))/a",
    "processing-instruction(pi)", "processing-instruction('p i')", "namespace::*", "@*:k", "*:a", "a/(b, c)", "a/1", "1/a", "(/)/a", "/..", "//..", "a[0]", "a[-1]", "a['x']",
    "a[position() = last()]", ". is .", "a << b", "a union 1", "1 | 2", "a except 'x'", "unparsed-text('x')", "environment-variable('PATH')", "error()",
    "error(xs:QName('e'), 'm')", "trace(1, 'x')", "function-lookup(xs:QName('fn:abs'), 1)(-1)", "apply(abs#1, [1, 2])", "for-each-pair((1), (2), concat#2)",
    "string(function() { 1 })", "(abs#1, 1) = 1", "data(abs#1)", "map{abs#1: 1}", "array:sort([('a', 1)])", "random-number-generator()?number",
    "innermost(1)", "outermost(//b)", "path(1)", "has-children(1)", "generate-id(1)", "serialize(map{1: 2})", "parse-xml('<')", "parse-xml-fragment('<a>')",
    "1" + "0" * 400 + " mod xs:double('INF')", "-1" + "0" * 400 + " mod xs:double('-INF')", "1" + "0" * 400 + " div xs:double('INF')",
    "1" + "0" * 400 + " idiv 1e0", "1" + "0" * 400 + " * 1e0", "1" + "0" * 400 + " + 1e0", "xs:float(1" + "0" * 400 + ")", "1" + "0" * 400 + " lt 1e0",
    "adjust-dateTime-to-timezone(xs:dateTime('999999999-12-31T23:00:00Z'), xs:dayTimeDuration('PT14H'))",
    "adjust-dateTime-to-timezone(xs:dateTime('-999999999-01-01T00:00:00Z'), xs:dayTimeDuration('-PT14H'))",
    "adjust-date-to-timezone(xs:date('999999999-12-31Z'), xs:dayTimeDuration('PT14H'))", "adjust-time-to-timezone(xs:time('23:00:00Z'), xs:dayTimeDuration('PT14H'))",
    "xs:dateTime('999999999-12-31T23:00:00Z') + xs:dayTimeDuration('P1D')", "xs:date('-999999999-01-01') - xs:dayTimeDuration('P1D')",
    "compare('a', 'b', 'http://www.w3.org/2013/collation/UCA?lang=C;fallback=no')", "compare('a', 'b', 'http://www.w3.org/2013/collation/UCA?lang=en;fallback=no')",
    "contains('abc', 'b', 'http://www.w3.org/2013/collation/UCA?lang=C;fallback=no')", "index-of(('a', 'b'), 'a', 'http://www.w3.org/2013/collation/UCA?lang=C')",
    "compare('a', 'b', 'C.utf8')", "compare('a', 'b', 'POSIX')", "compare('a', 'b', 'xx_XX.UTF-8')", "sort(('b', 'a'), 'http://www.w3.org/2013/collation/UCA?lang=de')",
    "contains-token('a b', 'a', 'x')", "default-collation() => string-length()", "collation-key('a')", "load-xquery-module('x')", "transform(map{})",
    # nesting beyond the interpreter's recursion limit, literals beyond its integer-string limit, integers beyond the xs:double range as arguments
    "1" + "+1" * 300, "(" * 600 + "1" + ")" * 600, "-" * 3000 + "1", "a" + "[a" * 700 + "]" * 700, "1" + ",1" * 3000, "a" + "/a" * 700, "a" + "|a" * 3000, "9" * 5000,
    "not(" * 400 + "1" + ")" * 400, "if (1) then " * 300 + "1" + " else 2" * 300,
    "distinct-values((1" + "0" * 400 + ", 1.5e0))", "max((1" + "0" * 400 + ", 1e0))", "min((1e0, 1" + "0" * 400 + "))", "avg((1" + "0" * 400 + ", 1e0))", "sum((1" + "0" * 400 + ", 1e0))",
    "format-number(1" + "0" * 400 + ", '0')", "math:sqrt(1" + "0" * 400 + ")", "math:exp(1" + "0" * 400 + ")", "math:sin(1" + "0" * 400 + ")", "math:atan2(1" + "0" * 400 + ", 1)",
    "math:pow(1" + "0" * 400 + ", 2)", "math:pow(2, 100000000)", "math:log(1" + "0" * 400 + ")", "xs:double(1" + "0" * 400 + ")", "number(1" + "0" * 400 + ")", "index-of((1e0), 1" + "0" * 400 + ")",
    "deep-equal(1e0, 1" + "0" * 400 + ")", "round(1" + "0" * 400 + " * 1.5)", "abs(-1" + "0" * 400 + ") eq 1e0", "1" + "0" * 400 + " = 1e0", "(1" + "0" * 400 + ", 1e0) = 2e0",
    "c/f[lang('zh')]", "//f[lang('en-US')]", "lang('zh-Hant')", "ceiling('a')", "floor(xs:duration('P1D'))", "ceiling(xs:untypedAtomic('1.5'))", "floor(true())", "round('a')", "abs('a')",
    "function($a, b) { $a }", "function($a, 1) { $a }", "function($a, (1)) { $a }", "function($a as xs:integer, $a) { 1 }", "function(1) { 1 }",
    "namespace-uri-for-prefix('p', /*)", "in-scope-prefixes(/*)", "outermost((1 to 10, abs#1))", "outermost((//node(), //node(), map{}))", "innermost((1 to 11, [1]))",
    # conversions of Python exceptions that were missing (round 5 of the seeded changes)
    "format-integer(12, 'A', 'xx')", "format-integer(12, 'w', 'xx')", "round-half-to-even(12345.678, -99999999999999999999)", "round-half-to-even(12345.678e0, -99999999999999999999)",
    "round-half-to-even(12345, -99999999999999999999)", "round(1.5, -99999999999999999999)", "parse-ietf-date('Fri, 31 Dec 9999 24:00:00 GMT')", "parse-ietf-date('31 Dec 9999 24:00 GMT')",
    "parse-json('\"\\ud800\"', map{'fallback': function($s){1}})", "json-to-xml('\"\\ud800\"', map{'fallback': function($s){(1, 2)}})", "json-to-xml('\"\\u0000\"')",
    "adjust-dateTime-to-timezone(xs:dateTime('2000-01-01T00:00:00Z'), xs:dayTimeDuration('P9999999999D'))", "adjust-time-to-timezone(xs:time('00:00:00Z'), xs:dayTimeDuration('-P9999999999D'))",
    "sum((xs:yearMonthDuration('P100000000Y'), xs:yearMonthDuration('P100000000Y')))", "avg((xs:dayTimeDuration('P100000000000000D'), xs:dayTimeDuration('P100000000000000D')))",
    "sum((xs:dayTimeDuration('P100000000000000D'), xs:dayTimeDuration('P100000000000000D')))", "avg((xs:yearMonthDuration('P100000000Y'), xs:yearMonthDuration('P100000000Y')))",
    "deep-equal(map{1:2}, [1])", "deep-equal([1], map{1:2})", "deep-equal(map{1:2}, /*)", "deep-equal((map{}, 1), ([], 1))", "format-number(xs:double('INF'), '0%')",
    "format-number(xs:double('-INF'), '0\u2030')", "format-number(xs:float('INF'), '#%')", "replace('a', 'a{99999999999}', 'b')", "tokenize('a', 'a{99999999999}')",
    "analyze-string('a', 'a{99999999999}')", "matches('a', 'a{99999999999}')", "sum(true())", "sum((xs:untypedAtomic('abc'), 1))", "sum(xs:date('2020-01-01'))", "sum(xs:hexBinary('00'))",
    "codepoints-to-string(/*)", "string-join([1, abs#1], '')", "parse-json(concat(string-join(for $i in 1 to 3000 return '[', ''), string-join(for $i in 1 to 3000 return ']', '')))",
    "json-to-xml(concat(string-join(for $i in 1 to 3000 return '[', ''), string-join(for $i in 1 to 3000 return ']', '')))",
    "xs:untypedAtomic('99999999999-01-01') = xs:date('2000-01-01')", "xs:date('2000-01-01') < xs:untypedAtomic('99999999999-01-01')", "xs:untypedAtomic('99999999999') = xs:gYear('2000')",
    "xs:untypedAtomic('P99999999999999999999999999D') = xs:dayTimeDuration('P1D')", "xs:yearMonthDuration('P1Y') != xs:untypedAtomic('P99999999999999999999999999Y')",
    "xs:untypedAtomic('1e999999') = 1", "xs:untypedAtomic('99999999999-01-01T00:00:00') > xs:dateTime('2000-01-01T00:00:00')", "xs:untypedAtomic('25:00:00') = xs:time('00:00:00')",
    "map{xs:date('3000000-01-01'): 1}?*", "map:contains(map:entry(xs:dateTime('3000000-01-01T00:00:00'), 1), xs:dateTime('3000000-01-01T00:00:00'))",
    "map:get(map:put(map{}, xs:date('-3000000-01-01'), 1), xs:date('-3000000-01-01'))", "distinct-values((xs:date('-3000000-01-01'), xs:date('-3000000-01-01')))",
    "map:merge((map:entry(xs:gYear('99999999'), 1), map:entry(xs:gYear('99999999'), 2)))", "map{xs:time('00:00:00'): 1, xs:dayTimeDuration('P99999999999999D'): 2}?*",
    "1 => zz:f()", "'a' => xs:exp()", "1 => (", "lang('en', 1)", "xs:byte(127) + 1", "round(xs:byte(127), -1)", "-xs:byte(-128)", "abs(xs:byte(-128))", "xs:unsignedByte(255) * 2",
]


def _documents():
    import xml.etree.ElementTree as ET
    import lxml.etree as LX
    return [None, ET.XML('<a k="v"><b k="v">1</b><b>x</b><?pi p?><!--c--><c xml:lang="en"/></a>'), ET.ElementTree(ET.XML('<a><b/></a>')),
            LX.XML('<a xmlns:p="urn:p" xml:lang="zh-Hant-TW"><!--c--><b k="v">1<?pi p?></b><c xml:lang="en"><f/></c><p:d/></a>')]


def _mutations(rng, e, alphabet):
    toks = e.replace('(', ' ( ').replace(')', ' ) ').split()
    out = []
    if toks:
        i = rng.randrange(len(toks))
        out.append(' '.join(toks[:i] + toks[i + 1:]))
        out.append(' '.join(toks[:i] + [rng.choice(alphabet)] + toks[i:]))
        out.append(' '.join(toks[:i] + [rng.choice(alphabet)] + toks[i + 1:]))
        j = rng.randrange(len(toks))
        toks2 = list(toks)
        toks2[i], toks2[j] = toks2[j], toks2[i]
        out.append(' '.join(toks2))
    out.append(e[:rng.randrange(len(e) + 1)])
    out.append(e + rng.choice([')', ']', '(', ' ,', ' +', '\x00', '\ud800' if False else ' ', '}', '"']))
    return out


class _Hang(BaseException):
    pass


def _tree(tok):
    """token tree as text, without recursion (Token.tree recurses once per nesting level, and some valid expressions nest thousands of levels)"""
    out, stack = [], [tok]
    while stack:
        t = stack.pop()
        if isinstance(t, str):
            out.append(t)
            continue
        out.append(f'({t.symbol}:{t.value!r}' if not len(t) else f'({t.symbol}')
        stack.append(')')
        stack.extend(reversed(list(t)))
    return ' '.join(out)


def _alarm(*a):
    raise _Hang()


def _classify(thunk):
    import signal
    try:
        signal.signal(signal.SIGALRM, _alarm)
        signal.alarm(20)
    except ValueError:
        pass
    try:
        return _classify_(thunk)
    except _Hang:
        return 'no result after 20 s (hang)'
    finally:
        try:
            signal.alarm(0)
        except ValueError:
            pass


def _classify_(thunk):
    try:
        thunk()
        return None
    except _Hang:
        raise
    except ElementPathError:
        return None
    except RecursionError:
        return None      # resource bound on deep inputs: outside the contract (stated in the scope)
    except BaseException as e:      # noqa - this is the contract being checked
        import traceback
        site = 'outside the package'
        for fr in traceback.extract_tb(e.__traceback__):
            if '/elementpath/' in fr.filename:
                site = fr.filename.split('/elementpath/')[-1][:-3].replace('/', '.') + '.' + fr.name
        return f'{type(e).__name__} in {site}'


def escape_and_reuse(tier, seed):
    # The registered tiers explore a FIXED scope (reproducible verdict on an unchanged tree); VERIF_EXPLORE=1 lets VERIF_SEED vary it.
    import os
    rng = random.Random(seed if os.environ.get('VERIF_EXPLORE') else 20260925)
    docs = _documents()
    seed_set = set(SEED_EXPRS)
    fam, n, nparse = {}, 0, 0

    def bad(k, **w):
        fam.setdefault(k, []).append(w)
    for version, P in PARSERS.items():
        alphabet = ALPHABET[version]
        exprs = []
        for k in (1, 2):
            exprs += [' '.join(t) for t in itertools.product(alphabet, repeat=k)]
        trip = [' '.join(rng.choice(alphabet) for _ in range(rng.choice((3, 4, 5)))) for _ in range(1500 if tier == 'quick' else 20000)]
        exprs += trip
        base = list(SEED_EXPRS)
        exprs += base
        for e in base:
            for _ in range(2 if tier == 'quick' else 10):
                exprs += _mutations(rng, e, alphabet)
        if tier == 'quick' and len(exprs) > 7000:
            keep = exprs[-(len(base) * 13):]
            exprs = rng.sample(exprs[:-(len(base) * 13)], 7000 - len(keep)) + keep
        shared = P(namespaces={'x': 'urn:x', 'p': 'urn:p'})
        failed_before = False
        for e in exprs:
            nparse += 1
            tok = [None]

            def do_parse():
                tok[0] = shared.parse(e)
            err = _classify(do_parse)
            if err:
                bad(f'parse raises {err}', version=version, expr=e)
            # reuse: after a failed parse the shared instance must behave like a fresh one
            if failed_before and nparse % 3 == 0:
                fresh = P(namespaces={'x': 'urn:x', 'p': 'urn:p'})
                a = b = None
                try:
                    a = _tree(fresh.parse(e))
                except ElementPathError as x:
                    a = ('err', x.code)
                except BaseException as x:      # noqa
                    a = ('exc', type(x).__name__)
                b = _tree(tok[0]) if tok[0] is not None else None
                if tok[0] is None:
                    try:
                        shared.parse(e)
                    except ElementPathError as x:
                        b = ('err', x.code)
                    except BaseException as x:      # noqa
                        b = ('exc', type(x).__name__)
                if a != b:
                    bad('a parser that has seen a failing parse differs from a fresh instance', version=version, expr=e, fresh=repr(a)[:100], reused=repr(b)[:100])
            failed_before = failed_before or tok[0] is None
            if shared.next_match is not None or shared.token is not shared._start_token or shared.parse_arguments is not True:
                bad('parser state is not reset after parse', version=version, expr=e)
                shared = P(namespaces={'x': 'urn:x', 'p': 'urn:p'})
            if tok[0] is None:
                continue
            for d in (docs if e in seed_set else docs[: (2 if tier == 'quick' else 3)]):        # hand-written expressions meet every document (incl. the lxml one)
                if d is None and version == '1.0':
                    continue
                n += 1
                ctx = elementpath.XPathContext(root=d, item=(1 if d is None else None), variables={'v': 1})
                err = _classify(lambda: tok[0].evaluate(ctx))
                if err:
                    bad(f'evaluate raises {err}', version=version, expr=e, root=None if d is None else type(d).__name__)
                err = _classify(lambda: list(tok[0].select(elementpath.XPathContext(root=d, item=(1 if d is None else None), variables={'v': 1}))))
                if err:
                    bad(f'select raises {err}', version=version, expr=e, root=None if d is None else type(d).__name__)
    # the hosting application may have set LC_COLLATE itself: collation expressions again under C.UTF-8
    import locale
    saved = locale.setlocale(locale.LC_COLLATE)
    try:
        for loc in ('C.UTF-8', 'C.utf8'):
            try:
                locale.setlocale(locale.LC_COLLATE, loc)
                break
            except locale.Error:
                continue
        for version in ('2.0', '3.1'):
            for e in [x for x in SEED_EXPRS if 'collation' in x or "'C.utf8'" in x or 'POSIX' in x or 'sort(' in x or 'compare(' in x]:
                n += 1
                err = _classify(lambda: PARSERS[version]().parse(e).evaluate(elementpath.XPathContext(root=None, item=1)))
                if err:
                    bad(f'evaluate raises {err}', version=version, expr=e, root=None, lc_collate=locale.setlocale(locale.LC_COLLATE))
    finally:
        locale.setlocale(locale.LC_COLLATE, saved)
    # through the public entry points (select, iter_select, Selector) an evaluation that exceeds the interpreter's recursion limit is a dynamic error too
    deep_json = "concat(string-join(for $i in 1 to 600 return '[', ''), string-join(for $i in 1 to 600 return ']', ''))"
    for e in ("let $f := function($x) { $f($x) } return $f(1)", f"deep-equal(parse-json({deep_json}), parse-json({deep_json}))", "/a" + "/a" * 5000,
              "let $f := function($g, $n) { $g($g, $n + 1) } return $f($f, 0)", f"serialize(parse-json({deep_json}), map{{'method': 'json'}})"):
        for name, call in (('select', lambda e=e: elementpath.select(docs[1], e, parser=PARSERS['3.1'])),
                           ('iter_select', lambda e=e: list(elementpath.iter_select(docs[1], e, parser=PARSERS['3.1']))),
                           ('Selector.select', lambda e=e: elementpath.Selector(e, parser=PARSERS['3.1']).select(docs[1]))):
            n += 1
            try:
                call()
            except ElementPathError:
                pass
            except RecursionError:
                bad(f'{name}() lets a RecursionError of the evaluation escape', version='3.1', expr=e[:80])
            except BaseException as x:      # noqa
                bad(f'{name}() raises {type(x).__name__}', version='3.1', expr=e[:80])
    # one finding per (exception class, innermost library function): distinct defects stay apart, one defect has one key
    fails = [{'key': k, 'items': ws[:4], 'count': len(ws), 'what': f'{k}: {ws[0]["expr"]!r} (XPath {ws[0]["version"]})'} for k, ws in fam.items()]
    return {'evaluations': n + nparse, 'distinct': nparse, 'exhaustive': False,
            'scope': f'{nparse} parses / {n} evaluations: all token strings of length <= 2 over a per-version alphabet (40-90 symbols), seeded strings of length 3-5, '
            f'{len(SEED_EXPRS)} hand-written expressions (error paths of operators, casts, date arithmetic, higher-order functions, maps/arrays, JSON, regex, '
            'collations) and token-level mutations of them; XPath 1.0-3.1; evaluated with evaluate() and select() on no document / Element / ElementTree roots; '
            'contract: only ElementPathError escapes (RecursionError of a direct token.evaluate()/select() on deep inputs is outside the contract; through select/iter_select/Selector it is judged on 5 programs); one shared parser per version, compared with a fresh '
            'parser after failing parses', 'failures': fails}


def _site(expr):
    import re as _re
    m = _re.search(r'([A-Za-z][\w:-]*)\s*\(', expr)
    if m:
        return m.group(1) + '()'
    m = _re.search(r'(=>|<<|>>|\|\||!=|<=|>=|::|:=|[-+*/|=<>!?#\[\]{}@$,.:]|\b(?:idiv|div|mod|to|eq|ne|lt|le|gt|ge|is|and|or|union|intersect|except|instance|treat|cast|castable|for|let|some|every|if)\b)', expr)
    return m.group(1) if m else 'literal'


def _replay_escape(f):
    for w in f['items']:
        P = PARSERS[w['version']]
        kind = f['key'].split(' raises ')[0] if ' raises ' in f['key'] else None
        try:
            tok = P(namespaces={'x': 'urn:x', 'p': 'urn:p'}).parse(w['expr'])
            if kind in ('evaluate', 'select'):
                d = {None: None}.get(w.get('root'), None)
                docs = {type(x).__name__: x for x in _documents() if x is not None}
                d = docs.get(w.get('root'))
                ctx = elementpath.XPathContext(root=d, item=(1 if d is None else None), variables={'v': 1})
                if kind == 'evaluate':
                    tok.evaluate(ctx)
                else:
                    list(tok.select(ctx))
        except ElementPathError:
            continue
        except RecursionError:
            continue
        except BaseException:      # noqa
            return False
    if 'differs from a fresh instance' in f['key'] or 'not reset' in f['key']:
        r = escape_and_reuse('quick', 0)
        return all(x['key'] != f['key'] for x in r['failures'])
    return True


BOUNDED = [Bounded('escape_sets_and_parser_reuse', escape_and_reuse, _replay_escape)]
