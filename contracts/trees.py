"""Small-scope enumeration of XML trees for the bounded stand-ins (C01, C02, C14, C17, C20).

An abstract tree is a nested tuple  (kind, name, attrs, nsdecl, text, tail, children)  with
kind in {'e', 'c', 'p'} (element, comment, processing instruction).  `realise` builds it through the ElementTree
or lxml API (never by parsing text, so that text None / '' / 'x' are distinguishable).
"""
from __future__ import annotations

import itertools
import random
import xml.etree.ElementTree as ET

try:
    import lxml.etree as LX
except ImportError:       # pragma: no cover
    LX = None

NAMES = ['a', 'b', '{urn:x}a', '{urn:y}b']
ATTRS = [(), (('k', 'v'),), (('k', 'v'), ('{urn:x}k', 'w')), (('id', 'i1'), ('k', ''))]
NSDECLS = [(), (('p', 'urn:x'),), (('', 'urn:d'),), (('p', 'urn:x'), ('q', 'urn:y'))]
TEXTS = [None, 'x', '', ' y\n']
PI_TARGETS = ['pi', 'alpha', 'a']


def shapes(n):
    """All ordered forests with n nodes, as nested tuples of children."""
    if n == 0:
        yield ()
        return
    for k in range(1, n + 1):           # size of the first tree
        for first in shapes(k - 1):
            for rest in shapes(n - k):
                yield (first,) + rest


def tree_shapes(n):
    for kids in shapes(n - 1):
        yield kids


def decorate(shape, rng, leaf_kinds=True, depth=0):
    """Random decoration of one shape (root is always an element)."""
    kids = tuple(decorate(s, rng, True, depth + 1) for s in shape)
    if depth and leaf_kinds and not shape and rng.random() < 0.3:
        kind = rng.choice('cp')
        name = rng.choice(PI_TARGETS) if kind == 'p' else None
        return (kind, name, (), (), rng.choice(['c1', '', 'x y']), rng.choice(TEXTS), ())
    return ('e', rng.choice(NAMES), rng.choice(ATTRS), rng.choice(NSDECLS), rng.choice(TEXTS),
            rng.choice(TEXTS) if depth else None, kids)


def enumerate_trees(max_nodes, per_shape, seed):
    rng = random.Random(seed)
    seen = set()
    for n in range(1, max_nodes + 1):
        for shape in tree_shapes(n):
            for _ in range(per_shape):
                t = decorate(shape, rng)
                if t not in seen:
                    seen.add(t)
                    yield t


def exhaustive_small():
    """Every decoration of the one- and two-node trees (complete for that scope)."""
    for name, attrs, ns, text in itertools.product(NAMES, ATTRS, NSDECLS, TEXTS):
        yield ('e', name, attrs, ns, text, None, ())
    for name, attrs, text in itertools.product(NAMES[:3], ATTRS[:3], TEXTS):
        for cname, cattrs, cns, ctext, ctail in itertools.product(NAMES[:3], ATTRS[:2], NSDECLS[:3], TEXTS[:3], TEXTS):
            yield ('e', name, attrs, (), text, None, (('e', cname, cattrs, cns, ctext, ctail, ()),))
        for kind, cname in (('c', None), ('p', 'pi'), ('p', 'a')):
            for ctail in TEXTS:
                yield ('e', name, attrs, (), text, None, ((kind, cname, (), (), 'data', ctail, ()),))


def realise(t, lib='et'):
    """Build the tree with xml.etree ('et') or lxml ('lxml'); returns the root Element."""
    kind, name, attrs, ns, text, tail, kids = t
    if lib == 'et':
        e = ET.Element(name, dict(attrs))
        # ElementTree has no nsmap: declarations only matter through the namespaces argument
    else:
        nsmap = {(k or None): v for k, v in ns}
        for n2 in [name] + [a for a, _ in attrs]:
            if n2.startswith('{'):
                uri = n2[1:].split('}')[0]
                if uri not in nsmap.values():
                    # one fixed prefix per URI: lxml resolves clashing prefixes of separately built subtrees in surprising ways
                    nsmap['ns_' + uri.replace(':', '_')] = uri
        e = LX.Element(name, dict(attrs), nsmap=nsmap or None)
    e.text = text
    for k in kids:
        e.append(_realise_child(k, lib))
    return e


def _realise_child(t, lib):
    kind, name, attrs, ns, text, tail, kids = t
    mod = ET if lib == 'et' else LX
    if kind == 'c':
        c = mod.Comment(text)
    elif kind == 'p':
        c = mod.ProcessingInstruction(name, text)
    else:
        c = realise(t, lib)
    c.tail = tail
    return c


def count_nodes(t):
    return 1 + sum(count_nodes(k) for k in t[6])
