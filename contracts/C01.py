"""C01 - path expressions select exactly the XDM-defined nodes, once, in document order.

The axis iterators and path operators walk ElementTree object graphs (outside the deductive engine's subset; the focus numbering of
`XPathAxis.select_with_focus` and `XPathToken.select_with_focus` IS under deductive contract in C08 and is relied upon here).  The
postcondition of select/iter_select is checked at run time against two independent readers on a stated scope (BOUNDED, never counted as
proved): libxml2 (lxml's `xpath()`) on the same abstract tree for XPath 1.0, and the 1.0 parser for the 2.0 / 3.0 / 3.1 parsers; every
result list must be duplicate-free and in document order (rank in an oracle walk of the input tree).
"""
from __future__ import annotations

import itertools
import random
import xml.etree.ElementTree as ET

import lxml.etree as LX

from .bounded import Bounded
from . import trees as T
from .common import PARSERS
from elementpath import XPathContext, get_node_tree
from elementpath.exceptions import ElementPathError
from elementpath.xpath_nodes import DocumentNode, ElementNode, NamespaceNode

# ---- deductive: the sibling axes of the dynamic context (real code of XPathContext.iter_siblings) ------------------------------------
import z3                                                        # noqa: E402
from pyvc.values import *                                        # noqa: E402,F401
from pyvc.contract import Contract, Case                         # noqa: E402
from pyvc.interp import LoopSpec                                 # noqa: E402
from pyvc.specprims import *                                     # noqa: E402,F401
from pyvc import models as _models                               # noqa: E402
from elementpath import XPathContext as _XPathContext            # noqa: E402
from elementpath.xpath_nodes import XPathNode as _XPathNode, AttributeNode as _AttributeNode, NamespaceNode as _NamespaceNode   # noqa: E402


def siblings_case(axis):
    """context.item = S[p], one of the children S of its parent (arbitrary list of opaque, pairwise distinct-from-item nodes); the context has a
    document; the item is a child node (element, text, comment, PI), not an attribute or a namespace node."""
    def setup(S, ex):
        sibs = S.seq('S', K_ITEM)
        p = S.int('p')
        item = sibs.get(p.t)
        axis0 = S.item('axis0')
        ctx = VObj(_XPathContext, {'item': item, 'axis': axis0, 'document': VObj(_XPathNode, {}, name='document'), 'root': VObj(_XPathNode, {}, name='root')},
                   name='self')

        def isinstance_hook(ex, *rest):
            if len(rest) == 2:
                return None
            node_, a, kw = rest
            v, c = a
            if isinstance(v, VItem):
                classes = [c.obj] if isinstance(c, VNative) and not isinstance(c.obj, tuple) else list(c.obj) if isinstance(c, VNative) else \
                    [x.obj for x in c.items]
                if classes == [_XPathNode]:
                    return VBool(True)
                if set(classes) == {_AttributeNode, _NamespaceNode}:
                    return VBool(False)
            return VBool(_models.isinstance_(ex, v, c))
        attr_hooks = {'item.parent': lambda ex, env: sibs}
        args = [ctx] if axis is None else [ctx, lift(axis)]
        return Case(args, hooks={'isinstance': isinstance_hook}, attr_hooks=attr_hooks, names={'S': sibs, 'p': p, 'ctx': ctx, 'item0': item, 'axis0': axis0})
    return setup


_SIB_PRE = ["0 <= p and p < len(S)", "forall_range(0, len(S), lambda i: implies(S[i] == item0, i == p))"]
CONTRACTS = [
    Contract('XPathContext.iter_siblings.following', 'C01', lambda: _XPathContext.iter_siblings, siblings_case(None), pre=_SIB_PRE,
             post=[('yields_exactly_the_following_siblings_in_document_order',
                    "returned and len(out) == len(S) - p - 1 and forall_range(0, len(out), lambda j: out[j] == S[p + 1 + j])"),
                   ('focus_restored', "ctx.item == item0 and ctx.axis == axis0")],
             loops={1: LoopSpec(["_i1 <= len(S)", "follows == (_i1 > p)", "len(out) == (max(_i1 - p - 1, 0))",
                                 "forall_range(0, len(out), lambda j: out[j] == S[p + 1 + j])"])},
             generator=K_ITEM, native=None, expect_min_obligations=4),
    Contract('XPathContext.iter_siblings.preceding', 'C01', lambda: _XPathContext.iter_siblings, siblings_case('preceding-sibling'), pre=_SIB_PRE,
             post=[('yields_exactly_the_preceding_siblings_in_document_order',
                    "returned and len(out) == p and forall_range(0, p, lambda j: out[j] == S[j])"),
                   ('focus_restored', "ctx.item == item0 and ctx.axis == axis0")],
             loops={0: LoopSpec(["_i0 <= p", "len(out) == _i0", "forall_range(0, _i0, lambda j: out[j] == S[j])", "forall_range(0, _i0, lambda j: S[j] != item0)"])},
             generator=K_ITEM, native=None, expect_min_obligations=4,
             notes=['the reverse numbering of preceding-sibling::x[n] is done by XPathAxis.select_with_focus (contract in C08) on this document-order list']),
]

def simple_axis_case(kind):
    def setup(S, ex):
        from elementpath.xpath_nodes import ElementNode as _E
        attrs = S.seq('A', K_ITEM)
        item = S.item('item0')
        parent = S.item('parent0')
        axis0 = S.item('axis0')
        ctx = VObj(_XPathContext, {'item': item, 'axis': axis0, 'document': VObj(_XPathNode, {}, name='document'), 'root': VObj(_XPathNode, {}, name='root')},
                   name='self')

        def isinstance_hook(ex, *rest):
            if len(rest) == 2:
                return None
            node_, a, kw = rest
            v, c = a
            if isinstance(v, VItem) and isinstance(c, VNative) and not isinstance(c.obj, tuple):
                if c.obj is _XPathNode:
                    return VBool(True)
                if c.obj is _AttributeNode:
                    return VBool(False)
                if c.obj is _E:
                    return VBool(True)
            return VBool(_models.isinstance_(ex, v, c))
        attr_hooks = {'self.item.attributes': lambda ex, env: attrs, 'self.item.parent': lambda ex, env: parent}
        return Case([ctx], hooks={'isinstance': isinstance_hook}, attr_hooks=attr_hooks,
                    names={'A': attrs, 'ctx': ctx, 'item0': item, 'axis0': axis0, 'parent0': parent})
    return setup


CONTRACTS += [
    Contract('XPathContext.iter_attributes.element', 'C01', lambda: _XPathContext.iter_attributes, simple_axis_case('attributes'),
             post=[('yields_the_attributes_of_the_element_in_order', "returned and len(out) == len(A) and forall_range(0, len(A), lambda j: out[j] == A[j])"),
                   ('focus_restored', "ctx.item == item0 and ctx.axis == axis0")],
             loops={0: LoopSpec(["_i0 <= len(A)", "len(out) == _i0", "forall_range(0, _i0, lambda j: out[j] == A[j])"])},
             generator=K_ITEM, native=None, expect_min_obligations=3),
    Contract('XPathContext.iter_self', 'C01', lambda: _XPathContext.iter_self, simple_axis_case('self'),
             post=[('yields_the_context_item_once', "returned and len(out) == 1 and out[0] == item0"), ('focus_restored', "ctx.item == item0 and ctx.axis == axis0")],
             generator=K_ITEM, native=None, expect_min_obligations=2),
    Contract('XPathContext.iter_parent', 'C01', lambda: _XPathContext.iter_parent, simple_axis_case('parent'),
             post=[('yields_the_parent_once', "returned and len(out) == 1 and out[0] == parent0"), ('focus_restored', "ctx.item == item0 and ctx.axis == axis0")],
             generator=K_ITEM, native=None, expect_min_obligations=2,
             notes=['case: the context has a document and the item has a parent (an opaque item is never None)']),
]

BOUNDED_ONLY = ('the axis iterators of XPathContext and the path operators walk ElementTree object graphs outside the deductive subset; their postcondition is '
                'checked at run time against libxml2 and across parser versions on a stated finite scope (focus numbering: see the C08 contracts)')
NOT_DECIDED = ['for ALL trees and ALL path expressions: only the stated scope is explored (bounded stand-in)']
NSMAP = {'p': 'urn:x', 'q': 'urn:y'}

AXES = ['child', 'descendant', 'descendant-or-self', 'self', 'parent', 'ancestor', 'ancestor-or-self', 'following-sibling', 'preceding-sibling',
        'following', 'preceding', 'attribute']
TESTS = ['a', 'b', '*', 'p:a', 'q:b', 'p:*', 'node()', 'text()', 'comment()', 'processing-instruction()', "processing-instruction('pi')"]
PREDS = ['[1]', '[2]', '[last()]', '[position() < 3]', '[position() = last()]', '[@k]', "[@k='v']", '[b]', '[not(b)]', '[text()]', "[. = 'x']", '[a or b]',
         '[count(*) > 1]', '[last() - 1]', '[@*]', '[self::a]', '[..]', '[following-sibling::*]', '[preceding-sibling::a[1]]', "[name() = 'b']", '[* and @k]',
         '[position() mod 2 = 1]', '[not(*)]', '[2.5]', '[last() div 2]', '[1.5]', '[last() div 3]', '[0.5 + 0.5]', "[string-length(.) > 0]", '[0]', '[1][1]', '[2][1]', '[last()][1]',
         '[true()][true()][1]', '[*][true()][last()]', '[true()][1][true()][1]', '[@k or *][true()][true()][2]', '[true()][true()][true()][1]']


def gen_step(rng):
    axis = rng.choice(AXES)
    if axis == 'attribute':
        test = rng.choice(['k', '*', 'id', 'p:k'])
    else:
        test = rng.choice(TESTS)
    r = rng.random()
    if r < 0.25 and axis == 'child':
        s = test
    elif r < 0.32 and axis == 'attribute':
        s = '@' + test
    elif r < 0.37:
        s = rng.choice(['.', '..'])
    else:
        s = f'{axis}::{test}'
    if s not in ('.', '..'):
        for _ in range(rng.choice([0, 0, 0, 1, 1, 2])):
            s += rng.choice(PREDS)
    return s


def gen_path(rng):
    n = rng.choice([1, 1, 2, 2, 3, 4])
    steps = [gen_step(rng) for _ in range(n)]
    p = steps[0]
    for s in steps[1:]:
        p += rng.choice(['/', '/', '/', '//']) + s
    lead = rng.choice(['', '', '', '/', '//', './/', './'])
    if lead in ('/', '//') and p.startswith('.'):
        lead = ''
    p = lead + p
    r = rng.random()
    if r < 0.08:
        p = f'({p})[{rng.choice(["1", "2", "last()", "position() > 1"])}]'
    elif r < 0.14:
        p = f'({p} | {gen_step(rng)})'
    elif r < 0.18:
        p = f'({p})/{gen_step(rng)}'
    return p


HAND = ['//@k/self::*', '//@*/ancestor-or-self::*', '//@k/descendant-or-self::*', '//@*[self::*]', '//@k/self::node()', '//@k/self::k', '//@k/..', '//@*/parent::*',
        '//@k/ancestor::*[1]', '//@k/preceding::*', '//@k/preceding-sibling::*', '//@k/following-sibling::node()', '//@k/@k', '//@k/child::node()', '//@k/descendant::node()',
        '//text()/self::*', '//text()/ancestor-or-self::*', '//comment()/self::*', '//text()/following::node()', '//text()/preceding::node()',
        '//b', '//b[1]', '(//b)[1]', '//a//b', '//*[@k]/..', 'descendant::*[2]', 'ancestor::*[1]', 'preceding::*[1]', 'following::*[1]', 'preceding-sibling::*[1]',
        '//text()', '//comment()', '//processing-instruction()', '/*', '/', '//@*', '//@k/..', '..//b', '../..', 'self::node()', '//node()', '//*[last()]',
        'ancestor-or-self::*[last()]', 'ancestor::*[true()][true()][1]', 'ancestor-or-self::node()[true()][true()][true()][1]', '//*/preceding::*[true()][true()][1]',
        '//*/preceding-sibling::node()[true()][true()][1]', '//*/ancestor::*[true()][true()][last()]', '//text()/ancestor::*[*][true()][1]', '//b/preceding::node()', '//b/following::node()[1]', '//a/following-sibling::node()[2]', '//b[2]/preceding-sibling::node()',
        '//*[not(@*)]', '//a | //b', '(//a | //b)[2]', '//*/*[1]', '//*[position() = 2]', '/descendant::b[1]', '/descendant-or-self::node()/b[1]', '//b/ancestor::*',
        "//*[@k='v'][1]", '//p:a', '//p:*', '//*[self::p:a or self::a]', './/b[1]//a', '//a[b][1]', '//a[1][b]', '//b[.//a]', '/a/b/..', '//@k[1]', '//attribute::*[2]',
        '//comment()/following-sibling::node()', '//text()[1]', '//text()[last()]', '//*[text()]', 'preceding::text()', 'following::comment()']


def _no_empty(t):
    kind, name, attrs, ns, text, tail, kids = t
    return (kind, name, attrs, ns, text or None if kind == 'e' else text, tail or None, tuple(_no_empty(k) for k in kids))


def _ranks_elementpath(rn):
    from .C02 import actual_nodes
    _, nodes = actual_nodes(rn)
    out, k = {}, 0
    for n in nodes:
        if isinstance(n, NamespaceNode):
            continue
        out[id(n)] = k
        k += 1
    return out, nodes


def _ranks_lxml(doc):
    out, k = {}, 1        # 0 is the document node
    out['doc'] = 0

    def walk(e):
        nonlocal k
        out[id(e)] = k
        k += 1
        if not callable(e.tag):
            for name in e.attrib:
                out[(id(e), 'attr', name)] = k
                k += 1
            if e.text is not None:
                out[(id(e), 'text')] = k
                k += 1
            for c in e:
                walk(c)
                if c.tail is not None:
                    out[(id(c), 'tail')] = k
                    k += 1
    root = doc.getroot()
    for x in reversed(list(root.itersiblings(preceding=True))):
        out[id(x)] = k
        k += 1
    walk(root)
    for x in root.itersiblings():
        out[id(x)] = k
        k += 1
    return out


def _lxml_key(x, ranks, doc):
    if isinstance(x, LX._ElementUnicodeResult) or isinstance(x, (str, bytes)):
        parent = x.getparent()
        if parent is None:
            return None
        if getattr(x, 'is_attribute', False):
            return ranks.get((id(parent), 'attr', x.attrname))
        if getattr(x, 'is_tail', False):
            return ranks.get((id(parent), 'tail'))
        return ranks.get((id(parent), 'text'))
    if isinstance(x, tuple):
        return 'ns'
    return ranks.get(id(x))


def _raw_key(x):
    """Identity of a result node in terms of the caller's ElementTree objects."""
    if isinstance(x, DocumentNode):
        return ('document', 0, None)
    if hasattr(x, 'elem'):
        return (type(x).__name__, id(x.elem), None)
    parent = getattr(x, 'parent', None)
    return (type(x).__name__, id(getattr(parent, 'elem', None)), (getattr(x, 'name', None), x.position))


def _select_ep(version, expr, rn, item):
    tok = PARSERS[version](namespaces=NSMAP).parse(expr)
    return list(tok.select(XPathContext(root=rn, item=item)))


def path_differential(tier, seed):
    rng = random.Random(20260925)
    fam, n = {}, 0

    def bad(k, **w):
        fam.setdefault(k, []).append(w)
    trees = [_no_empty(t) for t in T.enumerate_trees(5 if tier == 'quick' else 6, 3 if tier == 'quick' else 12, 11)]
    el = lambda n_, kids=(), text=None, tail=None, attrs=(): ('e', n_, attrs, (), text, tail, tuple(kids))     # noqa
    trees += [el('a', [el('b', [el('a', [el('b')]), el('b')], text='x', tail='t1', attrs=(('k', 'v'),)), ('c', None, (), (), 'c1', 't2', ()),
                       el('a', [el('b', attrs=(('k', 'w'), ('id', 'i')))], tail='t3'), ('p', 'pi', (), (), 'd', None, ()), el('b', text='x')], text='t0'),
              el('{urn:x}a', [el('a', [el('{urn:x}a'), el('{urn:y}b', attrs=(('{urn:x}k', 'v'),))]), el('{urn:x}a', text='x')], attrs=(('k', 'v'),))]
    exprs = list(HAND) + [gen_path(rng) for _ in range(500 if tier == 'quick' else 6000)]
    exprs = list(dict.fromkeys(exprs))
    per_tree = 70 if tier == 'quick' else 400
    for ti, t in enumerate(trees):
        et_root, lx_root = T.realise(t, 'et'), T.realise(t, 'lxml')
        et_doc, lx_doc = ET.ElementTree(et_root), LX.ElementTree(lx_root)
        rn = get_node_tree(et_doc, namespaces=NSMAP)
        rn_lx = get_node_tree(lx_doc)
        ranks, nodes = _ranks_elementpath(rn)
        ranks_lx_ep, nodes_lx = _ranks_elementpath(rn_lx)
        lranks = _ranks_lxml(lx_doc)
        # context items: the document and the element/comment/PI nodes, paired by rank
        ctx_nodes = [x for x in nodes if isinstance(x, (DocumentNode, ElementNode)) or hasattr(x, 'elem')]
        by_rank_lx = {v: k for k, v in lranks.items() if not isinstance(k, tuple)}
        lx_objs = {}
        for e in lx_doc.iter():
            lx_objs[lranks[id(e)]] = e
        ep_lx_by_rank = {ranks_lx_ep[id(x)]: x for x in nodes_lx if id(x) in ranks_lx_ep}
        sample = HAND + rng.sample(exprs[len(HAND):], min(per_tree, len(exprs) - len(HAND)))
        for expr in sample:
            item = rng.choice(ctx_nodes)
            r = ranks[id(item)]
            if r == 0 and not expr.startswith('/'):
                # lxml evaluates a relative path of an ElementTree from the root element, not from the document node
                item = next(x for x in ctx_nodes if ranks[id(x)] != 0)
                r = ranks[id(item)]
            n += 1
            w = dict(expr=expr, tree=repr(t)[:200], context_rank=r)
            try:
                got1 = _select_ep('1.0', expr, rn, None if item is rn else item)
            except ElementPathError as e:
                got1 = f'error {e.code}'
            except Exception as e:      # noqa
                bad('select raises a non-XPath error', **w, err=f'{type(e).__name__}: {e}'[:100])
                continue
            k1 = got1 if isinstance(got1, str) else [ranks.get(id(x), 'ns' if isinstance(x, NamespaceNode) else repr(x)[:20]) for x in got1]
            fam_key = _family(expr)
            if not isinstance(k1, str):
                ints = [x for x in k1 if isinstance(x, int)]
                if len(ints) == len(k1) and any(a >= b for a, b in zip(ints, ints[1:])):
                    bad(f'a path returns nodes out of document order or twice ({fam_key})', **w, got=k1[:12])
            # libxml2 on the same abstract tree (XPath 1.0)
            if 'namespace::' not in expr:
                ctx_lx = lx_doc if r == 0 else lx_objs.get(r)
                try:
                    res = ctx_lx.xpath(expr, namespaces=NSMAP)
                    if isinstance(res, list):
                        k2 = [_lxml_key(x, lranks, lx_doc) for x in res]
                    else:
                        k2 = None
                except LX.XPathError as e:
                    k2 = 'error'
                if k2 is not None and not (isinstance(k1, str) and k2 == 'error'):
                    # lxml cannot return the document node: it is left out of both lists
                    k1c = [x for x in k1 if x != 0] if isinstance(k1, list) else k1
                    k2 = [x for x in k2 if x is not None] if isinstance(k2, list) else k2
                    if isinstance(k1, str) and 'XPST0003' in k1 and (')/' in expr or ')//' in expr) and k2 != 'error':
                        bad('XPath 1.0 rejects a parenthesised expression followed by a path step (valid XPath 1.0: FilterExpr "/" RelativeLocationPath)', **w)
                    elif k1c != k2 and not (k2 == 'error' or isinstance(k1, str)):
                        bad(f'XPath 1.0 differs from libxml2 ({fam_key})', **w, elementpath=k1[:12], libxml2=k2[:12])
                    elif (k2 == 'error') != isinstance(k1, str):
                        bad(f'XPath 1.0 and libxml2 disagree on whether the expression is an error ({fam_key})', **w, elementpath=repr(k1)[:60], libxml2=repr(k2)[:60])
            # the same expression on the lxml tree through elementpath
            item_lx = ep_lx_by_rank.get(r)
            try:
                got_lx = _select_ep('1.0', expr, rn_lx, None if r == 0 else item_lx)
                k3 = [ranks_lx_ep.get(id(x), 'ns' if isinstance(x, NamespaceNode) else repr(x)[:20]) for x in got_lx]
            except ElementPathError as e:
                k3 = f'error {e.code}'
            except Exception as e:      # noqa
                k3 = f'crash {type(e).__name__}'
            if k3 != k1 and 'namespace::' not in expr:
                bad(f'the result differs between an xml.etree tree and the same lxml tree ({fam_key})', **w, etree=repr(k1)[:80], lxml=repr(k3)[:80])
            # the same selection through the public call form: the caller passes the ElementTree objects, not nodes of a prebuilt tree
            raw_item = None if item is rn else getattr(item, 'elem', None)
            if (item is rn or raw_item is not None) and not isinstance(k1, str) and 'namespace::' not in expr:
                try:
                    tok = PARSERS['2.0'](namespaces=NSMAP).parse(expr)
                    got_api = list(tok.select(XPathContext(root=et_doc, item=raw_item, namespaces=NSMAP)))
                    ka = [_raw_key(x) for x in got_api]
                except ElementPathError as e:
                    ka = f'error {e.code}'
                except Exception as e:      # noqa
                    ka = f'crash {type(e).__name__}: {e}'[:80]
                kn = [_raw_key(x) for x in got1]
                if ka != kn:
                    bad(f'selecting from a caller-supplied ElementTree context item differs from selecting from its node ({fam_key})', **w,
                        from_node=repr([k[0] for k in kn])[:80], from_api=repr(ka if isinstance(ka, str) else [k[0] for k in ka])[:80],
                        item_kind=type(item).__name__)
            # later parser versions agree with 1.0
            for version in ('2.0', '3.0', '3.1'):
                try:
                    gv = _select_ep(version, expr, rn, None if item is rn else item)
                    kv = [ranks.get(id(x), 'ns' if isinstance(x, NamespaceNode) else repr(x)[:20]) for x in gv]
                except ElementPathError as e:
                    kv = f'error {e.code}'
                except Exception as e:      # noqa
                    kv = f'crash {type(e).__name__}'
                if isinstance(k1, str) and 'XPST0003' in k1 and (')/' in expr or ')//' in expr):
                    continue        # reported once, as the XPath 1.0 grammar finding above
                if kv != k1 and not (isinstance(kv, str) and isinstance(k1, str)):
                    bad(f'XPath {version} differs from XPath 1.0 ({fam_key})', **w, v10=repr(k1)[:80], other=repr(kv)[:80])
    # lxml documents with comments / PIs before and after the root element: elementpath on the lxml tree against libxml2
    doc_exprs = ['preceding::node()', 'preceding::comment()', 'preceding::processing-instruction()', 'preceding::node()[1]', 'preceding::node()[last()]',
                 'following::node()', 'following::comment()', 'following::node()[1]', '/comment()', '/processing-instruction()', '/node()', '//comment()',
                 '/*/preceding-sibling::node()', '/*/following-sibling::node()', '/*/preceding-sibling::node()[1]', '//node()', 'ancestor::node()', '/*/..',
                 '//b/preceding::node()[2]', '//*[last()]/following::node()', '/descendant::node()[1]', '(//comment())[1]', '(//comment())[last()]',
                 '/comment()[1]/following::*[1]', '/comment()[last()]/preceding::*[1]', 'preceding::*', 'following::*']
    for ti, t in enumerate(trees[:: (3 if tier == 'quick' else 1)]):
        lx_root = T.realise(t, 'lxml')
        lx_doc = LX.ElementTree(lx_root)
        lx_root.addprevious(LX.Comment('pre1'))
        lx_root.addprevious(LX.ProcessingInstruction('pi', 'p'))
        lx_root.addprevious(LX.Comment('pre2'))
        lx_root.addnext(LX.ProcessingInstruction('pi', 'e'))
        lx_root.addnext(LX.Comment('post'))
        rn_lx = get_node_tree(lx_doc)
        ranks_ep, nodes_lx = _ranks_elementpath(rn_lx)
        lranks = _ranks_lxml(lx_doc)
        by_rank = {ranks_ep[id(x)]: x for x in nodes_lx if id(x) in ranks_ep}
        lx_by_rank = {lranks[id(e)]: e for e in lx_doc.iter() if id(e) in lranks}
        for x in list(lx_root.itersiblings(preceding=True)) + list(lx_root.itersiblings()):
            lx_by_rank[lranks[id(x)]] = x
        elem_ranks = [r for r, e in lx_by_rank.items() if not callable(getattr(e, 'tag', None)) or True]
        for expr in doc_exprs:
            r = rng.choice(elem_ranks) if not expr.startswith('/') and not expr.startswith('(/') else lranks[id(lx_root)]
            item, ctx_lx = by_rank.get(r), lx_by_rank.get(r)
            if item is None or ctx_lx is None:
                continue
            n += 1
            w = dict(expr=expr, tree=repr(t)[:200], context_rank=r)
            try:
                got = _select_ep('1.0', expr, rn_lx, item)
                k1 = [ranks_ep.get(id(x), '?') for x in got]
            except ElementPathError as e:
                k1 = f'error {e.code}'
            try:
                k2 = [_lxml_key(x, lranks, lx_doc) for x in ctx_lx.xpath(expr)]
            except LX.XPathError:
                k2 = 'error'
            k1c = [x for x in k1 if x != 0] if isinstance(k1, list) else k1
            if k1c != k2 and isinstance(k2, list):
                bad(f'XPath 1.0 differs from libxml2 on a document with prolog/epilog nodes ({_family(expr)})', **w, elementpath=repr(k1)[:80], libxml2=repr(k2)[:80])
    # wildcard and braced name tests (2.0+) against the equivalent local-name()/namespace-uri() predicates
    el2 = lambda n_, kids=(), attrs=(): ('e', n_, attrs, (), None, None, tuple(kids))     # noqa
    wtrees = trees[:: (4 if tier == 'quick' else 1)] + [
        el2('r', [el2('b', attrs=(('id', '1'), ('{urn:x}uid', '2'), ('{urn:x}id', '3'))), el2('{urn:x}ab'), el2('{urn:y}tab', [el2('{urn:x}b'), el2('{urn:y}bb')]),
                  el2('{urn:x}b', [el2('ab', attrs=(('{urn:y}kid', 'v'), ('{urn:y}k', 'w'), ('k', 'x')))]), el2('{urn:xx}a'), el2('{urn:x}a')])]
    equivalences = []
    for loc in ('a', 'b', 'ab', 'k', 'id', 'uid'):
        equivalences.append((f'//*:{loc}', f"//*[local-name() = '{loc}']", '2.0'))
        equivalences.append((f'//@*:{loc}', f"//@*[local-name() = '{loc}']", '2.0'))
        equivalences.append((f'//*/child::*:{loc}', f"//*/*[local-name() = '{loc}']", '2.0'))
        for pfx, uri in NSMAP.items():
            equivalences.append((f'//{pfx}:{loc}', f"//*[local-name() = '{loc}' and namespace-uri() = '{uri}']", '2.0'))
            equivalences.append((f'//@{pfx}:{loc}', f"//@*[local-name() = '{loc}' and namespace-uri() = '{uri}']", '2.0'))
            equivalences.append((f'//Q{{{uri}}}{loc}', f"//*[local-name() = '{loc}' and namespace-uri() = '{uri}']", '3.0'))
            equivalences.append((f'//@Q{{{uri}}}{loc}', f"//@*[local-name() = '{loc}' and namespace-uri() = '{uri}']", '3.0'))
        equivalences.append((f'//{loc}', f"//*[local-name() = '{loc}' and namespace-uri() = '']", '2.0'))
        equivalences.append((f'//@{loc}', f"//@*[local-name() = '{loc}' and namespace-uri() = '']", '2.0'))
    for pfx, uri in NSMAP.items():
        equivalences.append((f'//{pfx}:*', f"//*[namespace-uri() = '{uri}']", '2.0'))
        equivalences.append((f'//@{pfx}:*', f"//@*[namespace-uri() = '{uri}']", '2.0'))
        equivalences.append((f'//Q{{{uri}}}*', f"//*[namespace-uri() = '{uri}']", '3.0'))
    for t in wtrees:
        rn = get_node_tree(ET.ElementTree(T.realise(t, 'et')), namespaces=NSMAP)
        for lhs, rhs, since in equivalences:
            for version in ('2.0', '3.0', '3.1'):
                if version < since:
                    continue
                n += 1
                try:
                    a, b = _select_ep(version, lhs, rn, None), _select_ep(version, rhs, rn, None)
                except ElementPathError as e:
                    bad('a wildcard or braced name test raises', expr=lhs, version=version, err=str(e)[:100], tree=repr(t)[:200])
                    continue
                if [id(x) for x in a] != [id(x) for x in b]:
                    kind = 'attribute' if '@' in lhs else 'element'
                    form = '*:local' if '*:' in lhs else ('prefix:*' if ':*' in lhs else ('Q{uri}' if 'Q{' in lhs else 'QName'))
                    bad(f'a name test ({form}, {kind}) does not select the nodes with that expanded name', expr=lhs, equivalent=rhs, version=version,
                        got=[getattr(x, 'name', None) for x in a][:8], expected=[getattr(x, 'name', None) for x in b][:8], tree=repr(t)[:200])
    # a default element namespace in the static context (2.0+): it applies to unprefixed element name tests only - not to Q{}local, not to attributes
    dmap = dict(NSMAP)
    dmap[''] = 'urn:x'
    dflt = [('//Q{}' + loc, f"//*[local-name() = '{loc}' and namespace-uri() = '']", '3.0') for loc in ('a', 'b', 'ab')] + \
           [('//' + loc, f"//*[local-name() = '{loc}' and namespace-uri() = 'urn:x']", '2.0') for loc in ('a', 'b', 'ab')] + \
           [('//*/child::Q{}' + loc, f"//*/*[local-name() = '{loc}' and namespace-uri() = '']", '3.0') for loc in ('a', 'b')] + \
           [('//@' + loc, f"//@*[local-name() = '{loc}' and namespace-uri() = '']", '2.0') for loc in ('k', 'id')] + \
           [('//@Q{}' + loc, f"//@*[local-name() = '{loc}' and namespace-uri() = '']", '3.0') for loc in ('k', 'id')] + \
           [('//Q{urn:x}b', "//*[local-name() = 'b' and namespace-uri() = 'urn:x']", '3.0'), ('//Q{urn:y}bb', "//*[local-name() = 'bb' and namespace-uri() = 'urn:y']", '3.0'),
            ('//*:b', "//*[local-name() = 'b']", '2.0'), ('//q:tab/b', "//*[local-name() = 'tab']/*[local-name() = 'b' and namespace-uri() = 'urn:x']", '2.0'),
            ('//q:tab/Q{}b', "//*[local-name() = 'tab']/*[local-name() = 'b' and namespace-uri() = '']", '3.0')]
    for t in wtrees[-3:]:
        rn = get_node_tree(ET.ElementTree(T.realise(t, 'et')), namespaces=dmap)
        for lhs, rhs, since in dflt:
            for version in ('2.0', '3.0', '3.1'):
                if version < since:
                    continue
                n += 1
                try:
                    a = list(PARSERS[version](namespaces=dmap).parse(lhs).select(XPathContext(root=rn)))
                    b = list(PARSERS[version](namespaces=dmap).parse(rhs).select(XPathContext(root=rn)))
                except ElementPathError as e:
                    bad('a name test raises under a default element namespace', expr=lhs, version=version, err=str(e)[:100], tree=repr(t)[:200])
                    continue
                if [id(x) for x in a] != [id(x) for x in b]:
                    bad('with a default element namespace in the static context a name test (' + ('Q{}local' if 'Q{}' in lhs else 'attribute' if '@' in lhs else 'unprefixed element') +
                        ') does not select the nodes with the expanded name it denotes', expr=lhs, equivalent=rhs, version=version,
                        got=[getattr(x, 'name', None) for x in a][:8], expected=[getattr(x, 'name', None) for x in b][:8], tree=repr(t)[:200])
    # the namespace axis holds one node per in-scope prefix (the xml prefix once, also when the caller's prefix map names it)
    xmap = dict(NSMAP)
    xmap['xml'] = 'http://www.w3.org/XML/1998/namespace'
    for t in wtrees[-3:]:
        for nsm in (NSMAP, xmap):
            et_doc = ET.ElementTree(T.realise(t, 'et'))
            for version in ('1.0', '2.0'):
                n += 1
                elems = list(PARSERS[version](namespaces=nsm).parse('//*').select(XPathContext(root=et_doc, namespaces=nsm)))
                for e in elems:
                    nodes = list(PARSERS[version](namespaces=nsm).parse('namespace::*').select(XPathContext(root=et_doc, item=e, namespaces=nsm)))
                    names = [getattr(x, 'prefix', x[0] if isinstance(x, tuple) else None) for x in nodes]
                    if len(names) != len(set(names)) or names.count('xml') != 1:
                        bad('the namespace axis of an element has a prefix twice, or not the xml prefix exactly once', version=version, prefixes=repr(names)[:80],
                            caller_map_has_xml='xml' in nsm, tree=repr(t)[:160])
                        break
    # kind tests against the node kinds that an axis holds, and the shape of the result of the public select() (a node list is a list, whatever the top operator is)
    import elementpath as _ep
    src = '<a x="1" xmlns:p="urn:p"><b y="2" p:z="9">t<c/><!--k--><?pi v?></b><d/></a>'
    nsm = {'p': 'urn:p'}
    def et_xml(text):         # xml.etree drops comments and processing instructions unless told otherwise
        return ET.XML(text, parser=ET.XMLParser(target=ET.TreeBuilder(insert_comments=True, insert_pis=True)))
    for kind, mkroot in (('xml.etree element', lambda: et_xml(src)), ('xml.etree document', lambda: ET.ElementTree(et_xml(src))), ('lxml element', lambda: LX.XML(src)),
                         ('lxml document', lambda: LX.ElementTree(LX.XML(src)))):
        lx = LX.XML(src)

        def key(x):
            return (x if isinstance(x, (str, tuple, int, float, bool)) else getattr(x, 'tag', None) if not callable(getattr(x, 'tag', None)) else x.tag.__name__)
        # XPath 1.0 against libxml2
        for expr in ('/a/namespace::node()', 'count(/a/namespace::node())', 'count(/a/namespace::text())', 'count(/a/namespace::comment())', 'count(/a/b/namespace::node()/..)',
                     'count(//namespace::node())', 'count(/a/namespace::p | /a/b)', 'name(/a/namespace::node()[2])', '/a/b/attribute::node()', 'count(/a/b/attribute::text())',
                     'count(/a/b/attribute::comment())', '/a/b/child::node()', 'count(/a/b/child::text())', 'count(/a/b/descendant-or-self::node())', '/a/b/self::node()',
                     'count(/a/b/@y/self::node())', 'count(/a/b/c/preceding-sibling::node())', 'count(/a/b/c/following-sibling::processing-instruction())',
                     '/child::*', '/child::a', '/child::a/b', 'count(/child::node())', '/descendant::c', '/descendant-or-self::node()/d', '/self::node()/a',
                     '@x | @y', 'b/@y | @x', 'b/text() | d/text()', 'attribute::x', 'b/attribute::*', '(b | d)[1]', 'b/c | b/c'):
            if 'document' in kind and not expr.startswith(('/', 'count(/', 'name(/')):
                continue          # relative paths: the context item of libxml2 is the root element
            n += 1
            root = mkroot()
            try:
                got = _ep.select(root, expr, namespaces=nsm, parser=PARSERS['1.0'])
            except ElementPathError as e:
                got = f'error {e.code}'
            want = lx.xpath(expr, namespaces=nsm)
            gk = [key(x) for x in got] if isinstance(got, list) else got
            wk = [key(x) for x in want] if isinstance(want, list) else want
            if gk != wk:
                what = ('the namespace axis with a kind test' if 'namespace::' in expr else 'the explicit ' + expr.split('::')[0].split('/')[-1] + ' axis right after the leading / on an element root' if expr.startswith(('/child', '/desc', '/self', 'count(/child'))
                        and 'element' in kind else 'select() does not return the node list as a list' if isinstance(want, list) and not isinstance(got, list) and not str(got).startswith('error')
                        else 'a kind test on an axis')
                bad(f'XPath 1.0 select() differs from libxml2: {what}', expr=expr, root=kind, elementpath=repr(gk)[:90], libxml2=repr(wk)[:90])
        # XPath 2.0+: kind tests with arguments, on every axis; the equivalent expression is in the XPath 1.0 subset
        for expr, same in (('/a/b/attribute()', '/a/b/@*'), ('/a/b/attribute(y)', '/a/b/@y'), ('//attribute(p:z)', '//@p:z'), ('/a/b/attribute(*)', '/a/b/@*'),
                           ('/a/attribute::attribute(x)', '/a/@x'), ('/a/b/@*/self::attribute(y)', '/a/b/@y'), ('/a/attribute::element(*)', '/a/zzz'), ('/a/attribute::element(x)', '/a/zzz'),
                           ('/a/child::element(b)', '/a/b'), ('/a/element(b)/element(c)', '/a/b/c'), ('//element()', '//*'), ('/a/b/@y/self::element()', '/a/zzz'),
                           ('/a/child::attribute()', '/a/zzz'), ('/a/self::attribute()', '/a/zzz'), ('/a/b/parent::attribute()', '/a/zzz'), ('/a/descendant::attribute(y)', '/a/zzz'),
                           ('/a/b/child::text()', '/a/b/text()'), ('/a/b/attribute::text()', '/a/zzz'), ('/a/namespace::namespace-node()', '/a/namespace::*'),
                           ('/a/b/child::comment()', '/a/b/comment()'), ('/a/b/child::document-node()', '/a/zzz')):
            for version in ('2.0', '3.1'):
                if version == '2.0' and 'namespace-node' in expr:
                    continue          # a kind test of XPath 3.0
                n += 1
                root = mkroot()
                try:
                    g = _ep.select(root, expr, namespaces=nsm, parser=PARSERS[version])
                    w = _ep.select(mkroot(), same, namespaces=nsm, parser=PARSERS[version])
                except ElementPathError as e:
                    bad('a kind test raises', expr=expr, version=version, err=str(e)[:90])
                    continue
                gk, wk = ([key(x) for x in v] if isinstance(v, list) else v for v in (g, w))
                if gk != wk:
                    what = f"attribute() after the explicit {expr.split('::')[0].split('/')[-1]} axis selects attribute nodes" if 'attribute(' in expr and same == '/a/zzz' else \
                        'element() selects a node that is not an element' if 'element(' in expr and same == '/a/zzz' else 'a kind test with arguments'
                    bad(f'XPath 2.0+: {what}', expr=expr, equivalent=same, version=version, root=kind, got=repr(gk)[:80], expected=repr(wk)[:80])
        for expr, same in (('//attribute(Q{urn:p}z)', '//@p:z'), ('/a/b/attribute(Q{}y)', '/a/b/@y')):
            n += 1
            try:
                g, w = _ep.select(mkroot(), expr, namespaces=nsm, parser=PARSERS['3.1']), _ep.select(mkroot(), same, namespaces=nsm, parser=PARSERS['3.1'])
            except ElementPathError as e:
                bad('a kind test raises', expr=expr, version='3.1', err=str(e)[:90])
                continue
            if g != w:
                bad('XPath 3.0+: a kind test with a braced name', expr=expr, equivalent=same, root=kind, got=repr(g)[:80], expected=repr(w)[:80])
    fails = [{'key': k, 'items': it[:4], 'count': len(it), 'what': f'{k}: e.g. {it[0]}'} for k, it in fam.items()]
    return {'evaluations': n, 'distinct': n, 'exhaustive': False,
            'scope': f'{len(trees)} trees (all shapes up to {5 if tier == "quick" else 6} nodes with seeded decorations, 2 hand-written trees with nested same-named and '
            f'namespaced elements) x {len(HAND)} hand-written + up to {per_tree} generated paths each (12 axes, name/kind tests, 28 predicates, /, //, parenthesised and '
            'union sub-paths) x a sampled context node: XPath 1.0 against libxml2 on the same abstract tree, xml.etree against lxml, 2.0/3.0/3.1 against 1.0, '
            'document order and uniqueness by oracle rank; the public call form with the caller\'s ElementTree object as context item against the node form; '
            'wildcard, prefixed and braced name tests against local-name()/namespace-uri() predicates (2.0-3.1)', 'failures': fails}


def _family(expr):
    import re
    if re.search(r"(@[\w:*]+|attribute::[\w:*()]+)(\[[^\]]*\])*(/+\.)*/+following::", expr):
        return 'following axis from an attribute node'
    axes = sorted(set(re.findall(r'([a-z-]+)::', expr)))
    rev = [a for a in axes if a in ('ancestor', 'ancestor-or-self', 'preceding', 'preceding-sibling', 'parent')]
    tag = 'reverse axis ' + rev[0] if rev else ('axis ' + axes[0] if axes else 'abbreviated steps')
    if '[' in expr:
        tag += ' with predicate'
    if expr.startswith('(') or '|' in expr:
        tag += ', parenthesised'
    return tag


_REPLAY_CACHE = {}


def _replay(f):
    if 'r' not in _REPLAY_CACHE:         # one re-run per process serves every recorded failure
        _REPLAY_CACHE['r'] = path_differential('quick', 0)
    return all(x['key'] != f['key'] for x in _REPLAY_CACHE['r']['failures'])


BOUNDED = [Bounded('paths_vs_libxml2_and_across_versions', path_differential, _replay)]
