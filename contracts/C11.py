"""C11 - dates, times and durations follow the proleptic Gregorian timeline.

Spec functions: the proleptic Gregorian calendar over astronomical year numbers
(year 0 = 1 BCE is a leap year), written from the calendar rule itself:
  leap(y)  <=>  4 | y  and  (100 does not divide y  or  400 | y)
  rata(y, m, d) = ordinal of the date, 0001-01-01 = 1   (closed form)
The spec is validated natively against datetime.date.toordinal on every run (GROUND).
"""
from __future__ import annotations

import calendar
import decimal
import datetime

from pyvc.values import *  # noqa
from pyvc.contract import Contract, Case, Lemma
from pyvc.specprims import *  # noqa
from .common import *  # noqa
from .bounded import Bounded

from elementpath import helpers


def leap(y):
    return y % 4 == 0 and (y % 100 != 0 or y % 400 == 0)


def dim(y, m):
    """days in month m of astronomical year y"""
    if m == 2:
        return 29 if leap(y) else 28
    if m == 4 or m == 6 or m == 9 or m == 11:
        return 30
    return 31


def L(p):
    """number of leap years among the astronomical years 1..p (negative count for p <= 0)"""
    return p // 4 - p // 100 + p // 400


def days_before_year(y):
    """days from 0001-01-01 to y-01-01 (negative for y <= 0)"""
    return 365 * (y - 1) + L(y - 1)


CUM = (0, 0, 31, 59, 90, 120, 151, 181, 212, 243, 273, 304, 334)


def days_before_month(y, m):
    return CUM[m] + (1 if m > 2 and leap(y) else 0)


def rata(y, m, d):
    return days_before_year(y) + days_before_month(y, m) + d


SPECS = [leap, dim, L, days_before_year, days_before_month, rata]


def fn(name):
    return lambda: getattr(helpers, name)


def run(f, *a):
    return run_native(lambda: f(*a))


def ymd_samples(rng):
    for y in (-401, -400, -101, -100, -5, -4, -1, 0, 1, 4, 100, 400, 1900, 2000, 2024, 10000, 2 ** 31):
        for m in range(1, 13):
            for d in (1, 28, 29, 30, 31):
                yield {'year': y, 'month': m, 'day': d}
    while True:
        yield {'year': rng.randint(-10 ** 6, 10 ** 6), 'month': rng.randint(1, 12), 'day': rng.randint(1, 31)}


CONTRACTS = [
    Contract('adjust_day', 'C11', fn('adjust_day'),
             lambda S, ex: Case([S.int('year'), S.int('month'), S.int('day')]),
             pre=["1 <= month <= 12", "1 <= day <= 31"],
             post=[('clamps_to_month_length', "returned and result == min(day, dim(year, month))")],
             specs=SPECS, native=lambda i: run(helpers.adjust_day, i['year'], i['month'], i['day']),
             samples=ymd_samples),
]


# days_from_common_era: the closed form is tied to the calendar rule by induction over the
# year: a base case and two step lemmas (the induction principle itself is the trusted step).

def lemma_dfce_base():
    return helpers.days_from_common_era(0)


def lemma_dfce_step_ce(y):
    """y >= 1: days up to the end of year y = days up to the end of year y-1 + length of year y"""
    return helpers.days_from_common_era(y) - helpers.days_from_common_era(y - 1)


def lemma_dfce_step_bce(y):
    """internal year y <= -1 is astronomical year y + 1: going one year further back adds
    the length of that year"""
    return helpers.days_from_common_era(y + 1) - helpers.days_from_common_era(y)


def year_samples(lo, hi):
    def gen(rng):
        for y in (lo, lo + 1, lo + 2, lo + 3, lo + 4, lo + 99, lo + 100, lo + 399, lo + 400, hi - 400, hi - 100,
                  hi - 4, hi - 1, hi):
            if lo <= y <= hi:
                yield {'y': y}
        while True:
            yield {'y': rng.randint(lo, hi)}
    return gen


INL = {'days_from_common_era', 'months2days', 'adjust_day'}
CONTRACTS += [
    Contract('days_from_common_era.base', 'C11', lambda: lemma_dfce_base, lambda S, ex: Case([]),
             post=[('zero', "returned and result == 0")], specs=SPECS, lemma=True, inline=INL,
             native=lambda i: run(lemma_dfce_base), samples=lambda rng: iter([{}])),
    Contract('days_from_common_era.step_ce', 'C11', lambda: lemma_dfce_step_ce,
             lambda S, ex: Case([S.int('y')]), pre=["y >= 1"],
             post=[('adds_year_length', "returned and result == (366 if leap(y) else 365)")],
             specs=SPECS, lemma=True, inline=INL, native=lambda i: run(lemma_dfce_step_ce, i['y']),
             samples=year_samples(1, 10 ** 7)),
    Contract('days_from_common_era.step_bce', 'C11', lambda: lemma_dfce_step_bce,
             lambda S, ex: Case([S.int('y')]), pre=["y <= -1"],
             post=[('adds_year_length', "returned and result == (366 if leap(y + 1) else 365)")],
             specs=SPECS, lemma=True, inline=INL, native=lambda i: run(lemma_dfce_step_bce, i['y']),
             samples=year_samples(-10 ** 7, -1)),
    # the same facts against the closed-form ordinal (ties days_from_common_era to rata)
    Contract('days_from_common_era.ce_closed_form', 'C11', fn('days_from_common_era'),
             lambda S, ex: Case([S.int('y')]), pre=["y >= 1"],
             post=[('days_to_end_of_year', "returned and result == days_before_year(y + 1)")],
             specs=SPECS, native=lambda i: run(helpers.days_from_common_era, i['y']), samples=year_samples(1, 10 ** 7)),
    Contract('days_from_common_era.bce_closed_form', 'C11', fn('days_from_common_era'),
             lambda S, ex: Case([S.int('y')]), pre=["y <= -1"],
             post=[('days_back_to_start_of_year', "returned and result == days_before_year(y + 1)")],
             specs=SPECS, native=lambda i: run(helpers.days_from_common_era, i['y']), samples=year_samples(-10 ** 7, -1)),
]


# months2days: one contract per (start month, target month) pair; year and the number of
# whole years in the delta are unbounded symbolic integers.

def m2d_case(month, r):
    def setup(S, ex):
        year = S.int('year')
        q = S.int('q')
        delta = VInt(12 * q.t + (r - (month - 1)))
        return Case([year, VInt(month), delta], names={'month': VInt(month), 'delta': delta, 'r': VInt(r)},
                    hooks={('fn', 'leapdays'): leapdays_hook}, label=f'm={month},r={r}')
    return setup


def m2d_native(month, r):
    def native(i):
        return run(helpers.months2days, i['year'], month, 12 * i['q'] + r - (month - 1))
    return native


def m2d_samples(rng):
    for y in (-401, -400, -101, -100, -5, -4, -1, 0, 1, 3, 4, 100, 400, 1900, 2000, 2024, 10000):
        for q in (-401, -100, -4, -1, 0, 1, 3, 4, 100, 400):
            yield {'year': y, 'q': q}
    while True:
        yield {'year': rng.randint(-10 ** 5, 10 ** 5), 'q': rng.randint(-10 ** 4, 10 ** 4)}


# L (leap years up to a year) is kept opaque in the months2days obligations; what is known about
# it comes from two lemmas proved with the definition revealed:
L_STEP = Lemma('L_step', ['t'], "L(t) == L(t - 1) + (1 if leap(t) else 0)", SPECS)


def lemma_leapdays(y1, y2):
    return calendar.leapdays(y1, y2)


CONTRACTS.append(L_STEP.contract('C11'))
CONTRACTS.append(Contract(
    'lemma.leapdays_is_L_difference', 'C11', lambda: lemma_leapdays,
    lambda S, ex: Case([S.int('y1'), S.int('y2')]),
    post=[('leapdays', "returned and result == L(y2 - 1) - L(y1 - 1)")], specs=SPECS, lemma=True,
    native=lambda i: run(lemma_leapdays, i['y1'], i['y2']),
    samples=lambda rng: ({'y1': rng.randint(-5000, 5000), 'y2': rng.randint(-5000, 5000)} for _ in iter(int, 1)),
    notes=['calendar.leapdays is interpreted from the stdlib source (T-DEP)']))


def leapdays_hook(ex, args, kwargs):
    """calendar.leapdays(y1, y2) == L(y2 - 1) - L(y1 - 1): lemma.leapdays_is_L_difference"""
    f = z3.Function('opaque_L', z3.IntSort(), z3.IntSort())
    return VInt(f(args[1].t - 1) - f(args[0].t - 1))


import z3  # noqa: E402

for month in range(1, 13):
    for r in range(12):
        c = Contract(
            f'months2days.m{month}.r{r}', 'C11', fn('months2days'), m2d_case(month, r),
            post=[('equals_ordinal_difference',
                   "returned and result == rata(year + q, r + 1, 1) - rata(year, month, 1)")],
            specs=SPECS, native=m2d_native(month, r), samples=m2d_samples, timeout_s=20,
            opaque={'L'},
            use_lemmas=[L_STEP.instance(t='year'), L_STEP.instance(t='year + q')],
            notes=['months2days: L (leap-year count) is opaque; lemma instances L_step(year), L_step(year+q) and '
                   'lemma.leapdays_is_L_difference are assumed here and proved as separate contracts'])
        c.extra_hooks = {('fn', 'leapdays'): leapdays_hook}
        CONTRACTS.append(c)


# ---- GROUND: the spec calendar equals datetime's proleptic Gregorian ordinal ---------------

def spec_vs_datetime(tier, seed):
    import random
    rng = random.Random(seed)
    n = bad = 0
    fails = []
    years = list(range(1, 402)) + [1582, 1600, 1900, 1999, 2000, 2024, 2100, 9999]
    if tier == 'thorough':
        years = list(range(1, 10000))
    for y in years:
        for m in range(1, 13):
            for d in (1, dim(y, m)):
                n += 1
                if rata(y, m, d) != datetime.date(y, m, d).toordinal():
                    fails.append({'key': f'{y}-{m}-{d}', 'what': 'rata != toordinal'})
            import calendar
            if dim(y, m) != calendar.monthrange(y, m)[1]:
                fails.append({'key': f'dim {y}-{m}', 'what': 'dim != monthrange'})
    return {'obligations': n, 'discharged': n - len(fails), 'evaluations': n, 'distinct': n, 'exhaustive': tier == 'thorough',
            'scope': f'{len(years)} years x 12 months x first/last day: spec rata()/dim() == datetime.date.toordinal()/calendar.monthrange',
            'failures': fails}


GROUND = [Bounded('spec_calendar_vs_datetime', spec_vs_datetime)]

NOT_DECIDED = [
    'years 1..9999: calendar arithmetic is delegated to datetime (assumed contract T-DT)',
]


# ---- deductive: Duration.fromstring combines the matched fields exactly (real code; the regular expression match is havocked) -----------
from elementpath.datatypes import Duration as _Duration, DayTimeDuration as _DTD, YearMonthDuration as _YMD     # noqa: E402


class _Match:
    pass


def fromstring_case(cls_):
    """fields of a matched lexical form: sign (None or '-'), years, months, days, hours, minutes (non-negative integers) and seconds (a non-negative
    decimal); absent fields are None in the real match object and contribute 0: they are modelled as present with any value >= 0."""
    def setup(S, ex):
        neg = S.bool('negative')
        y, mo, d, h, mi = (S.int(n) for n in ('y', 'mo', 'd', 'h', 'mi'))
        sec = S.dec('s')
        text = S.str('text')
        made = {}

        def match(ex, node, a, kw):
            return VObj(_Match, {}, name='match')

        def groups(ex, node, a, kw):
            sign = NONE
            if ex.branch(neg.t):
                sign = lift('-')
            if cls_ is _DTD:
                return VTuple([sign, NONE, NONE, d, h, mi, sec])          # the fields of the other kind did not participate in the match
            if cls_ is _YMD:
                return VTuple([sign, y, mo, NONE, NONE, NONE, NONE])
            return VTuple([sign, y, mo, d, h, mi, sec])

        def construct(ex, node, a, kw):
            made['months'] = kw.get('months', VInt(0))
            made['seconds'] = kw.get('seconds', VInt(0))
            return VObj(_Match, {'months': made['months'], 'seconds': made['seconds']}, name='duration')
        hooks = {'cls.pattern.match': match, 'match.groups': groups, 'cls': construct, 'text.strip': lambda ex, node, a, kw: text, 'collapse_white_spaces': lambda ex, node, a, kw: text}
        return Case([VNative(cls_), text], hooks=hooks, names={'negative': neg})
    return setup


_FIELDS_PRE = ["y >= 0 and mo >= 0 and d >= 0 and h >= 0 and mi >= 0 and s >= 0", "s <= 9223372036854775808"]     # beyond: OverflowError (FODT0002)
for _cls, _name in ((_Duration, 'duration'), (_DTD, 'dayTimeDuration'), (_YMD, 'yearMonthDuration')):
    _months = "(12 * y + mo)"
    _secs = "(86400 * d + 3600 * h + 60 * mi + s)"
    if _cls is _Duration:
        _post = [('months_and_seconds_are_the_exact_totals_with_the_sign',
                  f"returned and result.months == (-{_months} if negative else {_months}) and result.seconds == (-{_secs} if negative else {_secs})")]
    elif _cls is _DTD:
        _post = [('seconds_are_the_exact_total_with_the_sign', f"returned and result.seconds == (-{_secs} if negative else {_secs})")]
    else:
        _post = [('months_are_the_exact_total_with_the_sign', f"returned and result.months == (-{_months} if negative else {_months})")]
    def _native(i, _cls=_cls):
        import decimal as _d
        sec = format(_d.Decimal(i['s']), 'f')
        if _cls is _DTD:
            text = f"{'-' if i['negative'] else ''}P{i['d']}DT{i['h']}H{i['mi']}M{sec}S"
        elif _cls is _YMD:
            text = f"{'-' if i['negative'] else ''}P{i['y']}Y{i['mo']}M"
        else:
            text = f"{'-' if i['negative'] else ''}P{i['y']}Y{i['mo']}M{i['d']}DT{i['h']}H{i['mi']}M{sec}S"
        return run(_cls.fromstring, text)
    CONTRACTS.append(Contract(f'Duration.fromstring.{_name}', 'C11', (lambda: _Duration.fromstring.__func__), fromstring_case(_cls),
                              pre=_FIELDS_PRE, post=_post, native=_native, expect_min_obligations=1,
                              samples=lambda rng: ({'negative': rng.random() < 0.5, 'y': rng.randint(0, 50), 'mo': rng.randint(0, 30), 'd': rng.randint(0, 400),
                                                    'h': rng.randint(0, 50), 'mi': rng.randint(0, 200), 's': decimal.Decimal(rng.randint(0, 10 ** 6)) / 1000, 'text': ''}
                                                   for _ in iter(int, 1)),
                              notes=['the regular expression match is havocked: its groups are arbitrary non-negative fields; a group that did not participate (None) '
                                     'is modelled by the value 0 (for the two subtypes the code also rejects a participating zero field of the other kind: lexical_space_grid in C10)']))


# ======================================================================================================================
# BOUNDED stand-in: the timeline methods of the date/time classes (todelta, fromdelta, _compare, _operation and the
# adjust-to-timezone helpers build and take apart datetime.datetime objects: outside the deductive subset).  Reference:
# an integer day count of the proleptic Gregorian calendar written here (civil-from-days arithmetic), exact rationals for
# the time of day.
# ======================================================================================================================
from fractions import Fraction              # noqa: E402
import itertools                            # noqa: E402
from elementpath import XPathContext        # noqa: E402
from elementpath.exceptions import ElementPathError     # noqa: E402
from elementpath.xpath31 import XPath31Parser           # noqa: E402


# ---- deductive: AbstractDateTime.__init__ - the 24:00:00 roll-over and the proxy year of values outside 0001..9999 (real code; datetime.datetime is a ghost record) --
from elementpath.datatypes.datetime import AbstractDateTime as _ADT, DateTime as _DateTime       # noqa: E402


class _DTRec:
    """ghost record of the datetime.datetime built by the constructor"""


def init_case(S, ex):
    year, month, day = S.int('year'), S.int('month'), S.int('day')
    hour, minute, second, micro = S.int('hour'), S.int('minute'), S.int('second'), S.int('microsecond')
    me = VObj(_DateTime, {'_year': VInt(0), '_dt': NONE}, name='self')
    ghost = VObj(_DTRec, {'built': VBool(False), 'y': VInt(0), 'mo': VInt(0), 'd': VInt(0), 'h': VInt(0), 'plus_one_day': VBool(False)}, name='ghost')

    def mk_datetime(ex, node, a, kw):
        ghost.fields.update({'built': VBool(True), 'y': a[0], 'mo': a[1], 'd': a[2], 'h': a[3]})
        return VObj(_DTRec, {'year': a[0], 'month': a[1], 'day': a[2], 'hour': a[3]}, name='dt')

    def binop(ex, op, a, b):
        if op == '+' and isinstance(a, VObj) and a.pycls is _DTRec:
            # adding the one-day delta: recorded, the resulting calendar fields are not modelled (a fresh record)
            ghost.fields['plus_one_day'] = VBool(True)
            return VObj(_DTRec, {'year': VInt(ex.fresh('y_next', z3.IntSort())), 'month': VInt(ex.fresh('m_next', z3.IntSort())),
                                 'day': VInt(ex.fresh('d_next', z3.IntSort())), 'hour': a.fields['hour']}, name='dt+1')
        return None
    hooks = {'datetime.datetime': mk_datetime, 'binop': binop, 'isleap': lambda ex, node, a, kw: VBool(ex.spec_call('leap', [a[0]]) if hasattr(ex, 'spec_call') else
                                                                                                        z3.Or(z3.And(a[0].t % 4 == 0, a[0].t % 100 != 0), a[0].t % 400 == 0))}
    return Case([me, year, month, day, hour, minute, second, micro, NONE], hooks=hooks, names={'ghost': ghost, 'me': me})


def succ_year(y):
    """the year after y in the numbering without a year zero"""
    return 1 if y == -1 else y + 1


CONTRACTS.append(Contract(
    'AbstractDateTime.__init__.end_of_day', 'C11', lambda: _ADT.__init__, init_case,
    pre=["year != 0 and -2147483648 <= year <= 2147483647", "1 <= month <= 12 and 1 <= day <= 31", "0 <= hour <= 24 and 0 <= minute <= 59 and 0 <= second <= 59 and 0 <= microsecond <= 999999",
         "hour != 24 or (minute == 0 and second == 0 and microsecond == 0)"],
    post=[('a_datetime_is_built', "returned and ghost.built"),
          ('24h_on_31_december_is_1_january_of_the_next_year',
           "not (hour == 24 and month == 12 and day == 31) or (ghost.mo == 1 and ghost.d == 1 and ghost.h == 0 and not ghost.plus_one_day and "
           "(ghost.y == succ_year(year) if 1 <= succ_year(year) <= 9999 else (me._year == succ_year(year) and ghost.y == (4 if leap(succ_year(year) if succ_year(year) > 0 else succ_year(year) + 1) else 6))))"),
          ('24h_on_another_day_is_midnight_plus_one_day',
           "not (hour == 24 and not (month == 12 and day == 31)) or (ghost.h == 0 and ghost.plus_one_day and ghost.mo == month and ghost.d == day)"),
          ('other_times_are_kept', "hour == 24 or (ghost.h == hour and ghost.mo == month and ghost.d == day and not ghost.plus_one_day)"),
          ('years_outside_0001_9999_use_a_proxy_year_of_the_same_leapness',
           "hour == 24 or 1 <= year <= 9999 or (me._year == year and ghost.y == (4 if leap(year if year > 0 else year + 1) else 6))"),
          ('years_0001_9999_are_built_directly', "hour == 24 or not (1 <= year <= 9999) or ghost.y == year")],
    specs=SPECS + [succ_year], native=None, expect_min_obligations=6,
    notes=['datetime.datetime(...) is a ghost record of its arguments; `+ one day` on it is recorded, its calendar result is not modelled (covered by the bounded '
           'stand-in components_constructors_and_implicit_timezone)']))


# ---- Timezone.fromduration: the duration of the second argument of the adjust-to-timezone functions -------------------------------------------
# accepted exactly when it is a whole number of minutes within +/-14:00 (F&O 9.6: FODT0003 otherwise), and then the offset is that many seconds
from elementpath.datatypes.datetime import Timezone as _TZ, DayTimeDuration as _DTDur     # noqa: E402


class _TDRec:       # ghost record of a datetime.timedelta(seconds=...) / of the Timezone built from it
    pass


def fromduration_case(S, ex):
    dur = VObj(_DTDur, {'months': VInt(0), 'seconds': S.dec('seconds')}, name='duration')
    ghost = VObj(_TDRec, {'built': VBool(False), 'offset_seconds': VInt(0)}, name='ghost')

    def mk_timedelta(ex, node, a, kw):
        return VObj(_TDRec, {'seconds': kw['seconds']}, name='td')

    def mk_timezone(ex, node, a, kw):
        ghost.fields.update({'built': VBool(True), 'offset_seconds': a[0].fields['seconds']})
        return VObj(_TZ, {}, name='tz')
    return Case([VNative(_TZ), dur], hooks={'datetime.timedelta': mk_timedelta, 'cls': mk_timezone}, names={'ghost': ghost})


if 'out of the range' in (__import__('inspect').getsource(_TZ.fromduration)):
    CONTRACTS.append(Contract(
        'Timezone.fromduration', 'C11', lambda: _TZ.fromduration.__func__, fromduration_case,
        pre=['-2 ** 63 <= exact(seconds) and exact(seconds) <= 2 ** 63'],      # the representation invariant of Duration (its constructor rejects anything else)
        post=[('accepted_iff_whole_minutes_within_14_hours', "returned == (exact(seconds) == 60 * floor_(exact_div(exact(seconds), 60)) and -50400 <= exact(seconds) and exact(seconds) <= 50400)"),
              ('offset_is_the_duration', "not returned or (ghost.built and ghost.offset_seconds == floor_(exact(seconds)))"),
              ('rejection_is_a_ValueError', "returned or raised_name == 'ValueError'")],
        native=lambda i: run(lambda sec: _TZ.fromduration(_DTDur(seconds=sec)), i['seconds']), expect_min_obligations=3))


def _days_from_civil(y, m, d):
    """Days from 0001-01-01 (astronomical year numbering, year 0 exists)."""
    y -= m <= 2
    era = y // 400           # floor division (the C original truncates, hence its y - 399 adjustment)
    yoe = y - era * 400
    doy = (153 * (m + (-3 if m > 2 else 9)) + 2) // 5 + d - 1
    doe = yoe * 365 + yoe // 4 - yoe // 100 + doy
    return era * 146097 + doe - 306        # 0001-01-01 -> 0


def _civil_from_days(z):
    z += 306
    era = z // 146097
    doe = z - era * 146097
    yoe = (doe - doe // 1460 + doe // 36524 - doe // 146096) // 365
    y = yoe + era * 400
    doy = doe - (365 * yoe + yoe // 4 - yoe // 100)
    mp = (5 * doy + 2) // 153
    d = doy - (153 * mp + 2) // 5 + 1
    m = mp + (3 if mp < 10 else -9)
    return y + (m <= 2), m, d


def _lex(y_astro, version):
    """Lexical year of an astronomical year for an XSD version."""
    y = y_astro if version == '1.1' or y_astro > 0 else y_astro - 1
    return ('-' if y < 0 else '') + f'{abs(y):04d}'


def _instant(y_astro, mo, d, h, mi, s, tz_minutes):
    """Seconds from 0001-01-01T00:00:00Z as an exact rational (no timezone = UTC, the implicit timezone of the context used)."""
    return Fraction(_days_from_civil(y_astro, mo, d)) * 86400 + h * 3600 + mi * 60 + Fraction(s) - (tz_minutes or 0) * 60


def _dt_text(y_astro, mo, d, h, mi, s, tz, version):
    sec = f'{int(s):02d}' + (f'{float(Fraction(s) % 1):.3f}'[1:].rstrip('0').rstrip('.') if Fraction(s) % 1 else '')
    t = f'{_lex(y_astro, version)}-{mo:02d}-{d:02d}T{h:02d}:{mi:02d}:{sec}'
    if tz is not None:
        t += 'Z' if tz == 0 else ('+' if tz > 0 else '-') + f'{abs(tz) // 60:02d}:{abs(tz) % 60:02d}'
    return t


def _seconds_of_duration(v):
    """xs:dayTimeDuration value -> exact seconds (through its canonical string, parsed here)."""
    import re
    m = re.fullmatch(r'(-)?P(?:(\d+)D)?(?:T(?:(\d+)H)?(?:(\d+)M)?(?:(\d+(?:\.\d+)?)S)?)?', str(v))
    if not m:
        return None
    sign, dd, hh, mm, ss = m.groups()
    tot = int(dd or 0) * 86400 + int(hh or 0) * 3600 + int(mm or 0) * 60 + Fraction(ss or 0)
    return -tot if sign else tot


def timeline_vs_reference(tier, seed):
    fam, n = {}, 0

    def bad(k, **w):
        fam.setdefault(k, []).append(w)
    years = [-10001, -10000, -9999, -401, -400, -101, -5, -4, -1, 0, 1, 2, 4, 100, 400, 1900, 2000, 9999, 10000, 10001, 12000]
    days = [(1, 1), (2, 28), (2, 29), (3, 1), (12, 31)]
    times = [(0, 0, 0), (0, 30, 0), (23, 59, Fraction(119, 2))]
    tzs = [None, 0, 300, -840, -30]
    if tier == 'quick':
        years = [y for y in years if y not in (-401, -101, 2, 100, 1900, 10001)]
    for version in ('1.0', '1.1'):
        parser = XPath31Parser(xsd_version=version)
        sub = parser.parse('$a - $b')
        add = parser.parse('$a + $d')
        cmp_toks = {op: parser.parse(f'$a {op} $b') for op in ('eq', 'lt', 'gt', 'le')}
        mk = parser.parse('xs:dateTime($t)')
        mkdur = parser.parse('xs:dayTimeDuration($t)')

        def ev(tok, _tz='Z', **v):
            try:
                return 'ok', tok.evaluate(XPathContext(root=None, item=1, variables=v, timezone=_tz))
            except ElementPathError as e:
                return 'err', e.code
            except Exception as e:      # noqa
                return 'crash', f'{type(e).__name__}: {e}'
        vals = []
        for y, (mo, d), t, tz in itertools.product(years, days, times, tzs):
            if (mo, d) == (2, 29) and not (y % 4 == 0 and (y % 100 != 0 or y % 400 == 0)):
                continue
            if tier == 'quick' and (len(vals) % 3 == 1) and y not in (-1, 0, 1, 9999, 10000):
                vals.append(None)
                continue
            text = _dt_text(y, mo, d, *t, tz, version)
            st, v = ev(mk, t=text)
            if st != 'ok':
                bad('a valid xs:dateTime is rejected', text=text, xsd=version, got=repr(v)[:80])
                vals.append(None)
                continue
            vals.append((text, v, _instant(y, mo, d, *t, tz)))
        vals = [x for x in vals if x is not None]
        rng = random.Random(20260925)
        pairs = [(a, b) for a in vals for b in vals]
        pairs = rng.sample(pairs, min(len(pairs), 1500 if tier == 'quick' else 20000))
        # every pair of values less than 29 hours apart whose local years differ: the timezones can reverse the order of the local fields (also across 1 BCE / 1 CE
        # and 9999 / 10000), or make two different local dates the same instant
        def local_year(text):
            return int(text[:text.index('-', 1)])
        near = [(x, y) for x in vals for y in vals if abs(x[2] - y[2]) <= 29 * 3600 and local_year(x[0]) != local_year(y[0])]
        pairs += near if tier != 'quick' else rng.sample(near, min(len(near), 1200))
        for (ta, a, ia), (tb, b, ib) in pairs:
            n += 1
            w = dict(a=ta, b=tb, xsd=version)
            for op, want in (('eq', ia == ib), ('lt', ia < ib), ('gt', ia > ib), ('le', ia <= ib)):
                got = ev(cmp_toks[op], a=a, b=b)
                got0 = ev(cmp_toks[op], None, a=a, b=b)          # no implicit timezone in the context: UTC is used
                if got != ('ok', want) or got0 != ('ok', want):
                    bad(f'value comparison of dateTimes is not the timeline order ({_range_family(ta, tb)})', **w, op=op, got=repr(got)[:60],
                        without_context_timezone=repr(got0)[:60], want=want)
                    break
            st, dlt = ev(sub, a=a, b=b)
            if st != 'ok':
                if st == 'crash':
                    bad('dateTime - dateTime raises a non-XPath error', **w, got=dlt[:80])
                continue
            secs = _seconds_of_duration(dlt)
            if secs is None or secs != ia - ib:
                bad(f'dateTime - dateTime is not the elapsed time ({_range_family(ta, tb)})', **w, got=str(dlt), want=f'{float(ia - ib)} s')
        durs = ['P1D', 'P366D', '-P366D', 'PT1H', '-PT30M', 'P365D', 'P146097D', '-P146097D', 'PT0.5S', '-P1D', 'P3652425D']
        for (ta, a, ia) in vals:
            for dt_ in (durs[:5] if tier == 'quick' else durs) + ['P150000DT0.000001S', '-P150000DT0.000001S', 'P3652425DT0.5S'][: (2 if tier == 'quick' else 3)]:
                n += 1
                st, d = ev(mkdur, t=dt_)
                st, r = ev(add, a=a, d=d)
                if st != 'ok':
                    continue
                want = ia + _seconds_of_duration(d)
                # read the result back through its string
                import re
                m = re.fullmatch(r'(-?\d{4,})-(\d\d)-(\d\d)T(\d\d):(\d\d):(\d\d(?:\.\d+)?)(Z|[+-]\d\d:\d\d)?', str(r))
                if not m:
                    bad('dateTime + duration: the result has no dateTime string', a=ta, dur=dt_, got=str(r))
                    continue
                ly = int(m.group(1))
                ya = ly if version == '1.1' or ly > 0 else ly + 1
                tzm = None if not m.group(7) else 0 if m.group(7) == 'Z' else (1 if m.group(7)[0] == '+' else -1) * (int(m.group(7)[1:3]) * 60 + int(m.group(7)[4:6]))
                got = _instant(ya, int(m.group(2)), int(m.group(3)), int(m.group(4)), int(m.group(5)), Fraction(m.group(6)), tzm)
                if got != want:
                    bad(f'dateTime + dayTimeDuration is not the shifted instant ({_range_family(ta, str(r))})', a=ta, dur=dt_, xsd=version, got=str(r),
                        off_by_seconds=float(got - want))
                st2, back = ev(sub, a=r, b=d) if False else ev(parser.parse('$r - $d'), r=r, d=d)
                if st2 == 'ok' and ev(cmp_toks['eq'], a=back, b=a) != ('ok', True):
                    bad('(d + dur) - dur is not d', a=ta, dur=dt_, xsd=version, got=str(back))
    # frame: the adjust-to-timezone functions and arithmetic do not modify their operands
    from elementpath.datatypes import DateTime, Date, Time, DayTimeDuration
    for expr, mkv in (("adjust-dateTime-to-timezone($d)", lambda: DateTime.fromstring('2000-01-01T12:00:00')),
                      ("adjust-dateTime-to-timezone($d, ())", lambda: DateTime.fromstring('2000-01-01T12:00:00+05:00')),
                      ("adjust-dateTime-to-timezone($d, xs:dayTimeDuration('PT2H'))", lambda: DateTime.fromstring('2000-01-01T12:00:00')),
                      ("adjust-date-to-timezone($d)", lambda: Date.fromstring('2000-01-01')), ("adjust-date-to-timezone($d, ())", lambda: Date.fromstring('2000-01-01Z')),
                      ("adjust-time-to-timezone($d)", lambda: Time.fromstring('12:00:00')), ("adjust-time-to-timezone($d, xs:dayTimeDuration('-PT5H'))", lambda: Time.fromstring('12:00:00')),
                      ("$d + xs:dayTimeDuration('P1D')", lambda: DateTime.fromstring('2000-01-01T12:00:00')), ("$d - $d", lambda: DateTime.fromstring('2000-01-01T12:00:00Z')),
                      ("for $x in $d return (adjust-dateTime-to-timezone($x), timezone-from-dateTime($x))", lambda: DateTime.fromstring('2000-01-01T12:00:00'))):
        n += 1
        v = mkv()
        before = (str(v), v.tzinfo, hash(v))
        try:
            XPath31Parser().parse(expr).evaluate(XPathContext(root=None, item=1, variables={'d': v}, timezone='+01:00'))
        except ElementPathError:
            pass
        after = (str(v), v.tzinfo, hash(v))
        if before != after:
            bad('a date/time function modifies its argument (the value bound to a variable)', expr=expr, before=before[0], after=after[0])
    fails = [{'key': k, 'items': it[:4], 'count': len(it), 'what': f'{k}: e.g. {it[0]}'} for k, it in fam.items()]
    return {'evaluations': n, 'distinct': n, 'exhaustive': False,
            'scope': f'dateTimes on a boundary grid: {len(years)} astronomical years (around -10000, -400, -4, 0, 1, 9999/10000, 12000) x 5 days (incl. 29 February) x 3 '
            'times of day x 4 timezones, XSD 1.0 and 1.1: comparisons and differences of sampled pairs against an integer day-count reference (exact rationals), '
            'addition of 5/11 dayTimeDurations read back through the result string, (d + dur) - dur = d; argument-frame of the adjust-to-timezone functions', 'failures': fails}


def _range_family(ta, tb):
    def y(t):
        import re
        return int(re.match(r'-?\d+', t).group(0))
    ys = (y(ta), y(tb))
    if any(v > 9999 for v in ys):
        return 'years beyond 9999'
    if any(v <= 0 for v in ys):
        return 'year 0 / BCE'
    return 'years 1..9999'


import random       # noqa: E402

_CACHE = {}


def _replay_timeline(f):
    if 'r' not in _CACHE:
        _CACHE['r'] = timeline_vs_reference('quick', 0)
    return all(x['key'] != f['key'] for x in _CACHE['r']['failures'])


def components_and_constructors(tier, seed):
    """Component extraction (year/month/day/hours/minutes/seconds/timezone-from-*, *-from-duration), the two-argument fn:dateTime, timezones below one hour,
    24:00:00, and subtraction/frame with and without an implicit timezone in the context; oracles computed from the lexical fields with exact rationals."""
    import decimal as _d
    fam, n, seen = {}, 0, set()

    def bad(k, **w):
        fam.setdefault(k, []).append(w)
    P = XPath31Parser

    def ev(expr, version='1.0', timezone=None, **v):
        try:
            r = P(xsd_version=version).parse(expr).evaluate(XPathContext(root=None, item=1, variables=v, timezone=timezone))
            return 'ok', r
        except ElementPathError as e:
            return 'err', e.code.split(':')[-1] if isinstance(e.code, str) else str(e.code)
        except Exception as e:      # noqa
            return 'crash', f'{type(e).__name__}: {e}'[:90]
    years = [-10000, -1, 0, 1, 4, 1999, 2000, 9999, 10000, 123456]
    mds = [(1, 1), (2, 28), (2, 29), (12, 31), (7, 15)]
    times = [(0, 0, Fraction(0)), (7, 8, Fraction(9)), (23, 59, Fraction(119, 2)), (0, 0, Fraction(7005, 1000)), (12, 30, Fraction(123456, 1000000)), (1, 2, Fraction(1, 1000))]
    tzs = [None, 0, 330, -30, -1, -840, 840]

    def tz_text(tz):
        return '' if tz is None else 'Z' if tz == 0 else ('+' if tz > 0 else '-') + f'{abs(tz) // 60:02d}:{abs(tz) % 60:02d}'

    def sec_text(sv):
        whole, frac = int(sv), sv - int(sv)
        return f'{whole:02d}' + (('.' + str(_d.Decimal(frac.numerator) / _d.Decimal(frac.denominator)).split('.')[1]) if frac else '')

    def tz_dur(tz):
        if tz == 0:
            return 'PT0S'
        h, m = abs(tz) // 60, abs(tz) % 60
        return ('-' if tz < 0 else '') + 'PT' + (f'{h}H' if h else '') + (f'{m}M' if m else '')

    def same_num(got, want):
        return got[0] == 'ok' and not isinstance(got[1], (list, bool)) and isinstance(got[1], (int, _d.Decimal)) and Fraction(got[1]) == want
    rng = random.Random(11)
    combos = list(itertools.product(years, mds, times, tzs))
    if tier == 'quick':
        combos = rng.sample(combos, 420)
    for version in ('1.0', '1.1'):
        for y, (mo, d), (h, mi, sv), tz in combos:
            if (mo, d) == (2, 29) and not (y % 4 == 0 and (y % 100 != 0 or y % 400 == 0)):
                continue
            ly = y if version == '1.1' or y > 0 else y - 1          # lexical year
            ytext = ('-' if ly < 0 else '') + f'{abs(ly):04d}'
            date_t, time_t = f'{ytext}-{mo:02d}-{d:02d}', f'{h:02d}:{mi:02d}:{sec_text(sv)}'
            dt = f'{date_t}T{time_t}{tz_text(tz)}'
            seen.add((version, y <= 0, y > 9999, bool(sv % 1), tz is None))
            for fn_, text, want in (('year-from-dateTime', dt, ly), ('month-from-dateTime', dt, mo), ('day-from-dateTime', dt, d), ('hours-from-dateTime', dt, h),
                                    ('minutes-from-dateTime', dt, mi), ('seconds-from-dateTime', dt, sv),
                                    ('year-from-date', date_t + tz_text(tz), ly), ('month-from-date', date_t + tz_text(tz), mo), ('day-from-date', date_t + tz_text(tz), d),
                                    ('hours-from-time', time_t + tz_text(tz), h), ('minutes-from-time', time_t + tz_text(tz), mi), ('seconds-from-time', time_t + tz_text(tz), sv)):
                n += 1
                typ = 'dateTime' if 'dateTime' in fn_ else 'date' if 'date' in fn_ else 'time'
                got = ev(f'{fn_}(xs:{typ}($t))', version, t=text)
                if not same_num(got, want):
                    bad(f'{fn_} does not return the component of the value', text=text, xsd=version, got=repr(got)[:70], expected=str(want))
            for fn_, typ, text in (('timezone-from-dateTime', 'dateTime', dt), ('timezone-from-date', 'date', date_t + tz_text(tz)), ('timezone-from-time', 'time', time_t + tz_text(tz))):
                n += 1
                got = ev(f'{fn_}(xs:{typ}($t))', version, t=text)
                ok = got == ('ok', []) if tz is None else (got[0] == 'ok' and str(got[1]) == tz_dur(tz))
                if not ok:
                    bad(f'{fn_} does not return the timezone of the value', text=text, xsd=version, got=repr(got)[:70], expected='()' if tz is None else tz_dur(tz))
            # the two-argument fn:dateTime: the timezone is the one both agree on, or the only one present
            for tz2 in (None, 0, 330, -30):
                n += 1
                got = ev('string(dateTime(xs:date($a), xs:time($b)))', version, a=date_t + tz_text(tz), b=time_t + tz_text(tz2))
                if tz is not None and tz2 is not None and tz != tz2:
                    ok, want = got == ('err', 'FORG0008'), 'FORG0008'
                else:
                    rtz = tz if tz is not None else tz2
                    want = f'{date_t}T{time_t}{tz_text(rtz)}'
                    ok = got == ('ok', want)
                if not ok:
                    bad('fn:dateTime($date, $time) does not combine the components and timezones of its arguments', date=date_t + tz_text(tz), time=time_t + tz_text(tz2), xsd=version,
                        got=repr(got)[:80], expected=want)
    # 24:00:00 is the first instant of the next day, also across a year boundary and beyond year 9999
    for version in ('1.0', '1.1'):
        for y, mo, d in ((1999, 12, 31), (2000, 2, 28), (2000, 2, 29), (9999, 12, 31), (10000, 12, 31), (12345, 6, 30), (0, 12, 31), (-1, 12, 31), (-4, 2, 28)):
            ly = y if version == '1.1' or y > 0 else y - 1
            ytext = ('-' if ly < 0 else '') + f'{abs(ly):04d}'
            ny, nm, nd = _civil_from_days(_days_from_civil(y, mo, d) + 1)
            nly = ny if version == '1.1' or ny > 0 else ny - 1
            want = ('-' if nly < 0 else '') + f'{abs(nly):04d}-{nm:02d}-{nd:02d}T00:00:00'
            n += 1
            seen.add(('24h', version, y))
            got = ev('string(xs:dateTime($t))', version, t=f'{ytext}-{mo:02d}-{d:02d}T24:00:00')
            if got != ('ok', want):
                bad('xs:dateTime with 24:00:00 is not the first instant of the following day', text=f'{ytext}-{mo:02d}-{d:02d}T24:00:00', xsd=version, got=repr(got)[:70], expected=want)
    # duration + date/time in both operand orders, for every date/time type (F&O operator mapping), and xs:dateTimeStamp arithmetic (XSD 1.1)
    for typ, text in (('dateTime', '2000-02-28T23:00:00Z'), ('date', '2000-02-28'), ('time', '23:30:00'), ('dateTimeStamp', '2000-02-28T23:00:00+01:00'), ('dateTime', '-0001-12-31T00:00:00'),
                      ('dateTime', '10000-12-31T00:00:00Z'), ('dateTimeStamp', '10000-12-31T00:00:00Z')):
        for dur, dtyp in (('P1D', 'dayTimeDuration'), ('PT90M', 'dayTimeDuration'), ('-PT36H', 'dayTimeDuration'), ('P1Y1M', 'yearMonthDuration'), ('-P2M', 'yearMonthDuration')):
            if typ == 'time' and dtyp == 'yearMonthDuration':
                continue
            n += 1
            seen.add(('commute', typ, dtyp))
            version = '1.1' if typ == 'dateTimeStamp' else '1.0'
            r1 = ev(f'string(xs:{typ}($t) + xs:{dtyp}($d))', version, t=text, d=dur)
            r2 = ev(f'string(xs:{dtyp}($d) + xs:{typ}($t))', version, t=text, d=dur)
            r3 = ev(f'string((xs:{typ}($t) + xs:{dtyp}($d)) - xs:{dtyp}($d))', version, t=text, d=dur)
            r4 = ev(f'(xs:{typ}($t) + xs:{dtyp}($d)) instance of xs:{typ}', version, t=text, d=dur)
            if r1[0] != 'ok' or r1 != r2:
                bad(f'xs:{dtyp} + xs:{typ} differs from xs:{typ} + xs:{dtyp}', value=text, duration=dur, value_plus_duration=repr(r1)[:70], duration_plus_value=repr(r2)[:70])
            elif dtyp == 'dayTimeDuration' and typ != 'date' and r3 != ('ok', text):
                bad('(d + dur) - dur is not d', value=text, type=typ, duration=dur, got=repr(r3)[:70])
            if r4 != ('ok', True):
                bad(f'xs:{typ} + duration is not an xs:{typ}', value=text, duration=dur, got=repr(r4)[:70])
    # duration components
    for text, months, secs in (('P1Y2M3DT4H5M6.005S', 14, Fraction(3 * 86400 + 4 * 3600 + 5 * 60) + Fraction(6005, 1000)), ('-P1Y13M', -25, 0), ('PT36H', 0, 36 * 3600), ('P1D', 0, 86400),
                               ('-PT0.5S', 0, Fraction(-1, 2)), ('PT90M', 0, 5400), ('P13M', 13, 0), ('-P2DT3H4M5.25S', 0, -(2 * 86400 + 3 * 3600 + 4 * 60 + Fraction(21, 4))),
                               ('PT0.001S', 0, Fraction(1, 1000)), ('P400D', 0, 400 * 86400), ('PT86399.999S', 0, Fraction(86399999, 1000))):
        sm, ss = (-1 if months < 0 else 1), (-1 if secs < 0 else 1)
        am, asec = abs(months), abs(Fraction(secs))
        want = {'years-from-duration': sm * (am // 12), 'months-from-duration': sm * (am % 12), 'days-from-duration': ss * (asec // 86400),
                'hours-from-duration': ss * ((asec % 86400) // 3600), 'minutes-from-duration': ss * ((asec % 3600) // 60), 'seconds-from-duration': ss * (asec % 60)}
        for fn_, w in want.items():
            n += 1
            seen.add(('duration', fn_))
            got = ev(f'{fn_}(xs:duration($t))', t=text)
            if not same_num(got, w):
                bad(f'{fn_} does not return the component of the duration', text=text, got=repr(got)[:70], expected=str(w))
    # subtraction with and without an implicit timezone in the context, in both operand orders; operands bound to variables are not changed
    from elementpath.datatypes import DateTime, Date, Time
    for timezone, itz in ((None, 0), ('Z', 0), ('+05:00', 300), ('-00:30', -30)):
        for ta, tza in (('2000-01-01T12:00:00', None), ('2000-01-01T12:00:00+02:00', 120), ('2000-01-01T12:00:00-00:30', -30), ('2000-01-01T12:00:00Z', 0)):
            for tb, tzb in (('2000-01-02T00:00:00', None), ('2000-01-02T00:00:00-05:00', -300), ('1999-12-31T23:30:00+00:30', 30)):
                def inst(t, tzv):
                    yy, mm, dd, hh, mi_, ss_ = int(t[0:4]), int(t[5:7]), int(t[8:10]), int(t[11:13]), int(t[14:16]), int(t[17:19])
                    return _instant(yy, mm, dd, hh, mi_, ss_, itz if tzv is None else tzv)
                a, b = DateTime.fromstring(ta), DateTime.fromstring(tb)
                before = (str(a), a.tzinfo, str(b), b.tzinfo)
                n += 1
                seen.add(('implicit', timezone, tza is None, tzb is None))
                for expr, want in (('$a - $b', inst(ta, tza) - inst(tb, tzb)), ('$b - $a', inst(tb, tzb) - inst(ta, tza))):
                    got = ev(expr, timezone=timezone, a=a, b=b)
                    secs = _seconds_of_duration(got[1]) if got[0] == 'ok' else None
                    if secs != want:
                        bad('dateTime - dateTime with an operand without timezone is not the elapsed time under the implicit timezone', a=ta, b=tb, expr=expr,
                            implicit_timezone=timezone or 'none (UTC)', got=repr(got)[:60], expected_seconds=float(want))
                ia, ib = inst(ta, tza), inst(tb, tzb)
                for op, want in (('eq', ia == ib), ('lt', ia < ib), ('ge', ia >= ib), ('=', ia == ib), ('>', ia > ib), ('!=', ia != ib)):
                    n += 1
                    got = ev(f'$a {op} $b', timezone=timezone, a=a, b=b)
                    if got != ('ok', want):
                        bad('comparison of dateTimes with an operand without timezone is not the order of the instants under the implicit timezone', a=ta, b=tb, op=op,
                            implicit_timezone=timezone or 'none (UTC)', got=repr(got)[:60], expected=want)
                if (str(a), a.tzinfo, str(b), b.tzinfo) != before:
                    bad('subtraction or comparison changes the timezone of an operand bound to a variable', a=ta, b=tb, implicit_timezone=timezone or 'none', after=f'{a} {b}')
    for expr, mk_ in (("xs:date('2000-01-02Z') - $d", lambda: Date.fromstring('2000-01-01')), ("xs:time('12:00:00Z') - $d", lambda: Time.fromstring('10:00:00')),
                      ("xs:dateTime('2000-01-02T00:00:00Z') - $d", lambda: DateTime.fromstring('2000-01-01T00:00:00')), ("$d - xs:dateTime('2000-01-02T00:00:00Z')", lambda: DateTime.fromstring('2000-01-01T00:00:00')),
                      ("$d lt xs:dateTime('2000-01-02T00:00:00Z')", lambda: DateTime.fromstring('2000-01-01T00:00:00')), ("max(($d, xs:dateTime('2000-01-02T00:00:00Z')))", lambda: DateTime.fromstring('2000-01-01T00:00:00'))):
        n += 1
        v = mk_()
        before = (str(v), v.tzinfo)
        ev(expr, timezone='+03:00', d=v)
        if (str(v), v.tzinfo) != before:
            bad('an operation under an implicit timezone changes the timezone of an operand bound to a variable', expr=expr, before=before[0], after=str(v))
    # xs:time +/- dayTimeDuration is the time of day modulo 24 hours, whatever the length of the duration is (op:add-dayTimeDuration-to-time)
    for (h, mi, sv), tz in itertools.product(((0, 0, Fraction(0)), (12, 0, Fraction(0)), (23, 59, Fraction(119, 2)), (0, 30, Fraction(1, 1000000))), (None, 0, -300, 840)):
        for days, secs in ((0, 3600), (0, -3600), (3, 4500), (23, 36600), (3000000, 0), (3000000, 3600), (-800000, -46800), (730120, 1), (-730120, -1), (0, Fraction(1, 1000000))):
            for sign in ('+', '-'):
                n += 1
                seen.add(('time arithmetic', abs(days) > 700000, sign, tz is None))
                total = Fraction(days * 86400) + secs
                dtxt = ('-' if total < 0 else '') + f'P{abs(days)}DT{float(abs(Fraction(secs))):.6f}S'
                src = f'{h:02d}:{mi:02d}:{sec_text(sv)}{tz_text(tz)}'
                tod = (h * 3600 + mi * 60 + sv + (total if sign == '+' else -total)) % 86400
                hh, rem = divmod(tod, 3600)
                mm, ss = divmod(rem, 60)
                want = f'{int(hh):02d}:{int(mm):02d}:{sec_text(ss)}{tz_text(tz)}'
                got = ev(f"string(xs:time('{src}') {sign} xs:dayTimeDuration('{dtxt}'))")
                if got != ('ok', want):
                    bad('xs:time +/- dayTimeDuration is not the time of day modulo 24 hours' + (' (duration longer than 700000 days)' if abs(days) > 700000 else ''),
                        expr=f"xs:time('{src}') {sign} xs:dayTimeDuration('{dtxt}')", got=repr(got[1])[:60], want=want)
    # the quotient of two durations is an xs:decimal (exact), of both duration types
    for a_, b_, want in (('P1Y', 'P7M', Fraction(12, 7)), ('P3Y4M', '-P1Y4M', Fraction(-5, 2)), ('P1M', 'P1Y', Fraction(1, 12)), ('P2Y', 'P1Y', Fraction(2))):
        for tname, lit in (('yearMonthDuration', lambda t: f"xs:yearMonthDuration('{t}')"),):
            n += 1
            got = ev(f"for $q in {lit(a_)} div {lit(b_)} return ($q instance of xs:decimal, $q * 84)")
            ok = got[0] == 'ok' and isinstance(got[1], list) and len(got[1]) == 2 and got[1][0] is True and isinstance(got[1][1], _d.Decimal) and \
                abs(Fraction(got[1][1]) - want * 84) < Fraction(1, 10 ** 20)
            if not ok:
                bad(f'{tname} div {tname} is not the exact xs:decimal quotient', a=a_, b=b_, got=repr(got)[:80], want=f'{want} as xs:decimal')
    for a_, b_, want in (('P1D', 'PT7H', Fraction(24, 7)), ('PT1S', 'PT3S', Fraction(1, 3)), ('-P2D', 'P1D', Fraction(-2))):
        n += 1
        got = ev(f"for $q in xs:dayTimeDuration('{a_}') div xs:dayTimeDuration('{b_}') return ($q instance of xs:decimal, $q * 21)")
        ok = got[0] == 'ok' and isinstance(got[1], list) and len(got[1]) == 2 and got[1][0] is True and abs(Fraction(got[1][1]) - want * 21) < Fraction(1, 10 ** 20)
        if not ok:
            bad('dayTimeDuration div dayTimeDuration is not the exact xs:decimal quotient', a=a_, b=b_, got=repr(got)[:80], want=f'{want} as xs:decimal')
    fails = [{'key': k, 'items': it[:4], 'count': len(it), 'what': f'{k}: e.g. {it[0]}'} for k, it in fam.items()]
    return {'evaluations': n, 'distinct': len(seen), 'failures': fails, 'n_failures': len(fails),
            'scope': f'{len(combos)} dateTime/date/time values per XSD version ({len(years)} years incl. BCE, 0, >9999; 5 days; 6 times with fractional seconds; 7 timezones incl. below one hour) x '
                     '15 component functions and the two-argument fn:dateTime x 4 time timezones; 24:00:00 on 9 dates x 2 versions; 6 duration component functions on 11 durations; '
                     'subtraction in both orders under 4 implicit timezones with operand frame', 'rule': 'distinct = (XSD version, year class, fraction, timezone presence)'}


def _replay_components(f):
    if 'c' not in _CACHE:
        _CACHE['c'] = components_and_constructors('quick', 0)
    return all(x['key'] != f['key'] for x in _CACHE['c']['failures'])


def _adjust_body(tier, seed):
    """fn:adjust-dateTime/date/time-to-timezone against the F&O definitions computed on integer day counts: a value with a timezone keeps its instant and gets the
    target timezone (a date: the date of the instant of its midnight; a time: the time of day modulo 24 h); a value without timezone keeps its fields and gets the
    timezone; an empty target removes the timezone and keeps the fields; the one-argument form is the two-argument form with fn:implicit-timezone(), with a
    context timezone and (process timezone switched with TZ/tzset in this forked child) without one."""
    import os, re, time as _time
    fam, n, seen = {}, 0, set()

    def bad(k, **w):
        fam.setdefault(k, []).append(w)
    P = XPath31Parser

    def ev(expr, version='1.0', timezone=None, **v):
        try:
            return 'ok', P(xsd_version=version).parse(expr).evaluate(XPathContext(root=None, item=1, variables=v, timezone=timezone))
        except ElementPathError as e:
            return 'err', e.code.split(':')[-1] if isinstance(e.code, str) else str(e.code)
        except Exception as e:      # noqa
            return 'crash', f'{type(e).__name__}: {e}'[:90]

    def tz_text(tz):
        return '' if tz is None else 'Z' if tz == 0 else ('+' if tz > 0 else '-') + f'{abs(tz) // 60:02d}:{abs(tz) % 60:02d}'

    def tz_dur(tz):
        return ('-' if tz < 0 else '') + f'PT{abs(tz) // 60}H{abs(tz) % 60}M'

    def date_text(y, mo, d, version):
        return f'{_lex(y, version)}-{mo:02d}-{d:02d}'
    offsets = [-840, -719, -300, -30, 0, 1, 330, 600, 660, 840] if tier == 'quick' else list(range(-840, 841, 45)) + [-1, 1, -719]
    dates = [(2000, 1, 1), (2000, 3, 1), (1999, 12, 31), (1, 1, 1), (0, 12, 31), (0, 1, 1), (-1, 3, 1), (10000, 1, 1), (9999, 12, 31), (2002, 3, 7)]
    times = [(0, 0, 0), (10, 0, 0), (23, 59, 59), (12, 30, 15)]
    for version in ('1.0', '1.1'):
        for (y, mo, d) in dates:
            for a in [None] + offsets:
                for b in [None] + offsets:
                    # ---- xs:date
                    n += 1
                    seen.add(('date', a is None, b is None, None if None in (a, b) else (b - a) // 1440))
                    src = date_text(y, mo, d, version) + tz_text(a)
                    expr = f"string(adjust-date-to-timezone(xs:date('{src}'), {'()' if b is None else 'xs:dayTimeDuration(' + repr(tz_dur(b)) + ')'}))"
                    if a is None or b is None:
                        want = date_text(y, mo, d, version) + tz_text(b)
                    else:
                        want = date_text(*_civil_from_days(_days_from_civil(y, mo, d) + (b - a) // 1440), version) + tz_text(b)
                    got = ev(expr, version)
                    if got != ('ok', want):
                        kind = 'without timezone' if a is None else 'to the empty timezone' if b is None else \
                            f'moving {"forward" if b > a else "backward" if b < a else "nowhere"} over {abs((b - a) // 1440)} date boundaries' + \
                            (' across a year boundary' if _civil_from_days(_days_from_civil(y, mo, d) + (b - a) // 1440)[0] != y else '')
                        bad(f'adjust-date-to-timezone ({kind}) is not the date of the same starting instant', expr=expr, xsd=version, got=repr(got[1])[:60], want=want)
                    if (y, mo, d) not in ((2000, 3, 1), (1, 1, 1), (9999, 12, 31), (0, 1, 1)):
                        continue
                    # ---- xs:dateTime and xs:time
                    for (h, mi, sec) in times:
                        n += 1
                        seen.add(('dateTime', a is None, b is None))
                        src = _dt_text(y, mo, d, h, mi, sec, a, version)
                        tgt = '()' if b is None else f"xs:dayTimeDuration('{tz_dur(b)}')"
                        expr = f"string(adjust-dateTime-to-timezone(xs:dateTime('{src}'), {tgt}))"
                        if a is None or b is None:
                            want = _dt_text(y, mo, d, h, mi, sec, b, version)
                        else:
                            tot = _days_from_civil(y, mo, d) * 1440 + h * 60 + mi + (b - a)
                            dd, rem = divmod(tot, 1440)
                            want = _dt_text(*_civil_from_days(dd), rem // 60, rem % 60, sec, b, version)
                        got = ev(expr, version)
                        if got != ('ok', want):
                            bad('adjust-dateTime-to-timezone does not keep the instant (or the fields of a value without timezone)', expr=expr, xsd=version,
                                got=repr(got[1])[:60], want=want)
                        if (y, mo, d) != (2000, 3, 1):
                            continue
                        n += 1
                        src = f'{h:02d}:{mi:02d}:{sec:02d}' + tz_text(a)
                        expr = f"string(adjust-time-to-timezone(xs:time('{src}'), {tgt}))"
                        if a is None or b is None:
                            want = f'{h:02d}:{mi:02d}:{sec:02d}' + tz_text(b)
                        else:
                            rem = (h * 60 + mi + (b - a)) % 1440
                            want = f'{rem // 60:02d}:{rem % 60:02d}:{sec:02d}' + tz_text(b)
                        got = ev(expr, version)
                        if got != ('ok', want):
                            bad('adjust-time-to-timezone does not keep the time of day of the instant', expr=expr, xsd=version, got=repr(got[1])[:60], want=want)
    # ---- the one-argument form is the two-argument form with the implicit timezone
    one_arg = [("adjust-dateTime-to-timezone(xs:dateTime('{v}'))", "adjust-dateTime-to-timezone(xs:dateTime('{v}'), implicit-timezone())",
                ['2002-03-07T10:00:00-07:00', '2002-03-07T10:00:00', '2000-01-01T00:30:00+14:00', '0001-01-01T00:00:00+01:00']),
               ("adjust-date-to-timezone(xs:date('{v}'))", "adjust-date-to-timezone(xs:date('{v}'), implicit-timezone())", ['2002-03-07-07:00', '2002-03-07', '2000-01-01+14:00']),
               ("adjust-time-to-timezone(xs:time('{v}'))", "adjust-time-to-timezone(xs:time('{v}'), implicit-timezone())", ['10:00:00-07:00', '10:00:00', '23:30:00+14:00'])]
    from elementpath.datatypes import Timezone
    import datetime as _dtm
    saved_tz = os.environ.get('TZ')
    try:
        for env_tz, local_minutes in ((None, None), ('EST5', -300), ('XXX-5:30', 330), ('UTC0', 0)):
            if env_tz is not None:
                os.environ['TZ'] = env_tz
                _time.tzset()
            for ctx_tz in ((None,) if env_tz is not None else (Timezone(_dtm.timedelta(hours=-5)), Timezone(_dtm.timedelta(minutes=330)), Timezone(_dtm.timedelta(0)))):
                if env_tz is not None:
                    n += 1
                    got = ev('string(implicit-timezone())')
                    want = str(ev(f"string(xs:dayTimeDuration('{tz_dur(local_minutes)}'))")[1])
                    if got != ('ok', want):
                        bad('fn:implicit-timezone() without a context timezone is not the offset of the local time', TZ=env_tz, got=repr(got[1])[:40], want=want)
                for f1, f2, vs in one_arg:
                    for v in vs:
                        n += 1
                        seen.add(('one-arg', f1[:14], env_tz is not None, ctx_tz is None))
                        g1 = ev('string(' + f1.format(v=v) + ')', timezone=ctx_tz)
                        g2 = ev('string(' + f2.format(v=v) + ')', timezone=ctx_tz)
                        if g1 != g2 or g1[0] != 'ok':
                            bad('the one-argument adjust-to-timezone functions do not use the implicit timezone ' +
                                ('of the context' if ctx_tz is not None else '(no context timezone)'), expr=f1.format(v=v), TZ=env_tz, context_timezone=str(ctx_tz),
                                got=repr(g1[1])[:50], with_implicit_timezone_argument=repr(g2[1])[:50])
    finally:
        if saved_tz is None:
            os.environ.pop('TZ', None)
        else:
            os.environ['TZ'] = saved_tz
        _time.tzset()
    fails = [{'key': k, 'count': len(it), 'items': it[:3], 'what': f'{k}: e.g. {it[0]}'} for k, it in fam.items()]
    return {'evaluations': n, 'distinct': len(seen), 'failures': fails, 'n_failures': len(fails),
            'scope': f'{len(dates)} dates (BCE, year 0/1, 9999/10000, month ends) x ({len(offsets)} + none)^2 source/target timezones x XSD 1.0/1.1 for adjust-date-to-timezone; '
                     f'4 dates x {len(times)} times for adjust-dateTime-to-timezone, 1 x {len(times)} for adjust-time-to-timezone; one-argument forms with 3 context timezones and '
                     'with 3 process timezones (TZ/tzset in a forked child) against the two-argument form with implicit-timezone(); oracle: integer day counts',
            'rule': 'distinct = (function, source has timezone, target is empty, date boundaries crossed)'}


def adjust_to_timezone(tier, seed):
    from .bounded import run_isolated
    return run_isolated(_adjust_body, tier, seed, 600 if tier == 'quick' else 1800, 'the adjust-to-timezone grid')


def _replay_adjust(f):
    if 'a' not in _CACHE:
        _CACHE['a'] = adjust_to_timezone('quick', 0)
    return all(x['key'] != f['key'] for x in _CACHE['a']['failures'])


BOUNDED = [Bounded('timeline_vs_integer_day_count_reference', timeline_vs_reference, _replay_timeline),
           Bounded('components_constructors_and_implicit_timezone', components_and_constructors, _replay_components),
           Bounded('adjust_to_timezone_vs_integer_day_count_reference', adjust_to_timezone, _replay_adjust)]
