"""C11 - dates, times and durations follow the proleptic Gregorian timeline.

Spec functions: the proleptic Gregorian calendar over astronomical year numbers
(year 0 = 1 BCE is a leap year), written from the calendar rule itself:
  leap(y)  <=>  4 | y  and  (100 does not divide y  or  400 | y)
  rata(y, m, d) = ordinal of the date, 0001-01-01 = 1   (closed form)
The spec is validated natively against datetime.date.toordinal on every run (GROUND).
"""
from __future__ import annotations

import calendar
import datetime

from pyvc.values import *  # noqa
from pyvc.contract import Contract, Case, Lemma
from pyvc.specprims import *  # noqa
from .common import *  # noqa
from .bounded import Bounded

from elementpath import helpers


def leap(y):
    return y % 4 == 0 and (y % 100 != 0 or y % 400 == 0)


def dim(y, m):
    """days in month m of astronomical year y"""
    if m == 2:
        return 29 if leap(y) else 28
    if m == 4 or m == 6 or m == 9 or m == 11:
        return 30
    return 31


def L(p):
    """number of leap years among the astronomical years 1..p (negative count for p <= 0)"""
    return p // 4 - p // 100 + p // 400


def days_before_year(y):
    """days from 0001-01-01 to y-01-01 (negative for y <= 0)"""
    return 365 * (y - 1) + L(y - 1)


CUM = (0, 0, 31, 59, 90, 120, 151, 181, 212, 243, 273, 304, 334)


def days_before_month(y, m):
    return CUM[m] + (1 if m > 2 and leap(y) else 0)


def rata(y, m, d):
    return days_before_year(y) + days_before_month(y, m) + d


SPECS = [leap, dim, L, days_before_year, days_before_month, rata]


def fn(name):
    return lambda: getattr(helpers, name)


def run(f, *a):
    return run_native(lambda: f(*a))


def ymd_samples(rng):
    for y in (-401, -400, -101, -100, -5, -4, -1, 0, 1, 4, 100, 400, 1900, 2000, 2024, 10000, 2 ** 31):
        for m in range(1, 13):
            for d in (1, 28, 29, 30, 31):
                yield {'year': y, 'month': m, 'day': d}
    while True:
        yield {'year': rng.randint(-10 ** 6, 10 ** 6), 'month': rng.randint(1, 12), 'day': rng.randint(1, 31)}


CONTRACTS = [
    Contract('adjust_day', 'C11', fn('adjust_day'),
             lambda S, ex: Case([S.int('year'), S.int('month'), S.int('day')]),
             pre=["1 <= month <= 12", "1 <= day <= 31"],
             post=[('clamps_to_month_length', "returned and result == min(day, dim(year, month))")],
             specs=SPECS, native=lambda i: run(helpers.adjust_day, i['year'], i['month'], i['day']),
             samples=ymd_samples),
]


# days_from_common_era: the closed form is tied to the calendar rule by induction over the
# year: a base case and two step lemmas (the induction principle itself is the trusted step).

def lemma_dfce_base():
    return helpers.days_from_common_era(0)


def lemma_dfce_step_ce(y):
    """y >= 1: days up to the end of year y = days up to the end of year y-1 + length of year y"""
    return helpers.days_from_common_era(y) - helpers.days_from_common_era(y - 1)


def lemma_dfce_step_bce(y):
    """internal year y <= -1 is astronomical year y + 1: going one year further back adds
    the length of that year"""
    return helpers.days_from_common_era(y + 1) - helpers.days_from_common_era(y)


def year_samples(lo, hi):
    def gen(rng):
        for y in (lo, lo + 1, lo + 2, lo + 3, lo + 4, lo + 99, lo + 100, lo + 399, lo + 400, hi - 400, hi - 100,
                  hi - 4, hi - 1, hi):
            if lo <= y <= hi:
                yield {'y': y}
        while True:
            yield {'y': rng.randint(lo, hi)}
    return gen


INL = {'days_from_common_era', 'months2days', 'adjust_day'}
CONTRACTS += [
    Contract('days_from_common_era.base', 'C11', lambda: lemma_dfce_base, lambda S, ex: Case([]),
             post=[('zero', "returned and result == 0")], specs=SPECS, lemma=True, inline=INL,
             native=lambda i: run(lemma_dfce_base), samples=lambda rng: iter([{}])),
    Contract('days_from_common_era.step_ce', 'C11', lambda: lemma_dfce_step_ce,
             lambda S, ex: Case([S.int('y')]), pre=["y >= 1"],
             post=[('adds_year_length', "returned and result == (366 if leap(y) else 365)")],
             specs=SPECS, lemma=True, inline=INL, native=lambda i: run(lemma_dfce_step_ce, i['y']),
             samples=year_samples(1, 10 ** 7)),
    Contract('days_from_common_era.step_bce', 'C11', lambda: lemma_dfce_step_bce,
             lambda S, ex: Case([S.int('y')]), pre=["y <= -1"],
             post=[('adds_year_length', "returned and result == (366 if leap(y + 1) else 365)")],
             specs=SPECS, lemma=True, inline=INL, native=lambda i: run(lemma_dfce_step_bce, i['y']),
             samples=year_samples(-10 ** 7, -1)),
    # the same facts against the closed-form ordinal (ties days_from_common_era to rata)
    Contract('days_from_common_era.ce_closed_form', 'C11', fn('days_from_common_era'),
             lambda S, ex: Case([S.int('y')]), pre=["y >= 1"],
             post=[('days_to_end_of_year', "returned and result == days_before_year(y + 1)")],
             specs=SPECS, native=lambda i: run(helpers.days_from_common_era, i['y']), samples=year_samples(1, 10 ** 7)),
    Contract('days_from_common_era.bce_closed_form', 'C11', fn('days_from_common_era'),
             lambda S, ex: Case([S.int('y')]), pre=["y <= -1"],
             post=[('days_back_to_start_of_year', "returned and result == days_before_year(y + 1)")],
             specs=SPECS, native=lambda i: run(helpers.days_from_common_era, i['y']), samples=year_samples(-10 ** 7, -1)),
]


# months2days: one contract per (start month, target month) pair; year and the number of
# whole years in the delta are unbounded symbolic integers.

def m2d_case(month, r):
    def setup(S, ex):
        year = S.int('year')
        q = S.int('q')
        delta = VInt(12 * q.t + (r - (month - 1)))
        return Case([year, VInt(month), delta], names={'month': VInt(month), 'delta': delta, 'r': VInt(r)},
                    hooks={('fn', 'leapdays'): leapdays_hook}, label=f'm={month},r={r}')
    return setup


def m2d_native(month, r):
    def native(i):
        return run(helpers.months2days, i['year'], month, 12 * i['q'] + r - (month - 1))
    return native


def m2d_samples(rng):
    for y in (-401, -400, -101, -100, -5, -4, -1, 0, 1, 3, 4, 100, 400, 1900, 2000, 2024, 10000):
        for q in (-401, -100, -4, -1, 0, 1, 3, 4, 100, 400):
            yield {'year': y, 'q': q}
    while True:
        yield {'year': rng.randint(-10 ** 5, 10 ** 5), 'q': rng.randint(-10 ** 4, 10 ** 4)}


# L (leap years up to a year) is kept opaque in the months2days obligations; what is known about
# it comes from two lemmas proved with the definition revealed:
L_STEP = Lemma('L_step', ['t'], "L(t) == L(t - 1) + (1 if leap(t) else 0)", SPECS)


def lemma_leapdays(y1, y2):
    return calendar.leapdays(y1, y2)


CONTRACTS.append(L_STEP.contract('C11'))
CONTRACTS.append(Contract(
    'lemma.leapdays_is_L_difference', 'C11', lambda: lemma_leapdays,
    lambda S, ex: Case([S.int('y1'), S.int('y2')]),
    post=[('leapdays', "returned and result == L(y2 - 1) - L(y1 - 1)")], specs=SPECS, lemma=True,
    native=lambda i: run(lemma_leapdays, i['y1'], i['y2']),
    samples=lambda rng: ({'y1': rng.randint(-5000, 5000), 'y2': rng.randint(-5000, 5000)} for _ in iter(int, 1)),
    notes=['calendar.leapdays is interpreted from the stdlib source (T-DEP)']))


def leapdays_hook(ex, args, kwargs):
    """calendar.leapdays(y1, y2) == L(y2 - 1) - L(y1 - 1): lemma.leapdays_is_L_difference"""
    f = z3.Function('opaque_L', z3.IntSort(), z3.IntSort())
    return VInt(f(args[1].t - 1) - f(args[0].t - 1))


import z3  # noqa: E402

for month in range(1, 13):
    for r in range(12):
        c = Contract(
            f'months2days.m{month}.r{r}', 'C11', fn('months2days'), m2d_case(month, r),
            post=[('equals_ordinal_difference',
                   "returned and result == rata(year + q, r + 1, 1) - rata(year, month, 1)")],
            specs=SPECS, native=m2d_native(month, r), samples=m2d_samples, timeout_s=20,
            opaque={'L'},
            use_lemmas=[L_STEP.instance(t='year'), L_STEP.instance(t='year + q')],
            notes=['months2days: L (leap-year count) is opaque; lemma instances L_step(year), L_step(year+q) and '
                   'lemma.leapdays_is_L_difference are assumed here and proved as separate contracts'])
        c.extra_hooks = {('fn', 'leapdays'): leapdays_hook}
        CONTRACTS.append(c)


# ---- GROUND: the spec calendar equals datetime's proleptic Gregorian ordinal ---------------

def spec_vs_datetime(tier, seed):
    import random
    rng = random.Random(seed)
    n = bad = 0
    fails = []
    years = list(range(1, 402)) + [1582, 1600, 1900, 1999, 2000, 2024, 2100, 9999]
    if tier == 'thorough':
        years = list(range(1, 10000))
    for y in years:
        for m in range(1, 13):
            for d in (1, dim(y, m)):
                n += 1
                if rata(y, m, d) != datetime.date(y, m, d).toordinal():
                    fails.append({'key': f'{y}-{m}-{d}', 'what': 'rata != toordinal'})
            import calendar
            if dim(y, m) != calendar.monthrange(y, m)[1]:
                fails.append({'key': f'dim {y}-{m}', 'what': 'dim != monthrange'})
    return {'obligations': n, 'discharged': n - len(fails), 'evaluations': n, 'distinct': n, 'exhaustive': tier == 'thorough',
            'scope': f'{len(years)} years x 12 months x first/last day: spec rata()/dim() == datetime.date.toordinal()/calendar.monthrange',
            'failures': fails}


GROUND = [Bounded('spec_calendar_vs_datetime', spec_vs_datetime)]

NOT_DECIDED = [
    'years 1..9999: calendar arithmetic is delegated to datetime (assumed contract T-DT)',
]
