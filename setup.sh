#!/bin/sh
# Build the Python 3.12 overlay venv used by every check (offline, from the wheelhouse).
# The venv sees /venv's site-packages (elementpath editable install, lxml, xmlschema) through a .pth.
set -e
cd "$(dirname "$0")"
V=.venv312
if [ -x "$V/bin/python" ] && "$V/bin/python" -c "import z3, cvc5, jsonschema, elementpath" 2>/dev/null; then
  echo "setup: $V already usable"; exit 0
fi
rm -rf "$V"
/venv/bin/python -m venv "$V"
PIP_NO_INDEX=1 "$V/bin/python" -m pip install -q --no-index --find-links /opt/veriftools/wheels \
    z3-solver cvc5 jsonschema crosshair-tool deal icontract hypothesis
SP=$("$V/bin/python" -c "import sysconfig;print(sysconfig.get_paths()['purelib'])")
echo "import site; site.addsitedir('/venv/lib/python3.12/site-packages')" > "$SP/_verif_overlay.pth"
"$V/bin/python" -c "import z3, cvc5, jsonschema, elementpath, lxml; print('setup: ok', z3.get_version_string(), elementpath.__file__)"
