"""Symbolic AST interpreter with decision replay (one re-execution per path).

Semantics assumed (stated in DESIGN.md 2.3): Python ints are mathematical
integers; finite Decimals are exact rationals (A-DEC); floats are
{nan, +-inf, finite rational, sign} and results of finite float arithmetic are
uninterpreted (A-FP); str is a z3 String (A-STR).  Every primitive that can
raise does so through the may-raise rules coded next to it (T-RAISE).
Anything not modelled raises OutOfSubset - never a silent guess.
"""
from __future__ import annotations

import ast
import builtins
import decimal
import math
import z3

from .values import *  # noqa
from . import extract as _extract

PREC = 28  # decimal context precision of the running library (checked at run time by the driver)


class PyRaise(Exception):
    def __init__(self, exc: VExc):
        self.exc = exc


class ReturnEx(Exception):
    def __init__(self, val):
        self.val = val


class BreakEx(Exception):
    pass


class ContinueEx(Exception):
    pass


class PathEnd(Exception):
    """The current path ends here (loop cut point reached, or assumption infeasible)."""

    def __init__(self, why='cut'):
        self.why = why


class Env:
    def __init__(self, parent=None):
        self.vars: dict[str, Val] = {}
        self.parent = parent
        self.nonlocals: set[str] = set()

    def lookup(self, name):
        e = self
        while e is not None:
            if name in e.vars:
                return e.vars[name]
            e = e.parent
        return None

    def assign(self, name, val):
        if name in self.nonlocals:
            e = self.parent
            while e is not None:
                if name in e.vars:
                    e.vars[name] = val
                    return
                e = e.parent
        self.vars[name] = val


class LoopSpec:
    def __init__(self, invariants=(), variant=None, unroll=None, havoc_extra=(), havoc_hook=None):
        self.invariants = list(invariants)
        self.variant = variant
        self.unroll = unroll
        self.havoc_extra = list(havoc_extra)
        self.havoc_hook = havoc_hook      # (ex, env): havoc heap state the loop body changes through calls


class Obligation:
    def __init__(self, label, pc, formula, kind='V', origin=''):
        self.label = label
        self.pc = list(pc)
        self.formula = formula
        self.kind = kind
        self.origin = origin


class Path:
    def __init__(self):
        self.pc: list = []
        self.outcome = None           # ('return', Val) | ('raise', VExc) | ('cut', why)
        self.obligations: list[Obligation] = []
        self.effects: list = []       # (kind, target-desc, node lineno)
        self.decisions: list = []
        self.notes: list[str] = []
        self.out = None               # ghost sequence of yielded values
        self.env = None


F64 = z3.Function('f64', z3.RealSort(), z3.RealSort())   # nearest double of a real (uninterpreted)


def smart_toint(t):
    """floor of a real term, with to_int(to_real(k) + c) folded for constant c (keeps VCs linear)."""
    t = z3.simplify(t)
    if z3.is_app_of(t, z3.Z3_OP_TO_REAL):
        return t.arg(0)
    if z3.is_rational_value(t):
        import math
        from fractions import Fraction
        return z3.IntVal(math.floor(Fraction(t.numerator_as_long(), t.denominator_as_long())))
    if z3.is_add(t) and t.num_args() == 2:
        a, b = t.arg(0), t.arg(1)
        if z3.is_rational_value(b):
            a, b = b, a
        if z3.is_rational_value(a) and z3.is_app_of(b, z3.Z3_OP_TO_REAL):
            import math
            from fractions import Fraction
            c = Fraction(a.numerator_as_long(), a.denominator_as_long())
            return b.arg(0) + math.floor(c)
    return z3.ToInt(t)


def trunc_real(t):
    return z3.If(t >= 0, smart_toint(t), -smart_toint(-t))


def split_multiple(t, c: int):
    """Try to write the int term t as c*u + d with a concrete 0 <= d < c (syntactically)."""
    t = z3.simplify(t)
    args = [t.arg(k) for k in range(t.num_args())] if z3.is_add(t) else [t]
    u_parts, d = [], 0
    for a in args:
        if z3.is_int_value(a):
            d += a.as_long()
        elif z3.is_mul(a) and a.num_args() == 2 and z3.is_int_value(a.arg(0)) and a.arg(0).as_long() % c == 0:
            u_parts.append((a.arg(0).as_long() // c) * a.arg(1))
        else:
            return None
    if not u_parts:
        return None
    u = u_parts[0]
    for x in u_parts[1:]:
        u = u + x
    return u + (d // c), d % c


def floordiv_int(a, b):
    """Python floor division from SMT-LIB Euclidean div."""
    if z3.is_int_value(z3.simplify(b)) and z3.simplify(b).as_long() > 0:
        sp = split_multiple(a, z3.simplify(b).as_long())
        if sp is not None:
            return sp[0]
        return a / b          # SMT-LIB div is floor division for a positive divisor
    q = a / b
    r = a % b
    return z3.If(z3.And(b < 0, r != 0), q - 1, q)


def pymod_int(a, b):
    if z3.is_int_value(z3.simplify(b)) and z3.simplify(b).as_long() > 0:
        sp = split_multiple(a, z3.simplify(b).as_long())
        if sp is not None:
            return z3.IntVal(sp[1])
        return a % b
    return a - b * floordiv_int(a, b)


def bool2int(b):
    return z3.If(b, z3.IntVal(1), z3.IntVal(0))


def as_int_term(v):
    if isinstance(v, VInt):
        return v.t
    if isinstance(v, VBool):
        return bool2int(v.t)
    return None


def as_real_term(v):
    """Exact real value of an int/bool/Decimal (not float)."""
    it = as_int_term(v)
    if it is not None:
        return z3.ToReal(it)
    if isinstance(v, VDec):
        return v.t
    return None


class Executor:
    def __init__(self, hooks=None, loops=None, attr_hooks=None, max_paths=2000,
                 inline=None, solver_timeout_ms=3000, max_unroll=64):
        self.hooks = hooks or {}
        self.attr_hooks = attr_hooks or {}
        self.loops = loops or {}
        self.inline = inline or set()
        self.max_paths = max_paths
        self.max_unroll = max_unroll
        self.solver = z3.Solver()
        self.solver.set('timeout', solver_timeout_ms)
        self.assumptions: set[str] = set()
        self.fresh_count = 0
        self.path: Path = None  # type: ignore
        self.prefix: list = []
        self.pos = 0
        self.worklist: list[list] = []
        self.depth = 0
        self.loop_ordinals: dict[int, int] = {}
        self.globs_stack: list[dict] = []
        self.feas_checks = 0

    # ---- path machinery -------------------------------------------------------
    def run_all(self, thunk):
        """thunk(ex) interprets the function once; returns all paths."""
        paths = []
        self.worklist = [[]]
        while self.worklist:
            if len(paths) >= self.max_paths:
                raise OutOfSubset(f'more than {self.max_paths} paths')
            self.prefix = self.worklist.pop()
            self.pos = 0
            self.fresh_count = 0
            self.path = Path()
            self.depth = 0
            try:
                val = thunk(self)
                self.path.outcome = ('return', val)
            except PyRaise as r:
                self.path.outcome = ('raise', r.exc)
            except PathEnd as e:
                self.path.outcome = ('cut', e.why)
            self.path.decisions = list(self.prefix)
            if not (self.path.outcome[0] == 'cut' and self.path.outcome[1] == 'infeasible'):
                paths.append(self.path)
        return paths

    _hq: dict = {}

    def has_quant(self, t) -> bool:
        k = t.get_id()
        r = self._hq.get(k)
        if r is None:
            if z3.is_quantifier(t):
                r = True
            elif z3.is_app(t):
                r = any(self.has_quant(c) for c in t.children())
            else:
                r = False
            self._hq[k] = r
        return r

    def feasible(self, extra) -> bool:
        self.feas_checks += 1
        if self.has_quant(extra):
            return True        # quantified conditions are never used to prune
        self.solver.push()
        try:
            for c in self.path.pc:
                if self.has_quant(c):
                    continue   # dropping assumptions only enlarges the feasible set (sound)
                self.solver.add(c)
            self.solver.add(extra)
            try:
                return self.solver.check() != z3.unsat
            except z3.Z3Exception:
                return True      # solver gave up: treat the branch as feasible (sound)
        finally:
            self.solver.pop()

    def branch(self, cond) -> bool:
        """Fork on a z3 Bool; returns the decision taken on this run."""
        cond = z3.simplify(cond)
        if z3.is_true(cond):
            return True
        if z3.is_false(cond):
            return False
        if self.in_quantifier:
            raise OutOfSubset('a specification forks on a symbolic condition inside a quantifier body')
        if self.pos < len(self.prefix):
            d = self.prefix[self.pos]
        else:
            t = self.feasible(cond)
            f = self.feasible(z3.Not(cond))
            if t and f:
                self.worklist.append(self.prefix[:self.pos] + [False])
                d = True
            elif t:
                d = True
            elif f:
                d = False
            else:
                raise PathEnd('infeasible')
            self.prefix.append(d)
        self.pos += 1
        self.path.pc.append(cond if d else z3.Not(cond))
        return d

    def choose(self, n: int, label='') -> int:
        """Nondeterministic choice among n alternatives (all explored)."""
        if self.pos < len(self.prefix):
            d = self.prefix[self.pos]
        else:
            for k in range(n - 1, 0, -1):
                self.worklist.append(self.prefix[:self.pos] + [k])
            d = 0
            self.prefix.append(d)
        self.pos += 1
        return d

    def assume(self, cond):
        cond = z3.simplify(cond)
        if z3.is_true(cond):
            return
        if z3.is_false(cond) or not self.feasible(cond):
            raise PathEnd('infeasible')
        self.path.pc.append(cond)

    def oblige(self, label, formula, kind='V', origin=''):
        self.path.obligations.append(Obligation(label, self.path.pc, formula, kind, origin))

    def unique_value(self, v: Val):
        """If the int-valued v has exactly one value under the path condition, return it
        as a concrete VInt (solver-aided concretisation), else None."""
        t = as_int_term(v)
        if t is None:
            return None
        c = VInt(t).conc
        if c is not NOTCONC:
            return VInt(c)
        self.solver.push()
        try:
            for c in self.path.pc:
                self.solver.add(c)
            if self.solver.check() != z3.sat:
                return None
            val = self.solver.model().eval(t, model_completion=True)
            self.solver.add(t != val)
            if self.solver.check() == z3.unsat:
                return VInt(val.as_long())
            return None
        finally:
            self.solver.pop()

    def fresh(self, base, sort):
        self.fresh_count += 1
        return z3.Const(f'{base}!{self.fresh_count}', sort)

    def note(self, s):
        self.assumptions.add(s)

    def raise_py(self, cls, code=None):
        raise PyRaise(VExc(cls, code))

    # ---- truthiness / equality -----------------------------------------------
    def truthy(self, v: Val):
        if isinstance(v, VBool):
            return v.t
        if isinstance(v, VInt):
            return v.t != 0
        if isinstance(v, VDec):
            return v.t != 0
        if isinstance(v, VFloat):
            return z3.Or(v.nan, v.inf != 0, v.val != 0)
        if isinstance(v, VStr):
            return z3.Length(v.t) > 0
        if isinstance(v, VNone):
            return z3.BoolVal(False)
        if isinstance(v, (VTuple, VPyList)):
            return z3.BoolVal(len(v.items) > 0)
        if isinstance(v, VSeq):
            return v.len > 0
        if isinstance(v, VNative):
            try:
                return z3.BoolVal(bool(v.obj))
            except Exception:
                raise OutOfSubset(f'truthiness of {v!r}')
        if isinstance(v, VDictC):
            return z3.BoolVal(len(v.d) > 0)
        if isinstance(v, VObj):
            h = self.attr_hooks.get(('bool', v.pycls.__name__)) or self.attr_hooks.get(('bool', v.name))
            if h:
                return h(self, v)
            h = self.hooks.get(('len', v.pycls.__name__)) or self.hooks.get(('len', v.name))
            if h:
                return h(self, v).t != 0
            import inspect as _insp
            for dunder in ('__bool__', '__len__'):
                f = _insp.getattr_static(v.pycls, dunder, None)
                if f is not None and hasattr(f, '__code__') and f.__code__.co_filename.startswith(_extract.REPO_ROOT + '/'):
                    r = self.inline_real(f, [v], {})       # the class's own truth value, from its source
                    return self.truthy(r) if dunder == '__bool__' else (as_int_term(r) != 0)
            if not hasattr(v.pycls, '__bool__') and not hasattr(v.pycls, '__len__'):
                return z3.BoolVal(True)
        if isinstance(v, (VExc, VFunc, VBound)):
            return z3.BoolVal(True)
        raise OutOfSubset(f'truthiness of {v!r}')

    def test(self, v: Val) -> bool:
        return self.branch(self.truthy(v))

    def norm_item(self, v: Val) -> Val:
        """A value about to be stored in a code point list: tuple components that are list
        items themselves must be the int alternative."""
        if isinstance(v, VTuple) and any(isinstance(i, VItv) for i in v.items):
            return VTuple([self.itv_num(i) for i in v.items])
        return v

    def itv_num(self, v: Val) -> Val:
        """An int-or-tuple list item used as a number: it must be the int (else TypeError)."""
        if isinstance(v, VItv):
            if self.pure:
                return VInt(v.lo)
            if self.branch(v.isint):
                return VInt(v.lo)
            self.raise_py(TypeError)
        return v

    def eq(self, a: Val, b: Val):
        """z3 Bool for Python a == b (value equality of builtins)."""
        if isinstance(a, VItv) or isinstance(b, VItv):
            if isinstance(b, VItv) and not isinstance(a, VItv):
                a, b = b, a
            if isinstance(b, VItv):
                return z3.And(a.isint == b.isint, a.lo == b.lo, z3.Or(a.isint, a.hi == b.hi))
            if isinstance(b, (VInt, VBool)):
                return z3.And(a.isint, a.lo == as_int_term(b))
            if isinstance(b, VTuple) and len(b.items) == 2 and all(as_int_term(i) is not None for i in b.items):
                return z3.And(z3.Not(a.isint), a.lo == as_int_term(b.items[0]), a.hi == as_int_term(b.items[1]))
            return z3.BoolVal(False)
        if (isinstance(a, VItem) and isinstance(b, (VPyList, VTuple, VNone))) or (isinstance(b, VItem) and isinstance(a, (VPyList, VTuple, VNone))):
            return z3.BoolVal(False)      # an opaque item stands for one XDM item: never a Python list, tuple or None
        ra, rb = as_real_term(a), as_real_term(b)
        ia, ib = as_int_term(a), as_int_term(b)
        if ia is not None and ib is not None:
            return ia == ib
        if ra is not None and rb is not None:
            return ra == rb
        if isinstance(a, VFloat) or isinstance(b, VFloat):
            if isinstance(b, VFloat) and not isinstance(a, VFloat):
                a, b = b, a
            if isinstance(b, VFloat):
                return z3.And(z3.Not(a.nan), z3.Not(b.nan), a.inf == b.inf,
                              z3.Or(a.inf != 0, a.val == b.val))
            rb = as_real_term(b)
            if rb is not None:
                return z3.And(z3.Not(a.nan), a.inf == 0, a.val == rb)
            return z3.BoolVal(False)
        if isinstance(a, VStr) and isinstance(b, VStr):
            return a.t == b.t
        if isinstance(a, VNone) or isinstance(b, VNone):
            return z3.BoolVal(isinstance(a, VNone) and isinstance(b, VNone))
        if isinstance(a, VItem) and isinstance(b, VItem):
            if self.pure:
                return a.t == b.t        # specification level: the same item
            h = self.hooks.get('item.__eq__')
            if h:
                return h(self, a, b)
            raise OutOfSubset('== on opaque items without a contract')
        if isinstance(a, (VTuple, VPyList)) and isinstance(b, (VTuple, VPyList)):
            if a.pycls is not b.pycls and (isinstance(a, VTuple) != isinstance(b, VTuple)):
                return z3.BoolVal(False)
            if len(a.items) != len(b.items):
                return z3.BoolVal(False)
            return z3.And([self.eq(x, y) for x, y in zip(a.items, b.items)] or [z3.BoolVal(True)])
        if isinstance(a, (VPyList, VTuple)) and isinstance(b, VSeq) or \
                isinstance(a, VSeq) and isinstance(b, (VPyList, VTuple)):
            if isinstance(a, VSeq):
                a, b = b, a
            conj = [b.len == len(a.items)]
            for k, it in enumerate(a.items):
                conj.append(self.eq(it, b.get(z3.IntVal(k))))
            return z3.And(conj)
        if isinstance(a, VNative) and isinstance(b, VNative):
            try:
                return z3.BoolVal(bool(a.obj == b.obj))
            except Exception:
                raise OutOfSubset('== on natives')
        num = (VInt, VBool, VDec, VFloat)
        simple = num + (VStr, VNone, VTuple, VPyList)
        if isinstance(a, simple) and isinstance(b, simple):
            return z3.BoolVal(False)   # different builtin kinds never compare equal
        if isinstance(a, VObj) and isinstance(b, VObj) and a is b:
            return z3.BoolVal(True)
        raise OutOfSubset(f'== between {a!r} and {b!r}')

    def order(self, op, a: Val, b: Val):
        """z3 Bool for a < b etc.; may raise TypeError symbolically."""
        ops = {'<': lambda x, y: x < y, '<=': lambda x, y: x <= y,
               '>': lambda x, y: x > y, '>=': lambda x, y: x >= y}
        f = ops[op]
        a, b = self.itv_num(a), self.itv_num(b)
        ia, ib = as_int_term(a), as_int_term(b)
        if ia is not None and ib is not None:
            return f(ia, ib)
        ra, rb = as_real_term(a), as_real_term(b)
        if ra is not None and rb is not None:
            return f(ra, rb)
        if isinstance(a, VFloat) or isinstance(b, VFloat):
            def ext(v):
                if isinstance(v, VFloat):
                    return v.nan, v.inf, v.val
                r = as_real_term(v)
                if r is None:
                    return None
                return z3.BoolVal(False), z3.IntVal(0), r
            ea, eb = ext(a), ext(b)
            if ea is None or eb is None:
                self.raise_py(TypeError)
            # order on the extended reals: compare (inf, val) lexicographically; NaN -> False
            lt = z3.Or(ea[1] < eb[1], z3.And(ea[1] == eb[1], ea[1] == 0, ea[2] < eb[2]))
            eqv = z3.And(ea[1] == eb[1], z3.Or(ea[1] != 0, ea[2] == eb[2]))
            gt = z3.And(z3.Not(lt), z3.Not(eqv))
            r = {'<': lt, '<=': z3.Or(lt, eqv), '>': gt, '>=': z3.Or(gt, eqv)}[op]
            return z3.And(z3.Not(ea[0]), z3.Not(eb[0]), r)
        if isinstance(a, VStr) and isinstance(b, VStr):
            # code point order (Python str order)
            if op == '<':
                return z3.StrLT(a.t, b.t) if hasattr(z3, 'StrLT') else a.t < b.t
            if op == '<=':
                return a.t <= b.t
            if op == '>':
                return b.t < a.t
            return b.t <= a.t
        simple = (VInt, VBool, VDec, VFloat, VStr, VNone)
        if isinstance(a, simple) and isinstance(b, simple):
            self.raise_py(TypeError)
        raise OutOfSubset(f'{op} between {a!r} and {b!r}')

    # ---- arithmetic ------------------------------------------------------------
    def fp_unmodelled(self, name, *args):
        """Result of a finite float operation: an uninterpreted function of the operands."""
        self.note('A-FP: result of finite float arithmetic is uninterpreted (' + name + ')')
        sorts = [z3.RealSort()] * len(args) + [z3.RealSort()]
        f = z3.Function('fp_' + name, *sorts)
        return f(*args)

    def to_float(self, v: Val) -> VFloat:
        if isinstance(v, VFloat):
            return v
        r = as_real_term(v)
        if r is None:
            raise OutOfSubset(f'float() of {v!r}')
        if isinstance(v, (VInt, VBool)):
            if self.branch(z3.Or(r >= z3.RealVal(2 ** 1024), r <= -z3.RealVal(2 ** 1024))):
                self.raise_py(OverflowError)
        # exact when the value is an integer of magnitude <= 2**53; otherwise the nearest
        # double, an uninterpreted function f64 of the exact value (A-FP)
        small = z3.And(z3.ToReal(z3.ToInt(r)) == r, r <= 2 ** 53, r >= -(2 ** 53))
        rs = z3.simplify(r)
        if any(rs.eq(d) for d in self.known_doubles):
            val = r      # the value of a double converts to itself
        else:
            if self.branch(small):
                val = r
            else:
                val = F64(r)
                # round-to-nearest facts: sign is kept, and in the normal range the result is
                # within a factor 2 of the exact value
                self.path.pc.append(z3.And(z3.Implies(r >= 0, val >= 0), z3.Implies(r <= 0, val <= 0),
                                           z3.Implies(r >= 1, z3.And(2 * val >= r, val <= 2 * r)),
                                           z3.Implies(r <= -1, z3.And(2 * val <= r, val >= 2 * r))))
        if isinstance(v, VDec):
            big = z3.RealVal(2 ** 1024)
            if self.branch(z3.Or(r >= big, r <= -big)):      # Decimal.__float__ overflows to +-inf
                return VFloat(False, z3.If(r > 0, 1, -1), 0, r < 0)
            return VFloat(False, 0, val, v.neg)
        return VFloat(False, 0, val, r < 0)

    def arith(self, op: str, a: Val, b: Val) -> Val:
        a, b = self.itv_num(a), self.itv_num(b)
        ca, cb = a.conc, b.conc
        if ca is not NOTCONC and cb is not NOTCONC and type(ca) in (int, bool, decimal.Decimal) \
                and type(cb) in (int, bool, decimal.Decimal) and op in ('+', '-', '*', '**', '//', '%') \
                and not (op == '**' and (not isinstance(cb, int) or abs(cb) > 4096)):
            try:
                with decimal.localcontext() as ctx:
                    ctx.prec = 1000
                    r = {'+': lambda: ca + cb, '-': lambda: ca - cb, '*': lambda: ca * cb,
                         '**': lambda: ca ** cb, '//': lambda: ca // cb, '%': lambda: ca % cb}[op]()
                if isinstance(r, (int, decimal.Decimal)):
                    return lift(r)
            except Exception:
                pass
        # int x int
        ia, ib = as_int_term(a), as_int_term(b)
        if ia is not None and ib is not None:
            if op == '+':
                return VInt(ia + ib)
            if op == '-':
                return VInt(ia - ib)
            if op == '*':
                return VInt(ia * ib)
            if op in ('//', '%'):
                if self.branch(ib == 0):
                    self.raise_py(ZeroDivisionError)
                return VInt(floordiv_int(ia, ib) if op == '//' else pymod_int(ia, ib))
            if op == '/':
                if self.branch(ib == 0):
                    self.raise_py(ZeroDivisionError)
                return VFloat(False, 0, self.fp_unmodelled('truediv', z3.ToReal(ia), z3.ToReal(ib)))
            if op == '**':
                cb = b.conc
                if cb is not NOTCONC and isinstance(cb, int) and 0 <= cb <= 64:
                    r = z3.IntVal(1)
                    for _ in range(cb):
                        r = r * ia
                    return VInt(r)
            raise OutOfSubset(f'int {op} int')
        # Decimal with Decimal/int
        ra, rb = as_real_term(a), as_real_term(b)
        if ra is not None and rb is not None and (isinstance(a, VFrac) or isinstance(b, VFrac)):
            if op in ('+', '-', '*'):
                return VFrac({'+': ra + rb, '-': ra - rb, '*': ra * rb}[op])
            if op == '/':
                if self.branch(rb == 0):
                    self.raise_py(ZeroDivisionError)
                return VFrac(ra / rb)
            raise OutOfSubset(f'Fraction {op}')
        if ra is not None and rb is not None:
            if op == '+':
                self.note('A-DEC: Decimal + - * / results are exact (no rounding at precision 28)')
                return VDec(ra + rb)
            if op == '-':
                self.note('A-DEC: Decimal + - * / results are exact (no rounding at precision 28)')
                return VDec(ra - rb)
            if op == '*':
                self.note('A-DEC: Decimal + - * / results are exact (no rounding at precision 28)')
                return VDec(ra * rb)
            if op in ('/', '//', '%'):
                # decimal module: x/0 -> DivisionByZero (x != 0) or InvalidOperation (0/0);
                # x//y, x%y -> InvalidOperation(DivisionImpossible) if the integer quotient
                # needs more than `prec` digits.
                if self.branch(rb == 0):
                    if op == '/':
                        if self.branch(ra == 0):
                            self.raise_py(decimal.InvalidOperation)
                        self.raise_py(decimal.DivisionByZero)
                    else:
                        if self.branch(ra == 0):
                            self.raise_py(decimal.InvalidOperation)
                        if op == '//':
                            self.raise_py(decimal.DivisionByZero)
                        self.raise_py(decimal.InvalidOperation)
                if op == '/':
                    self.note('A-DEC: Decimal + - * / results are exact (no rounding at precision 28)')
                    return VDec(ra / rb)
                q = trunc_real(ra / rb)
                if self.branch(z3.Or(q >= 10 ** PREC, q <= -(10 ** PREC))):
                    self.raise_py(decimal.InvalidOperation)
                if op == '//':
                    return VDec(z3.ToReal(q))
                return VDec(ra - rb * z3.ToReal(q))
            raise OutOfSubset(f'Decimal {op}')
        # float involved
        if isinstance(a, VFloat) or isinstance(b, VFloat):
            if isinstance(a, VDec) or isinstance(b, VDec):
                self.raise_py(TypeError)
            if not isinstance(a, (VFloat, VInt, VBool)) or not isinstance(b, (VFloat, VInt, VBool)):
                if isinstance(a, (VStr, VNone, VTuple, VPyList)) or isinstance(b, (VStr, VNone, VTuple, VPyList)):
                    self.raise_py(TypeError)
                raise OutOfSubset(f'float {op} {a!r} {b!r}')
            fa, fb = self.to_float(a), self.to_float(b)
            return self.float_arith(op, fa, fb)
        if isinstance(a, VStr) and isinstance(b, VStr) and op == '+':
            return VStr(z3.Concat(a.t, b.t))
        if isinstance(a, VStr) and op == '%':
            self.note('string % formatting produces an opaque string (only used for messages)')
            return VStr(self.fresh('fmt', z3.StringSort()))
        if isinstance(a, VTuple) and isinstance(b, VTuple) and op == '+':
            return VTuple(a.items + b.items)
        if isinstance(a, VPyList) and isinstance(b, VPyList) and op == '+':
            return VPyList(a.items + b.items)
        simple = (VInt, VBool, VDec, VFloat, VStr, VNone)
        if isinstance(a, simple) and isinstance(b, simple):
            self.raise_py(TypeError)
        h = self.hooks.get('binop')
        if h:
            r = h(self, op, a, b)
            if r is not None:
                return r
        raise OutOfSubset(f'{op} between {a!r} and {b!r}')

    def float_arith(self, op, a: VFloat, b: VFloat) -> VFloat:
        """IEEE special-value tables are exact; finite results are uninterpreted (A-FP)."""
        if op in ('//', '%'):
            if self.branch(z3.And(b.finite(), b.val == 0)):
                self.raise_py(ZeroDivisionError)
        if op == '/':
            if self.branch(z3.And(b.finite(), b.val == 0)):
                self.raise_py(ZeroDivisionError)
        if self.branch(z3.Or(a.nan, b.nan)):
            return VFloat(True, 0, 0, False)
        ainf = self.branch(a.inf != 0)
        binf = self.branch(b.inf != 0)
        if op in ('+', '-'):
            bi = b.inf if op == '+' else -b.inf
            if ainf and binf:
                if self.branch(a.inf == bi):
                    return VFloat(False, a.inf, 0)
                return VFloat(True, 0, 0, False)
            if ainf:
                return VFloat(False, a.inf, 0)
            if binf:
                return VFloat(False, bi, 0)
        elif op == '*':
            if ainf or binf:
                sa = z3.If(a.inf != 0, a.inf, z3.If(a.val > 0, 1, z3.If(a.val < 0, -1, 0)))
                sb = z3.If(b.inf != 0, b.inf, z3.If(b.val > 0, 1, z3.If(b.val < 0, -1, 0)))
                if self.branch(sa * sb == 0):
                    return VFloat(True, 0, 0, False)
                return VFloat(False, sa * sb, 0)
        elif op == '/':
            if ainf and binf:
                return VFloat(True, 0, 0, False)
            if ainf:
                sb = z3.If(b.neg, -1, 1)
                return VFloat(False, a.inf * sb, 0)
            if binf:
                return VFloat(False, 0, 0, z3.Xor(a.neg, b.neg))
        elif op in ('//', '%'):
            if ainf:
                return VFloat(True, 0, 0, False)
            if binf:
                if op == '%':
                    # Python: finite % inf = a if same sign; a zero takes the sign of b;
                    # otherwise the infinity b
                    if self.branch(a.val == 0):
                        return VFloat(False, 0, 0, b.neg)
                    if self.branch(a.neg == b.neg):
                        return VFloat(False, 0, a.val, a.neg)
                    return VFloat(False, b.inf, 0)
                same = z3.Or(a.val == 0, a.neg == b.neg)
                if self.branch(same):
                    return VFloat(False, 0, 0, z3.Xor(a.neg, b.neg))
                return VFloat(False, 0, -1)
        else:
            raise OutOfSubset(f'float {op}')
        name = {'+': 'add', '-': 'sub', '*': 'mul', '/': 'div', '//': 'floordiv', '%': 'mod'}[op]
        r = self.fp_unmodelled(name, a.val, b.val)
        # overflow of finite arithmetic to +-inf is part of the uninterpreted result: the
        # result is described by three uninterpreted functions of the operands.
        of = z3.Function('fp_' + name + '_inf', z3.RealSort(), z3.RealSort(), z3.IntSort())
        inf = of(a.val, b.val) if op in ('+', '-', '*', '/', '//') else z3.IntVal(0)
        ng = z3.Function('fp_' + name + '_neg', z3.RealSort(), z3.RealSort(), z3.BoolSort())
        return VFloat(False, inf, r, ng(a.val, b.val))

    def _repo_dunder(self, v: Val, name: str):
        """the unary special method `name` of the value's class when that class (a subclass of a builtin number defined in the
        repository) overrides it: it is inlined from its source instead of being modelled as the builtin operation"""
        import inspect as _insp
        cls = getattr(v, 'pycls', None)
        if isinstance(cls, type) and isinstance(v, (VInt, VFloat, VDec)):
            f = _insp.getattr_static(cls, name, None)
            if f is not None and hasattr(f, '__code__') and f.__code__.co_filename.startswith(_extract.REPO_ROOT + '/') \
                    and not getattr(self, '_in_dunder', None) == (id(v), name):
                return f
        return None

    def neg(self, v: Val) -> Val:
        f = self._repo_dunder(v, '__neg__')
        if f is not None:
            return self.inline_real(f, [v], {})
        if isinstance(v, (VInt, VBool)):
            return VInt(-as_int_term(v))
        if isinstance(v, VDec):
            return VDec(-v.t, z3.Not(v.neg))
        if isinstance(v, VFloat):
            return VFloat(v.nan, -v.inf, -v.val, z3.If(v.nan, v.neg, z3.Not(v.neg)), v.pycls if v.pycls is float else float)
        if isinstance(v, (VStr, VNone, VTuple, VPyList)):
            self.raise_py(TypeError)
        h = self.hooks.get('unaryop')
        if h:
            r = h(self, '-', v)
            if r is not None:
                return r
        raise OutOfSubset(f'unary - on {v!r}')

    def pos_(self, v: Val) -> Val:
        f = self._repo_dunder(v, '__pos__')
        if f is not None:
            return self.inline_real(f, [v], {})
        if isinstance(v, VBool):
            return VInt(bool2int(v.t))
        if isinstance(v, (VInt, VDec, VFloat)):
            return v
        if isinstance(v, (VStr, VNone, VTuple, VPyList)):
            self.raise_py(TypeError)
        raise OutOfSubset(f'unary + on {v!r}')

    def abs_(self, v: Val) -> Val:
        f = self._repo_dunder(v, '__abs__')
        if f is not None:
            return self.inline_real(f, [v], {})
        if isinstance(v, (VInt, VBool)):
            t = as_int_term(v)
            return VInt(z3.If(t >= 0, t, -t))
        if isinstance(v, VDec):
            return VDec(z3.If(v.t >= 0, v.t, -v.t), False)
        if isinstance(v, VFloat):
            return VFloat(v.nan, z3.If(v.inf < 0, -v.inf, v.inf), z3.If(v.val >= 0, v.val, -v.val), False)
        raise OutOfSubset(f'abs of {v!r}')

    # ---- expressions -------------------------------------------------------------
    def eval(self, node: ast.AST, env: Env) -> Val:
        m = getattr(self, 'e_' + type(node).__name__, None)
        if m is None:
            raise OutOfSubset(f'expression {type(node).__name__} at line {getattr(node, "lineno", "?")}')
        return m(node, env)

    def e_Constant(self, node, env):
        v = node.value
        if v is Ellipsis:
            return VNative(v)
        if isinstance(v, bytes):
            return VNative(v)
        return lift(v)

    def e_Name(self, node, env):
        if node.id == 'out' and self.pure and self.path.out is not None:
            return self.path.out          # ghost: the sequence yielded so far
        v = env.lookup(node.id)
        if v is not None:
            return v
        g = self.globs_stack[-1] if self.globs_stack else {}
        if node.id in g:
            return lift_global(g[node.id])
        if hasattr(builtins, node.id):
            return VNative(getattr(builtins, node.id))
        raise OutOfSubset(f'unbound name {node.id}')

    def e_Tuple(self, node, env):
        items = []
        for e in node.elts:
            if isinstance(e, ast.Starred):
                items.extend(self.iter_concrete(self.eval(e.value, env)))
            else:
                items.append(self.eval(e, env))
        return VTuple(items)

    def e_List(self, node, env):
        items = []
        for e in node.elts:
            if isinstance(e, ast.Starred):
                items.extend(self.iter_concrete(self.eval(e.value, env)))
            else:
                items.append(self.eval(e, env))
        return VPyList(items, fresh=True)

    def e_Set(self, node, env):
        return VTuple([self.eval(e, env) for e in node.elts])   # only used for `in` tests

    def e_Dict(self, node, env):
        d = VDictC()
        for k, v in zip(node.keys, node.values):
            if k is None:
                raise OutOfSubset('dict unpacking')
            kv = self.eval(k, env).conc
            if kv is NOTCONC:
                raise OutOfSubset('dict literal with symbolic key')
            d.d[kv] = self.eval(v, env)
        return d

    def e_JoinedStr(self, node, env):
        self.note('f-string produces an opaque string (only used for messages)')
        for v in node.values:
            if isinstance(v, ast.FormattedValue):
                self.eval(v.value, env)
        return VStr(self.fresh('fstr', z3.StringSort()))

    pure = 0     # > 0 while evaluating specification expressions: merge instead of forking
    in_quantifier = 0

    def merge(self, c, a: Val, b: Val):
        """If(c, a, b) for two values of the same simple kind, else None."""
        if isinstance(a, VBool) and isinstance(b, VBool):
            return VBool(z3.If(c, a.t, b.t))
        if isinstance(a, VInt) and isinstance(b, VInt) and a.pycls is b.pycls:
            return VInt(z3.If(c, a.t, b.t), a.pycls)
        if isinstance(a, VStr) and isinstance(b, VStr):
            return VStr(z3.If(c, a.t, b.t))
        if isinstance(a, VItem) and isinstance(b, VItem):
            return VItem(z3.If(c, a.t, b.t))
        if isinstance(a, VItv) and isinstance(b, VItv):
            return VItv(z3.If(c, a.t, b.t))
        if type(a) is VDec and type(b) is VDec:
            return VDec(z3.If(c, a.t, b.t), z3.If(c, a.neg, b.neg))
        if type(a) is VFrac and type(b) is VFrac:
            return VFrac(z3.If(c, a.t, b.t))
        return None

    def e_IfExp(self, node, env):
        tv = self.eval(node.test, env)
        if self.pure:
            c = z3.simplify(self.truthy(tv))
            if not (z3.is_true(c) or z3.is_false(c)):
                saved = (list(self.path.pc), self.pos, list(self.prefix), list(self.worklist))
                try:
                    a = self.eval(node.body, env)
                    b = self.eval(node.orelse, env)
                    if self.pos == saved[1]:         # no fork happened while evaluating the arms
                        m = self.merge(c, a, b)
                        if m is not None:
                            return m
                except PyRaise:
                    pass
                self.path.pc, self.pos, self.prefix, self.worklist = saved[0], saved[1], saved[2], saved[3]
        if self.test(tv):
            return self.eval(node.body, env)
        return self.eval(node.orelse, env)

    def e_BoolOp(self, node, env):
        if self.pure:
            # specification context: total, side-effect free operands -> z3 And / Or
            parts = []
            for e in node.values:
                v = self.eval(e, env)
                c = z3.simplify(self.truthy(v))
                if isinstance(node.op, ast.And) and z3.is_false(c):
                    return VBool(False)
                if isinstance(node.op, ast.Or) and z3.is_true(c):
                    return VBool(True)
                parts.append(c)
            return VBool(z3.And(parts) if isinstance(node.op, ast.And) else z3.Or(parts))
        last = None
        for k, e in enumerate(node.values):
            last = self.eval(e, env)
            if k == len(node.values) - 1:
                break
            t = self.test(last)
            if isinstance(node.op, ast.And) and not t:
                return last
            if isinstance(node.op, ast.Or) and t:
                return last
        return last

    def e_UnaryOp(self, node, env):
        v = self.eval(node.operand, env)
        if isinstance(node.op, ast.Not):
            return VBool(z3.Not(self.truthy(v)))
        if isinstance(node.op, ast.USub):
            return self.neg(v)
        if isinstance(node.op, ast.UAdd):
            return self.pos_(v)
        raise OutOfSubset('unary ~')

    BINOPS = {ast.Add: '+', ast.Sub: '-', ast.Mult: '*', ast.Div: '/', ast.FloorDiv: '//',
              ast.Mod: '%', ast.Pow: '**'}

    def e_BinOp(self, node, env):
        a = self.eval(node.left, env)
        b = self.eval(node.right, env)
        op = self.BINOPS.get(type(node.op))
        if op is None:
            if isinstance(node.op, ast.BitOr) and isinstance(a, VNative) and isinstance(b, VNative):
                return VNative(a.obj | b.obj)
            raise OutOfSubset(f'operator {type(node.op).__name__}')
        return self.arith(op, a, b)

    def e_Compare(self, node, env):
        left = self.eval(node.left, env)
        result = None
        for op, rn in zip(node.ops, node.comparators):
            right = self.eval(rn, env)       # (a later comparator is only evaluated if the chain is still true)
            c = self.compare(op, left, right)
            if len(node.ops) == 1:
                return VBool(c)
            if self.pure:
                result = VBool(c if result is None else z3.And(result.t, c))
                left = right
                continue
            if not self.branch(c):
                return VBool(False)
            result = VBool(True)
            left = right
        return result

    def compare(self, op, a, b):
        if isinstance(op, ast.Eq):
            return self.eq(a, b)
        if isinstance(op, ast.NotEq):
            return z3.Not(self.eq(a, b))
        if isinstance(op, (ast.Lt, ast.LtE, ast.Gt, ast.GtE)):
            return self.order({ast.Lt: '<', ast.LtE: '<=', ast.Gt: '>', ast.GtE: '>='}[type(op)], a, b)
        if isinstance(op, (ast.Is, ast.IsNot)):
            r = self.identical(a, b)
            return r if isinstance(op, ast.Is) else z3.Not(r)
        if isinstance(op, (ast.In, ast.NotIn)):
            r = self.contains(b, a)
            return r if isinstance(op, ast.In) else z3.Not(r)
        raise OutOfSubset('comparison operator')

    def identical(self, a, b):
        if isinstance(a, VNone) or isinstance(b, VNone):
            return z3.BoolVal(isinstance(a, VNone) and isinstance(b, VNone))
        if isinstance(a, VBool) and isinstance(b, VBool):
            return a.t == b.t
        if isinstance(a, VNative) and isinstance(b, VNative):
            return z3.BoolVal(a.obj is b.obj)
        if isinstance(a, (VObj, VPyList, VSeq, VDictC)) or isinstance(b, (VObj, VPyList, VSeq, VDictC)):
            return z3.BoolVal(a is b)
        if a.pycls is not b.pycls:
            return z3.BoolVal(False)
        if isinstance(a, VItem) and isinstance(b, VItem):
            return a.t == b.t
        raise OutOfSubset(f'`is` between {a!r} and {b!r}')

    def contains(self, container, x):
        if isinstance(container, (VTuple, VPyList)):
            if not container.items:
                return z3.BoolVal(False)
            return z3.Or([self.eq(x, i) for i in container.items])
        if isinstance(container, VStr):
            if not isinstance(x, VStr):
                self.raise_py(TypeError)
            return z3.Contains(container.t, x.t)
        if isinstance(container, VDictC):
            c = x.conc
            if c is NOTCONC:
                return z3.Or([self.eq(x, lift(k)) for k in container.d] or [z3.BoolVal(False)])
            return z3.BoolVal(c in container.d)
        if isinstance(container, VNative):
            c = x.conc
            if c is not NOTCONC:
                try:
                    return z3.BoolVal(c in container.obj)
                except TypeError:
                    pass
            if isinstance(container.obj, (tuple, list, set, frozenset, dict)) and len(container.obj) <= 64:
                return z3.Or([self.eq(x, lift(k)) for k in container.obj] or [z3.BoolVal(False)])
        h = self.hooks.get('contains')
        if h:
            r = h(self, container, x)
            if r is not None:
                return r
        raise OutOfSubset(f'`in` on {container!r}')

    def e_Attribute(self, node, env):
        key = ast.unparse(node)
        if key in self.attr_hooks:
            return self.attr_hooks[key](self, env)
        obj = self.eval(node.value, env)
        return self.getattr(obj, node.attr)

    def getattr(self, obj: Val, name: str) -> Val:
        if isinstance(obj, VObj):
            if name in obj.fields:
                return obj.fields[name]
            h = self.attr_hooks.get((obj.pycls.__name__, name))
            if h:
                return h(self, obj)
            import inspect
            try:
                static = inspect.getattr_static(obj.pycls, name)
            except AttributeError:
                raise OutOfSubset(f'attribute {name} of {obj!r} is not modelled')
            if isinstance(static, (staticmethod,)):
                return VNative(static.__func__)
            if callable(static) or isinstance(static, classmethod):
                return VBound(obj, name)
            if isinstance(static, property):
                raise OutOfSubset(f'property {obj.pycls.__name__}.{name} without a contract')
            return lift_global(static)
        if isinstance(obj, VNative):
            try:
                return lift_global(getattr(obj.obj, name))
            except AttributeError:
                self.raise_py(AttributeError)
        if isinstance(obj, VExc):
            if name == 'code':
                return lift(obj.code)
            return VBound(obj, name)
        if isinstance(obj, VNone):
            self.raise_py(AttributeError)
        pycls = getattr(obj, 'pycls', None)
        if isinstance(pycls, type):
            # class-level data attribute of a builtin-subclass instance (e.g. Integer._lower_bound)
            import inspect
            try:
                static = inspect.getattr_static(pycls, name)
            except AttributeError:
                static = None
            if static is None and any(name in k.__dict__ for k in pycls.__mro__):
                return NONE
            if static is not None and not callable(static) and not isinstance(static, (classmethod, staticmethod, property)) \
                    and not hasattr(static, '__get__'):
                return lift_global(static)
        return VBound(obj, name)

    def e_Subscript(self, node, env):
        obj = self.eval(node.value, env)
        if isinstance(node.slice, ast.Slice):
            lo = self.eval(node.slice.lower, env) if node.slice.lower else None
            hi = self.eval(node.slice.upper, env) if node.slice.upper else None
            if node.slice.step is not None:
                raise OutOfSubset('slice step')
            return self.slice(obj, lo, hi)
        idx = self.eval(node.slice, env)
        if isinstance(idx, VSlice):
            return self.slice(obj, idx.lo, idx.hi)
        return self.index(obj, idx)

    def norm_index(self, i, n):
        return z3.If(i < 0, i + n, i)

    def index(self, obj, idx):
        if isinstance(obj, VItv):
            if not self.pure and self.branch(obj.isint):
                self.raise_py(TypeError)          # int is not subscriptable
            c = idx.conc
            if c in (0, -2):
                return VInt(obj.lo)
            if c in (1, -1):
                return VInt(obj.hi)
            if c is NOTCONC:
                raise OutOfSubset('symbolic index into a range item')
            self.raise_py(IndexError)
        if isinstance(obj, VSeq) and self.pure:
            it = as_int_term(idx)
            if it is None:
                raise OutOfSubset('non-int index in a specification')
            return obj.get(it)        # specification-level select: total
        if isinstance(obj, (VTuple, VPyList)):
            c = idx.conc
            if c is NOTCONC:
                u = self.unique_value(idx)
                if u is not None:
                    c = u.conc
            if c is NOTCONC:
                it = as_int_term(idx)
                if it is None:
                    raise OutOfSubset('symbolic non-int index')
                n = len(obj.items)
                for k in range(-n, n):
                    if self.branch(it == k):
                        return obj.items[k]
                self.raise_py(IndexError)
            if not isinstance(c, int):
                self.raise_py(TypeError)
            if not -len(obj.items) <= c < len(obj.items):
                self.raise_py(IndexError)
            return obj.items[c]
        if isinstance(obj, VSeq):
            it = as_int_term(idx)
            if it is None:
                self.raise_py(TypeError)
            if self.branch(z3.Or(it >= obj.len, it < -obj.len)):
                self.raise_py(IndexError)
            return obj.get(self.norm_index(it, obj.len))
        if isinstance(obj, VStr):
            it = as_int_term(idx)
            if it is None:
                self.raise_py(TypeError)
            n = z3.Length(obj.t)
            if self.branch(z3.Or(it >= n, it < -n)):
                self.raise_py(IndexError)
            return VStr(z3.SubString(obj.t, self.norm_index(it, n), 1))
        if isinstance(obj, VDictC):
            c = idx.conc
            if c is NOTCONC:
                raise OutOfSubset('symbolic dict key')
            if c not in obj.d:
                self.raise_py(KeyError)
            return obj.d[c]
        if isinstance(obj, VNative):
            c = idx.conc
            if c is not NOTCONC:
                try:
                    return lift_global(obj.obj[c])
                except (KeyError, IndexError, TypeError) as e:
                    self.raise_py(type(e))
        h = self.hooks.get('index')
        if h:
            r = h(self, obj, idx)
            if r is not None:
                return r
        raise OutOfSubset(f'subscript on {obj!r}')

    def clamp_slice(self, lo, hi, n):
        """Python slice bound normalisation for step 1."""
        def norm(v, default):
            if v is None or isinstance(v, VNone):
                return default
            t = as_int_term(v)
            if t is None:
                self.raise_py(TypeError)
            t = z3.If(t < 0, t + n, t)
            return z3.If(t < 0, 0, z3.If(t > n, n, t))
        a = norm(lo, z3.IntVal(0))
        b = norm(hi, n)
        return a, b

    def slice(self, obj, lo, hi):
        if isinstance(obj, VStr):
            n = z3.Length(obj.t)
            a, b = self.clamp_slice(lo, hi, n)
            return VStr(z3.If(b > a, z3.SubString(obj.t, a, b - a), z3.StringVal('')))
        if isinstance(obj, (VTuple, VPyList)):
            cl = None if lo is None else lo.conc
            ch = None if hi is None else hi.conc
            if cl is NOTCONC or ch is NOTCONC:
                raise OutOfSubset('symbolic slice of a concrete-structure list')
            items = obj.items[cl:ch]
            return VTuple(items) if isinstance(obj, VTuple) else VPyList(items)
        if isinstance(obj, VSeq):
            a, b = self.clamp_slice(lo, hi, obj.len)
            k = self.fresh('k', z3.IntSort())
            self.fresh_count += 1
            arr = z3.Lambda([k], z3.Select(obj.arr, k + a))
            return VSeq(z3.If(b > a, b - a, 0), arr, obj.kind)
        raise OutOfSubset(f'slice on {obj!r}')

    def e_Lambda(self, node, env):
        return VFunc(node, env, self.globs_stack[-1] if self.globs_stack else {})

    def e_Starred(self, node, env):
        raise OutOfSubset('starred expression')

    def e_ListComp(self, node, env):
        if len(node.generators) == 1 and not node.generators[0].ifs and \
                isinstance(node.generators[0].target, ast.Name) and isinstance(node.elt, ast.Name) and \
                node.elt.id == node.generators[0].target.id:
            it = self.eval(node.generators[0].iter, env)
            if isinstance(it, VSeq):
                return VSeq(it.len, it.arr, it.kind)      # [x for x in seq]: a fresh list with the same items
            return VPyList(self.iter_concrete(it))
        return VPyList(self.comprehension(node, env))

    def e_GeneratorExp(self, node, env):
        return VTuple(self.comprehension(node, env))

    def comprehension(self, node, env):
        if len(node.generators) != 1:
            raise OutOfSubset('nested comprehension')
        g = node.generators[0]
        items = self.iter_concrete(self.eval(g.iter, env))
        out = []
        for it in items:
            e2 = Env(env)
            self.assign_target(g.target, it, e2)
            if all(self.test(self.eval(c, e2)) for c in g.ifs):
                out.append(self.eval(node.elt, e2))
        return out

    def iter_concrete(self, v: Val) -> list:
        if isinstance(v, (VTuple, VPyList)):
            return list(v.items)
        if isinstance(v, VNative) and isinstance(v.obj, (range, tuple, list, frozenset, set, dict, str)):
            if len(v.obj) > 4096:
                raise OutOfSubset('iteration over a large native container')
            return [lift(x) for x in v.obj]
        if isinstance(v, VRange):
            lo, hi, st = v.lo.conc, v.hi.conc, v.step.conc
            if NOTCONC in (lo, hi, st):
                u = [self.unique_value(x) for x in (v.lo, v.hi, v.step)]
                if None in u:
                    raise OutOfSubset('iteration over a symbolic range without invariant')
                lo, hi, st = (x.conc for x in u)
            return [VInt(x) for x in range(lo, hi, st)]
        if isinstance(v, VDictC):
            return [lift(k) for k in v.d]
        if isinstance(v, VStr) and v.conc is not NOTCONC:
            return [VStr(c) for c in v.conc]
        raise OutOfSubset(f'iteration over {v!r}')

    # ---- calls ------------------------------------------------------------------
    def e_Call(self, node, env):
        key = ast.unparse(node.func)
        if key in self.hooks:
            args, kwargs = self.eval_args(node, env)
            return self.hooks[key](self, node, args, kwargs)
        fn = self.eval(node.func, env)
        args, kwargs = self.eval_args(node, env)
        return self.call(fn, args, kwargs, node)

    def eval_args(self, node, env):
        args = []
        for a in node.args:
            if isinstance(a, ast.Starred):
                args.extend(self.iter_concrete(self.eval(a.value, env)))
            else:
                args.append(self.eval(a, env))
        kwargs = {}
        for k in node.keywords:
            if k.arg is None:
                raise OutOfSubset('**kwargs call')
            kwargs[k.arg] = self.eval(k.value, env)
        return args, kwargs

    def call(self, fn: Val, args, kwargs, node=None) -> Val:
        if isinstance(fn, VFunc):
            return self.call_func(fn, args, kwargs)
        if isinstance(fn, VBound):
            return self.call_method(fn.recv, fn.name, args, kwargs, node)
        if isinstance(fn, VNative):
            return self.call_native(fn.obj, args, kwargs, node)
        if isinstance(fn, VObj):
            # an instance with a __call__ method: Python calls type(obj).__call__(obj, ...)
            return self.call_method(fn, '__call__', args, kwargs, node)
        raise OutOfSubset(f'call of {fn!r}')

    def bind_params(self, fargs: ast.arguments, args, kwargs, env: Env, defaults_env: Env):
        params = [a.arg for a in fargs.posonlyargs + fargs.args]
        defaults = fargs.defaults
        nd = len(defaults)
        args = list(args)
        kwargs = dict(kwargs)
        for k, p in enumerate(params):
            if k < len(args):
                env.vars[p] = args[k]
            elif p in kwargs:
                env.vars[p] = kwargs.pop(p)
            else:
                di = k - (len(params) - nd)
                if di < 0:
                    self.raise_py(TypeError)
                env.vars[p] = self.eval(defaults[di], defaults_env)
        if len(args) > len(params):
            if fargs.vararg is None:
                self.raise_py(TypeError)
            env.vars[fargs.vararg.arg] = VTuple(args[len(params):])
        elif fargs.vararg is not None:
            env.vars[fargs.vararg.arg] = VTuple([])
        for a, d in zip(fargs.kwonlyargs, fargs.kw_defaults):
            if a.arg in kwargs:
                env.vars[a.arg] = kwargs.pop(a.arg)
            elif d is not None:
                env.vars[a.arg] = self.eval(d, defaults_env)
            else:
                self.raise_py(TypeError)
        if kwargs:
            if fargs.kwarg is None:
                self.raise_py(TypeError)
            d = VDictC()
            d.d.update(kwargs)
            env.vars[fargs.kwarg.arg] = d
        elif fargs.kwarg is not None:
            env.vars[fargs.kwarg.arg] = VDictC()

    def call_func(self, fn: VFunc, args, kwargs):
        if self.depth > 12:
            raise OutOfSubset('inlining depth exceeded')
        env = Env(fn.env)
        self.globs_stack.append(fn.globs)
        self.depth += 1
        try:
            self.bind_params(fn.node.args, args, kwargs, env, fn.env or Env())
            if isinstance(fn.node, ast.Lambda):
                return self.eval(fn.node.body, env)
            try:
                self.exec_block(fn.node.body, env)
            except ReturnEx as r:
                return r.val
            return NONE
        finally:
            self.depth -= 1
            self.globs_stack.pop()

    def inline_real(self, pyfn, args, kwargs):
        """Inline a real function of the package by interpreting its extracted AST."""
        from .extract import extract
        ex = extract(pyfn)
        self.inlined_functions.add(f'{ex.fn.__module__}.{ex.qualname}')
        return self.call_func(VFunc(ex.node, None, ex.globals, ex.qualname), args, kwargs)

    inlined_functions: set = set()

    def call_method(self, recv: Val, name: str, args, kwargs, node=None) -> Val:
        from . import models
        r = models.method(self, recv, name, args, kwargs)
        if r is not models.NOMODEL:
            return r
        if isinstance(recv, VObj):
            h = self.hooks.get((recv.pycls.__name__, name))
            if h:
                return h(self, node, [recv] + list(args), kwargs)
            import inspect
            static = inspect.getattr_static(recv.pycls, name, None)
            target = None
            if isinstance(static, classmethod):
                target, margs = static.__func__, [VNative(recv.pycls)] + list(args)
            elif callable(static):
                target, margs = static, [recv] + list(args)
            if target is not None and getattr(target, '__qualname__', None) in self.inline:
                return self.inline_real(target, margs, kwargs)
        raise OutOfSubset(f'method {name} on {recv!r} has no contract/model'
                          f' (line {getattr(node, "lineno", "?")})')

    def call_native(self, f, args, kwargs, node=None) -> Val:
        from . import models
        r = models.function(self, f, args, kwargs)
        if r is not models.NOMODEL:
            return r
        qn = getattr(f, '__qualname__', None)
        if qn in self.inline and hasattr(f, '__code__'):
            return self.inline_real(f, args, kwargs)
        raise OutOfSubset(f'call of {f!r} has no contract/model (line {getattr(node, "lineno", "?")})')

    # ---- statements ---------------------------------------------------------------
    def exec_block(self, stmts, env: Env):
        for st in stmts:
            self.exec(st, env)

    def exec(self, node: ast.stmt, env: Env):
        m = getattr(self, 's_' + type(node).__name__, None)
        if m is None:
            raise OutOfSubset(f'statement {type(node).__name__} at line {node.lineno}')
        return m(node, env)

    def s_Pass(self, node, env):
        pass

    def s_Expr(self, node, env):
        if isinstance(node.value, ast.Constant):
            return
        if isinstance(node.value, (ast.Yield, ast.YieldFrom)):
            return self.do_yield(node.value, env)
        self.eval(node.value, env)

    def s_Assign(self, node, env):
        if isinstance(node.value, (ast.Yield, ast.YieldFrom)):
            raise OutOfSubset('yield as expression value')
        v = self.eval(node.value, env)
        for t in node.targets:
            self.assign_target(t, v, env)

    def s_AnnAssign(self, node, env):
        if node.value is not None:
            self.assign_target(node.target, self.eval(node.value, env), env)

    def s_AugAssign(self, node, env):
        op = self.BINOPS.get(type(node.op))
        if op is None:
            raise OutOfSubset('augmented operator')
        cur = self.eval(_load(node.target), env)
        v = self.eval(node.value, env)
        if isinstance(cur, VPyList) and op == '+':
            self.store_effect('mutate', cur, node)
            cur.items.extend(self.iter_concrete(v))
            return
        self.assign_target(node.target, self.arith(op, cur, v), env)

    def assign_target(self, t, v: Val, env: Env):
        if isinstance(t, ast.Name):
            env.assign(t.id, v)
        elif isinstance(t, (ast.Tuple, ast.List)) and isinstance(v, VItv):
            if self.branch(v.isint):
                self.raise_py(TypeError)          # cannot unpack an int
            if len(t.elts) != 2:
                self.raise_py(ValueError)
            self.assign_target(t.elts[0], VInt(v.lo), env)
            self.assign_target(t.elts[1], VInt(v.hi), env)
        elif isinstance(t, (ast.Tuple, ast.List)) and isinstance(v, VItem) and 'unpack' in self.hooks:
            # an opaque item that stands for a tuple (e.g. a dict entry): the contract supplies its components
            items = self.hooks['unpack'](self, v, len(t.elts))
            for e, i in zip(t.elts, items):
                self.assign_target(e, i, env)
        elif isinstance(t, (ast.Tuple, ast.List)):
            if isinstance(v, VSeq):
                raise OutOfSubset('unpacking a symbolic-length sequence')
            items = self.iter_concrete(v)
            if len(items) != len(t.elts):
                self.raise_py(ValueError)
            for e, i in zip(t.elts, items):
                self.assign_target(e, i, env)
        elif isinstance(t, ast.Attribute):
            obj = self.eval(t.value, env)
            if not isinstance(obj, VObj):
                raise OutOfSubset(f'attribute store on {obj!r}')
            if obj.pycls is DecimalLocalContext:
                if t.attr == 'prec':
                    self.prec_wide = True
                    self.note('A-LOCALPREC: inside `with decimal.localcontext()` after `ctx.prec = ...` the '
                              'precision chosen by the code is assumed sufficient (quantize does not overflow); '
                              'sampled by the encoder validation on values >= 1e28')
                obj.fields[t.attr] = v
                return
            self.store_effect('setattr', obj, t, t.attr, v)
            obj.fields[t.attr] = v
        elif isinstance(t, ast.Subscript):
            obj = self.eval(t.value, env)
            if isinstance(t.slice, ast.Slice):
                raise OutOfSubset('slice store')
            idx = self.eval(t.slice, env)
            self.store_effect('setitem', obj, t)
            if isinstance(obj, VPyList):
                c = idx.conc
                if c is NOTCONC:
                    raise OutOfSubset('symbolic index store')
                if not -len(obj.items) <= c < len(obj.items):
                    self.raise_py(IndexError)
                obj.items[c] = v
            elif isinstance(obj, VDictC):
                c = idx.conc
                if c is NOTCONC:
                    raise OutOfSubset('symbolic dict key store')
                obj.d[c] = v
            elif isinstance(obj, VSeq):
                it = as_int_term(idx)
                if self.branch(z3.Or(it >= obj.len, it < -obj.len)):
                    self.raise_py(IndexError)
                obj.arr = z3.Store(obj.arr, self.norm_index(it, obj.len), obj.kind.unwrap(self.norm_item(v)))
            else:
                raise OutOfSubset(f'subscript store on {obj!r}')
        else:
            raise OutOfSubset('assignment target')

    def store_effect(self, kind, obj, node, attr=None, val=None):
        self.path.effects.append((kind, obj, attr, getattr(node, 'lineno', 0)))

    def s_If(self, node, env):
        if self.test(self.eval(node.test, env)):
            self.exec_block(node.body, env)
        else:
            self.exec_block(node.orelse, env)

    def s_Return(self, node, env):
        raise ReturnEx(self.eval(node.value, env) if node.value is not None else NONE)

    def s_Break(self, node, env):
        raise BreakEx()

    def s_Continue(self, node, env):
        raise ContinueEx()

    def s_Assert(self, node, env):
        if not self.test(self.eval(node.test, env)):
            self.raise_py(AssertionError)

    def s_Global(self, node, env):
        raise OutOfSubset('global statement')

    def s_Nonlocal(self, node, env):
        env.nonlocals.update(node.names)

    def s_FunctionDef(self, node, env):
        env.assign(node.name, VFunc(node, env, self.globs_stack[-1] if self.globs_stack else {}, node.name))

    def s_Import(self, node, env):
        raise OutOfSubset('import inside function')

    s_ImportFrom = s_Import

    def s_Delete(self, node, env):
        for t in node.targets:
            if isinstance(t, ast.Name):
                env.vars.pop(t.id, None)
            elif isinstance(t, ast.Subscript):
                obj = self.eval(t.value, env)
                self.store_effect('delitem', obj, t)
                if isinstance(obj, VPyList) and not isinstance(t.slice, ast.Slice):
                    c = self.eval(t.slice, env).conc
                    if c is NOTCONC:
                        raise OutOfSubset('symbolic del index')
                    if not -len(obj.items) <= c < len(obj.items):
                        self.raise_py(IndexError)
                    del obj.items[c]
                elif isinstance(obj, VSeq) and not isinstance(t.slice, ast.Slice):
                    from . import models
                    models.seq_delitem(self, obj, self.eval(t.slice, env))
                elif isinstance(obj, VSeq) and t.slice.lower is None and t.slice.upper is None:
                    obj.len = z3.IntVal(0)
                elif isinstance(obj, VDictC) and not isinstance(t.slice, ast.Slice):
                    c = self.eval(t.slice, env).conc
                    if c is NOTCONC or c not in obj.d:
                        raise OutOfSubset('del dict key')
                    del obj.d[c]
                else:
                    h = self.hooks.get('delitem')
                    if h and h(self, obj, t, env):
                        continue
                    raise OutOfSubset('del subscript')
            elif isinstance(t, ast.Attribute):
                obj = self.eval(t.value, env)
                self.store_effect('delattr', obj, t, t.attr)
                if isinstance(obj, VObj):
                    obj.fields.pop(t.attr, None)
            else:
                raise OutOfSubset('del target')

    def s_Raise(self, node, env):
        if node.exc is None:
            cur = env.lookup('__current_exc__')
            if cur is None:
                raise OutOfSubset('bare raise outside handler')
            raise PyRaise(cur)
        v = self.eval(node.exc, env)
        if node.cause is not None:
            self.eval(node.cause, env)
        if isinstance(v, VExc):
            raise PyRaise(v)
        if isinstance(v, VNative) and isinstance(v.obj, type) and issubclass(v.obj, BaseException):
            raise PyRaise(VExc(v.obj))
        if isinstance(v, VNative) and isinstance(v.obj, BaseException):
            raise PyRaise(VExc(type(v.obj), getattr(v.obj, 'code', None)))
        raise OutOfSubset(f'raise of {v!r}')

    def match_handler(self, h: ast.ExceptHandler, exc: VExc, env) -> bool:
        if h.type is None:
            return True
        t = self.eval(h.type, env)
        classes = []
        for c in (t.items if isinstance(t, VTuple) else [t]):
            if isinstance(c, VNative) and isinstance(c.obj, type):
                classes.append(c.obj)
            elif isinstance(c, VNative) and isinstance(c.obj, tuple):
                classes.extend(c.obj)
            else:
                raise OutOfSubset('except clause with non-class')
        return issubclass(exc.pycls, tuple(classes))

    def s_Try(self, node, env):
        def run_finally():
            if node.finalbody:
                self.exec_block(node.finalbody, env)
        try:
            try:
                self.exec_block(node.body, env)
            except PyRaise as r:
                for h in node.handlers:
                    if self.match_handler(h, r.exc, env):
                        saved = env.lookup('__current_exc__')
                        env.vars['__current_exc__'] = r.exc
                        if h.name:
                            env.assign(h.name, r.exc)
                        try:
                            self.exec_block(h.body, env)
                        finally:
                            if saved is None:
                                env.vars.pop('__current_exc__', None)
                            else:
                                env.vars['__current_exc__'] = saved
                        break
                else:
                    raise
            else:
                self.exec_block(node.orelse, env)
        except (PyRaise, ReturnEx, BreakEx, ContinueEx):
            run_finally()   # a raise/return inside finally overrides, by Python semantics
            raise
        else:
            run_finally()

    def s_With(self, node, env):
        if len(node.items) == 1:
            mgr = self.eval(node.items[0].context_expr, env)
            if isinstance(mgr, VObj) and mgr.pycls is DecimalLocalContext:
                # decimal.localcontext(): a private copy of the context; on exit the previous
                # context is restored (T-DEP: decimal docs).
                saved = self.prec_wide
                if node.items[0].optional_vars is not None:
                    self.assign_target(node.items[0].optional_vars, mgr, env)
                try:
                    self.exec_block(node.body, env)
                finally:
                    self.prec_wide = saved
                return
        h = self.hooks.get('with')
        if h is not None:
            return h(self, node, env)
        if len(node.items) != 1:
            raise OutOfSubset('with statement with several managers')
        if isinstance(mgr, VObj):
            def enter():
                return self.call_method(mgr, '__enter__', [], {}, node)

            def leave(args):
                return self.call_method(mgr, '__exit__', args, {}, node)
        else:
            # a manager outside the subset (a lock of the threading module, ...): the contract supplies models of its two methods, keyed by the source
            # text of the manager expression
            text = ast.unparse(node.items[0].context_expr)
            h_enter, h_exit = self.hooks.get(text + '.__enter__'), self.hooks.get(text + '.__exit__')
            if h_enter is None or h_exit is None:
                raise OutOfSubset(f'with statement on {mgr!r}')

            def enter():
                return h_enter(self, node, [], {})

            def leave(args):
                return h_exit(self, node, args, {})
        # Python semantics of `with`: __enter__; body; __exit__(exc info) on every exit; an
        # exception propagates unless __exit__ returns a true value.
        entered = enter()
        if node.items[0].optional_vars is not None:
            self.assign_target(node.items[0].optional_vars, entered, env)
        try:
            self.exec_block(node.body, env)
        except PyRaise as r:
            sup = leave([VNative(r.exc.pycls), r.exc, NONE])
            if self.test(sup):
                return
            raise
        except (ReturnEx, BreakEx, ContinueEx):
            leave([NONE, NONE, NONE])
            raise
        else:
            leave([NONE, NONE, NONE])

    prec_wide = False
    known_doubles: list = []

    # loops
    def loop_ordinal(self, node) -> int:
        return self.loop_ordinals.get(id(node), -1)

    def assigned_names(self, stmts) -> list[str]:
        names = []
        for st in stmts:
            for n in ast.walk(st):
                if isinstance(n, ast.Name) and isinstance(n.ctx, (ast.Store, ast.Del)):
                    if n.id not in names:
                        names.append(n.id)
        return names

    MUTATORS = {'append', 'extend', 'insert', 'pop', 'remove', 'clear', 'sort', 'reverse'}

    def mutated_seqs(self, stmts, env):
        """Symbolic sequences the statements may mutate in place (subscript store / del /
        mutating method), found syntactically and resolved in the current environment."""
        exprs = []
        for st in stmts:
            for n in ast.walk(st):
                if isinstance(n, ast.Subscript) and isinstance(n.ctx, (ast.Store, ast.Del)):
                    exprs.append(n.value)
                elif isinstance(n, ast.Call) and isinstance(n.func, ast.Attribute) and n.func.attr in self.MUTATORS:
                    exprs.append(n.func.value)
        for st in stmts:
            for n in ast.walk(st):
                if isinstance(n, ast.Call) and isinstance(n.func, ast.Name) and n.func.id == 'next' and n.args:
                    exprs.append(n.args[0])
        out = []
        for e in exprs:
            if not all(isinstance(x, (ast.Name, ast.Attribute, ast.Load)) for x in ast.walk(e)):
                continue
            try:
                v = self.eval(e, env)
            except (OutOfSubset, PyRaise):
                continue
            if isinstance(v, (VSeq, VIter)) and not any(v is o for o in out):
                out.append(v)
        return out

    def havoc_like(self, name, v: Val) -> Val:
        if isinstance(v, VInt):
            return VInt(self.fresh(name, z3.IntSort()), v.pycls)
        if isinstance(v, VBool):
            return VBool(self.fresh(name, z3.BoolSort()))
        if isinstance(v, VDec):
            return VDec(self.fresh(name, z3.RealSort()))
        if isinstance(v, VStr):
            return VStr(self.fresh(name, z3.StringSort()))
        if isinstance(v, VSeq):
            return VSeq(self.fresh(name + '_len', z3.IntSort()),
                        self.fresh(name + '_arr', z3.ArraySort(z3.IntSort(), v.kind.sort)), v.kind, v.pycls)
        if isinstance(v, VItem):
            return VItem(self.fresh(name, ITEM_SORT))
        if isinstance(v, VItv):
            return VItv(self.fresh(name, ITV_SORT))
        if isinstance(v, VFloat):
            return VFloat(self.fresh(name + '_nan', z3.BoolSort()), self.fresh(name + '_inf', z3.IntSort()),
                          self.fresh(name + '_val', z3.RealSort()), self.fresh(name + '_neg', z3.BoolSort()), v.pycls)
        if isinstance(v, VNone):
            return v
        if isinstance(v, VObj):
            return VObj(v.pycls, {k: self.havoc_like(f'{name}.{k}', f) for k, f in v.fields.items()},
                        name=f'{name}!{self.fresh_count}')
        raise OutOfSubset(f'cannot havoc loop variable {name} = {v!r}')

    def inv_env(self, env: Env) -> Env:
        """Environment for loop invariants: the function's locals, then the contract's names
        and specification functions."""
        spec_env = getattr(self.path, 'spec_env', None)
        if spec_env is None or env is spec_env:
            return env
        e = Env(spec_env)
        e.vars = env.vars          # shared: reflects the current values of the locals
        return e

    def spec_eval(self, expr: str, env: Env) -> Val:
        node = ast.parse(expr, mode='eval').body
        self.pure += 1
        self.globs_stack.append(self.spec_globs)
        try:
            return self.eval(node, env)
        finally:
            self.globs_stack.pop()
            self.pure -= 1

    spec_globs: dict = {}
    mem_hints: list = []
    hint_env = None

    def run_loop(self, node, env, spec: LoopSpec, head, body_prefix):
        """Generic invariant-based loop cut.
        head(env) -> z3 Bool continue-condition (may have side effects on env like binding
        the loop variable through body_prefix)."""
        ordinal = self.loop_ordinal(node)
        tag = f'loop{ordinal}@{node.lineno}'
        ienv = self.inv_env(env)      # invariants see contract names too
        self.hint_env = ienv
        # 1. invariant holds on entry
        for k, inv in enumerate(spec.invariants):
            self.oblige(f'{tag}.inv{k}.entry', self.truthy(self.spec_eval(inv, ienv)), 'V', inv)
        mode = self.choose(2, tag)
        self.path.havocked = True      # from here on the state is an arbitrary loop state, not a concrete run
        # 2. havoc everything the body may assign
        names = self.assigned_names(node.body) + list(spec.havoc_extra)
        if isinstance(node, ast.For):
            names += self.assigned_names([ast.Expr(value=_load(node.target))]) if False else []
        for n in names:
            cur = env.lookup(n)
            if cur is not None:
                env.assign(n, self.havoc_like(n, cur))
        for sq in self.mutated_seqs(node.body, env):
            if isinstance(sq, VIter):
                sq.pos = self.fresh('iter_pos', z3.IntSort())
                continue
            sq.len = self.fresh('seq_len', z3.IntSort())
            sq.arr = self.fresh('seq_arr', z3.ArraySort(z3.IntSort(), sq.kind.sort))
            self.path.pc.append(sq.len >= 0)
        # object fields stored to in the body or by the loop target (e.g. `for ctx.position, ctx.item in ...`)
        attr_nodes = [n for st in (list(node.body) + ([node.target] if isinstance(node, ast.For) else []))
                      for n in ast.walk(st) if isinstance(n, ast.Attribute) and isinstance(n.ctx, ast.Store)]
        done = set()
        for an in attr_nodes:
            if not all(isinstance(x, (ast.Name, ast.Attribute, ast.Load, ast.Store)) for x in ast.walk(an.value)):
                continue
            try:
                ob = self.eval(_load(an.value), env)
            except (OutOfSubset, PyRaise):
                continue
            if isinstance(ob, VObj) and (id(ob), an.attr) not in done and an.attr in ob.fields:
                done.add((id(ob), an.attr))
                ob.fields[an.attr] = self.havoc_like(f'{ob.name}.{an.attr}', ob.fields[an.attr])
        if spec.havoc_hook is not None:
            spec.havoc_hook(self, env)
        ghost_i = env.lookup(f'_i{ordinal}')
        if ghost_i is not None:
            env.assign(f'_i{ordinal}', self.havoc_like(f'_i{ordinal}', ghost_i))
        if self.path.out is not None and _contains_yield(node.body):
            self.path.out = self.havoc_like('out', self.path.out)
            env.vars['out'] = self.path.out
        for inv in spec.invariants:
            self.assume(self.truthy(self.spec_eval(inv, ienv)))
        cond = head(env)
        if mode == 0:
            self.assume(cond)
            var0 = None
            if spec.variant:
                var0 = as_int_term(self.spec_eval(spec.variant, ienv))
            body_prefix(env)
            try:
                self.exec_block(node.body, env)
            except ContinueEx:
                pass
            except BreakEx:
                return   # genuine exit through break: continue after the loop (no else)
            self.loop_step(node, env)
            for k, inv in enumerate(spec.invariants):
                self.oblige(f'{tag}.inv{k}.preserved', self.truthy(self.spec_eval(inv, ienv)), 'V', inv)
            if spec.variant:
                var1 = as_int_term(self.spec_eval(spec.variant, ienv))
                self.oblige(f'{tag}.variant', z3.And(var0 >= 0, var1 < var0), 'V', spec.variant)
            raise PathEnd('cut')
        else:
            self.assume(z3.Not(cond))
            self.exec_block(node.orelse, env)

    def loop_step(self, node, env):
        if isinstance(node, ast.For):
            ordinal = self.loop_ordinal(node)
            i = env.lookup(f'_i{ordinal}')
            if i is not None:
                env.assign(f'_i{ordinal}', VInt(i.t + 1))

    def s_While(self, node, env):
        spec = self.loops.get(self.loop_ordinal(node))
        if spec is None or spec.unroll:
            n = 0
            limit = spec.unroll if spec else self.max_unroll
            while True:
                if not self.test(self.eval(node.test, env)):
                    self.exec_block(node.orelse, env)
                    return
                n += 1
                if n > limit:
                    raise OutOfSubset(f'while loop at line {node.lineno} needs an invariant (unrolled {limit}x)')
                try:
                    self.exec_block(node.body, env)
                except BreakEx:
                    return
                except ContinueEx:
                    continue
        self.run_loop(node, env, spec, lambda e: self.truthy(self.eval(node.test, e)), lambda e: None)

    def s_For(self, node, env):
        it = self.eval(node.iter, env)
        ordinal = self.loop_ordinal(node)
        spec = self.loops.get(ordinal)
        if isinstance(it, VRange) and NOTCONC in (it.lo.conc, it.hi.conc, it.step.conc) and spec is None:
            u = [self.unique_value(x) for x in (it.lo, it.hi, it.step)]
            if None not in u:
                it = VRange(*u)
        if isinstance(it, VRange) and NOTCONC in (it.lo.conc, it.hi.conc, it.step.conc) or isinstance(it, (VSeq, VEnum)):
            if spec is None:
                raise OutOfSubset(f'for loop at line {node.lineno} over a symbolic sequence needs an invariant')
            gi = f'_i{ordinal}'
            env.assign(gi, VInt(0))
            if isinstance(it, VSeq):
                seq = it
                cond = lambda e: e.lookup(gi).t < seq.len
                prefix = lambda e: self.assign_target(node.target, seq.get(e.lookup(gi).t), e)
            elif isinstance(it, VEnum):
                seq = it.seq        # the live list: its length is re-read at every iteration
                st = as_int_term(it.start)
                cond = lambda e: e.lookup(gi).t < seq.len
                prefix = lambda e: self.assign_target(
                    node.target, VTuple([VInt(st + e.lookup(gi).t), seq.get(e.lookup(gi).t)]), e)
            elif it.step.conc == -1:
                cond = lambda e: it.lo.t - e.lookup(gi).t > it.hi.t
                prefix = lambda e: self.assign_target(node.target, VInt(it.lo.t - e.lookup(gi).t), e)
            else:
                if it.step.conc != 1:
                    raise OutOfSubset('symbolic range with step != 1')
                cond = lambda e: it.lo.t + e.lookup(gi).t < it.hi.t
                prefix = lambda e: self.assign_target(node.target, VInt(it.lo.t + e.lookup(gi).t), e)
            inv_i = f'{gi} >= 0'
            spec2 = LoopSpec([inv_i] + spec.invariants, spec.variant, None, spec.havoc_extra, spec.havoc_hook)
            # bound of the ghost index
            # (no implicit bound on the ghost index: the list may be mutated; contracts state it)
            return self.run_loop(node, env, spec2, cond, prefix)
        if isinstance(it, VIter) and isinstance(it.seq, (VPyList, VTuple)):
            items = list(it.seq.items)
        else:
            items = self.iter_concrete(it)
        if len(items) > (spec.unroll if spec and spec.unroll else self.max_unroll):
            raise OutOfSubset(f'for loop at line {node.lineno}: {len(items)} iterations')
        for item in items:
            self.assign_target(node.target, item, env)
            try:
                self.exec_block(node.body, env)
            except BreakEx:
                return
            except ContinueEx:
                continue
        self.exec_block(node.orelse, env)

    def do_yield(self, node, env):
        if self.path.out is None:
            raise OutOfSubset('yield outside a generator contract')
        out = self.path.out
        if isinstance(node, ast.Yield):
            v = self.eval(node.value, env) if node.value is not None else NONE
            self.yield_value(v, env)
        else:
            v = self.eval(node.value, env)
            if isinstance(v, (VTuple, VPyList)):
                for i in v.items:
                    self.yield_value(i, env)
            elif isinstance(v, VSeq):
                k = z3.Int('k!yf')
                base = out.len
                arr = z3.Lambda([k], z3.If(k < base, z3.Select(out.arr, k), z3.Select(v.arr, k - base)))
                self.path.out = VSeq(base + v.len, arr, out.kind)
                env.vars['out'] = self.path.out
            else:
                raise OutOfSubset(f'yield from {v!r}')

    def yield_value(self, v, env):
        out = self.path.out
        h = self.hooks.get('yield')
        if h:
            h(self, v, env)
        self.path.out = VSeq(out.len + 1, z3.Store(out.arr, out.len, out.kind.unwrap(v)), out.kind)
        env.vars['out'] = self.path.out

    def s_Match(self, node, env):
        subject = self.eval(node.subject, env)
        for case in node.cases:
            e2 = env
            if self.match_pattern(case.pattern, subject, e2):
                if case.guard is None or self.test(self.eval(case.guard, e2)):
                    self.exec_block(case.body, e2)
                    return

    def match_pattern(self, pat, subject: Val, env) -> bool:
        if isinstance(pat, ast.MatchAs):
            if pat.pattern is not None and not self.match_pattern(pat.pattern, subject, env):
                return False
            if pat.name:
                env.assign(pat.name, subject)
            return True
        if isinstance(pat, ast.MatchOr):
            return any(self.match_pattern(p, subject, env) for p in pat.patterns)
        if isinstance(pat, ast.MatchClass):
            if pat.patterns or pat.kwd_patterns:
                raise OutOfSubset('class pattern with sub-patterns')
            cls = self.eval(pat.cls, env)
            return self.branch(models_isinstance(self, subject, cls))
        if isinstance(pat, ast.MatchValue):
            return self.branch(self.eq(subject, self.eval(pat.value, env)))
        if isinstance(pat, ast.MatchSingleton):
            return self.branch(self.identical(subject, lift(pat.value)))
        if isinstance(pat, ast.MatchSequence):
            if not isinstance(subject, (VTuple, VPyList)):
                return False
            if len(pat.patterns) != len(subject.items):
                return False
            return all(self.match_pattern(p, s, env) for p, s in zip(pat.patterns, subject.items))
        raise OutOfSubset(f'pattern {type(pat).__name__}')


class DecimalLocalContext:
    """Marker class of the object returned by decimal.localcontext()."""


class VIter(Val):
    """iter(seq): an iterator with a position (mutable)."""
    pycls = type(iter([]))

    def __init__(self, seq, pos=0):
        self.seq = seq
        self.pos = z3.IntVal(pos) if isinstance(pos, int) else pos


class VEnum(Val):
    """enumerate(seq, start) over a symbolic-length sequence"""

    def __init__(self, seq, start):
        self.seq, self.start = seq, start


class VSlice(Val):
    pycls = slice

    def __init__(self, lo, hi):
        self.lo, self.hi = lo, hi


class VRange(Val):
    pycls = range

    def __init__(self, lo, hi, step):
        self.lo, self.hi, self.step = lo, hi, step


class VDictC(Val):
    """A dict with concrete keys."""
    pycls = dict

    def __init__(self, d=None, fresh=True):
        self.d = dict(d or {})
        self.fresh = fresh

    def rep(self):
        return {}


def models_isinstance(ex, v, cls):
    from . import models
    return models.isinstance_(ex, v, cls)


def lift_global(x):
    try:
        return lift(x)
    except OutOfSubset:
        return VNative(x)


def _load(t):
    import copy
    t2 = copy.deepcopy(t)
    for n in ast.walk(t2):
        if hasattr(n, 'ctx'):
            n.ctx = ast.Load()
    return t2


def _contains_yield(stmts):
    for st in stmts:
        for n in ast.walk(st):
            if isinstance(n, (ast.Yield, ast.YieldFrom)):
                return True
    return False


def number_loops(fnode: ast.AST) -> dict[int, int]:
    """Pre-order ordinals of the while/for loops of a function (nested defs included)."""
    out = {}
    k = 0
    for n in ast.walk(fnode):
        pass
    def visit(n):
        nonlocal k
        for c in ast.iter_child_nodes(n):
            if isinstance(c, (ast.For, ast.While)):
                out[id(c)] = k
                k += 1
            visit(c)
    visit(fnode)
    return out
