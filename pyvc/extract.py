"""Extraction of the real function source, with a binding check.

resolve -> live function object -> (file, first line) -> ast.FunctionDef of the
working-tree file -> recompiled alone -> instruction streams compared with the
live object's code.  What extraction drops: decorators (their effect is taken
from the run-time registry), annotations, docstrings, comments.
"""
from __future__ import annotations

import ast
import dis
import hashlib
import inspect
import os
import types

REPO_ROOT = os.path.realpath(os.environ.get('VERIF_REPO', '/repo'))      # scratch copies for self-tests only; registered commands use /repo
REPO_PKG = os.path.join(REPO_ROOT, 'elementpath')

_file_cache: dict[str, tuple[str, ast.Module]] = {}


class ExtractError(Exception):
    pass


def _parse_file(path: str):
    path = os.path.realpath(path)
    if path not in _file_cache:
        with open(path, encoding='utf-8') as fh:
            src = fh.read()
        _file_cache[path] = (src, ast.parse(src, filename=path))
    return _file_cache[path]


def unwrap(fn):
    """Follow decorators/wrappers down to a plain function with __code__."""
    seen = 0
    while seen < 10:
        seen += 1
        if isinstance(fn, (staticmethod, classmethod)):
            fn = fn.__func__
        elif isinstance(fn, property):
            fn = fn.fget
        elif isinstance(fn, types.MethodType):
            fn = fn.__func__
        elif hasattr(fn, '__wrapped__'):
            fn = fn.__wrapped__
        else:
            break
    if not hasattr(fn, '__code__'):
        raise ExtractError(f'not a Python function: {fn!r}')
    return fn


def _find_def(tree: ast.AST, lineno: int, name: str):
    """Find the FunctionDef whose first line (decorators included) is lineno."""
    best = None
    for node in ast.walk(tree):
        if isinstance(node, (ast.FunctionDef, ast.AsyncFunctionDef)) and node.name == name:
            first = min([node.lineno] + [d.lineno for d in node.decorator_list])
            if first == lineno or node.lineno == lineno:
                best = node
                break
    return best


def _enclosing_chain(tree: ast.AST, target: ast.AST):
    """Return the list of enclosing ClassDef/FunctionDef nodes of target (outermost first)."""
    chain: list[ast.AST] = []

    def visit(node, stack):
        if node is target:
            chain.extend(stack)
            return True
        for child in ast.iter_child_nodes(node):
            ns = stack + [node] if isinstance(node, (ast.ClassDef, ast.FunctionDef)) else stack
            if visit(child, ns):
                return True
        return False

    visit(tree, [])
    return chain


def _instr_stream(code: types.CodeType):
    instrs = list(dis.get_instructions(code))
    index_of = {ins.offset: k for k, ins in enumerate(instrs)}
    out = []
    for ins in instrs:
        av = ins.argval
        if isinstance(av, types.CodeType):
            av = ('<code>', av.co_name)
        elif ins.opcode in dis.hasjrel or ins.opcode in dis.hasjabs:
            # jump targets are compared as instruction indices, not byte offsets
            av = ('jump', index_of.get(ins.argval, -1))
        out.append((ins.opname, av))
    return out


def _consts(code: types.CodeType):
    out = []
    for c in code.co_consts:
        if isinstance(c, types.CodeType):
            out.append(('<code>', c.co_name, tuple(_instr_stream(c)), _consts(c)))
        else:
            out.append(c)
    return tuple(repr(x) if not isinstance(x, tuple) else x for x in out)


def _same_code(a: types.CodeType, b: types.CodeType) -> str | None:
    if _instr_stream(a) != _instr_stream(b):
        return 'instruction streams differ'
    if _consts(a) != _consts(b):
        return 'co_consts differ'
    if a.co_names != b.co_names:
        return 'co_names differ'
    if a.co_varnames != b.co_varnames:
        return 'co_varnames differ'
    return None


def _find_code(code: types.CodeType, name: str, firstlineno: int):
    for c in code.co_consts:
        if isinstance(c, types.CodeType):
            if c.co_name == name and c.co_firstlineno == firstlineno:
                return c
            r = _find_code(c, name, firstlineno)
            if r is not None:
                return r
    return None


class Extracted:
    def __init__(self, fn, node, path, src):
        self.fn = fn
        self.node: ast.FunctionDef = node
        self.path = path
        self.first = min([node.lineno] + [d.lineno for d in node.decorator_list])
        self.last = node.end_lineno
        seg = '\n'.join(src.splitlines()[self.first - 1:self.last])
        self.sha256 = hashlib.sha256(seg.encode()).hexdigest()
        self.qualname = fn.__qualname__
        self.globals = fn.__globals__

    def describe(self):
        return {'function': f'{self.fn.__module__}.{self.qualname}',
                'file': self.path, 'lines': [self.first, self.last], 'sha256': self.sha256}


def extract(fn, check_binding: bool = True) -> Extracted:
    fn = unwrap(fn)
    code = fn.__code__
    path = os.path.realpath(code.co_filename)
    if not path.startswith(REPO_PKG + os.sep):
        raise ExtractError(f'{fn.__qualname__}: source {path} is not under {REPO_PKG}')
    src, tree = _parse_file(path)
    node = _find_def(tree, code.co_firstlineno, code.co_name)
    if node is None:
        raise ExtractError(f'{fn.__qualname__}: no def {code.co_name} at {path}:{code.co_firstlineno}')
    if check_binding:
        # Recompile the extracted definition in the same lexical nesting (classes /
        # enclosing functions reduced to shells so that name mangling, __class__ cells
        # and free variables resolve the same way), decorators stripped.
        chain = _enclosing_chain(tree, node)
        clone = ast.parse(_strip_decorators(src, node)).body[0]
        if isinstance(clone, ast.If):
            clone = clone.body[0]
        ast.increment_lineno(clone, node.lineno - clone.lineno)
        if any(isinstance(c, ast.FunctionDef) for c in chain):
            # nested in a function: compile the outermost enclosing function instead
            outer = next(c for c in chain if isinstance(c, ast.FunctionDef))
            holder: ast.AST = outer
            for c in reversed(chain[:chain.index(outer)]):
                holder = ast.ClassDef(name=c.name, bases=[], keywords=[], body=[holder],
                                      decorator_list=[], type_params=[])
            mod = ast.Module(body=[holder], type_ignores=[])
        else:
            holder = clone
            for c in reversed(chain):
                holder = ast.ClassDef(name=c.name, bases=[], keywords=[], body=[holder],
                                      decorator_list=[], type_params=[])
            mod = ast.Module(body=[holder], type_ignores=[])
        ast.fix_missing_locations(mod)
        top = compile(mod, path, 'exec', dont_inherit=True,
                      flags=_future_flags(tree))
        rec = _find_code(top, code.co_name, node.lineno)
        if rec is None:
            raise ExtractError(f'{fn.__qualname__}: recompiled code object not found')
        why = _same_code(code, rec)
        if why:
            raise ExtractError(f'{fn.__qualname__}: binding check failed ({why}); '
                               f'the live function is not the text at {path}:{node.lineno}')
    return Extracted(fn, node, path, src)


def _strip_decorators(src: str, node: ast.FunctionDef) -> str:
    """Source of the def without its decorators, text otherwise unchanged (an
    indented def is wrapped in ``if 1:`` so that docstring constants keep their text)."""
    lines = src.splitlines()
    seg = lines[node.lineno - 1:node.end_lineno]
    indent = len(seg[0]) - len(seg[0].lstrip())
    if indent:
        return 'if 1:\n' + '\n'.join(seg)
    return '\n'.join(seg)


def _future_flags(tree: ast.Module) -> int:
    import __future__
    flags = 0
    for st in tree.body:
        if isinstance(st, ast.ImportFrom) and st.module == '__future__':
            for a in st.names:
                flags |= getattr(__future__, a.name).compiler_flag
    return flags


def spec_ast(fn) -> ast.FunctionDef:
    """AST of a spec function defined in /verif/contracts (no binding check)."""
    src = inspect.getsource(fn)
    import textwrap
    node = ast.parse(textwrap.dedent(src)).body[0]
    node.decorator_list = []
    return node
