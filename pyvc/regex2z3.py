"""Translate a Python `re` pattern (via the stdlib sre parser) into a z3 regular expression.

Supported: literals, character classes with ranges, the negations over the solver alphabet,
alternation, groups (capturing or not), bounded and unbounded repetition, '.', ^ and $ at the ends
(the translation denotes the set of strings the pattern matches entirely, a final newline before $
is not modelled).  Anything else (look-arounds, back-references, \\w \\d \\s categories) raises
Unsupported: no obligation is generated for that pattern (reported undecided, bounded stand-in).
"""
from __future__ import annotations

import z3

try:
    import re._parser as sre_parse
    import re._constants as sre_constants
except ImportError:      # pragma: no cover
    import sre_parse
    import sre_constants


class Unsupported(Exception):
    pass


def _char(c):
    return z3.Re(z3.StringVal(chr(c))) if c < 128 else z3.Re(z3.Unit(z3.CharFromBv(z3.BitVecVal(c, 18)))) \
        if False else z3.Re(z3.StringVal(chr(c)))


def _range(lo, hi):
    return z3.Range(z3.StringVal(chr(lo)), z3.StringVal(chr(hi)))


ANY = z3.AllChar(z3.ReSort(z3.StringSort()))


def translate(pattern: str):
    tree = sre_parse.parse(pattern)
    items = list(tree)
    # strip anchors at the ends
    if items and items[0][0] is sre_constants.AT and items[0][1] in (sre_constants.AT_BEGINNING, sre_constants.AT_BEGINNING_STRING):
        items = items[1:]
    if items and items[-1][0] is sre_constants.AT and items[-1][1] in (sre_constants.AT_END, sre_constants.AT_END_STRING):
        items = items[:-1]
    return _seq(items)


def _seq(items):
    parts = [_node(op, av) for op, av in items]
    if not parts:
        return z3.Re(z3.StringVal(''))
    r = parts[0]
    for p in parts[1:]:
        r = z3.Concat(r, p)
    return r


def _union(parts):
    r = parts[0]
    for p in parts[1:]:
        r = z3.Union(r, p)
    return r


def _node(op, av):
    if op is sre_constants.LITERAL:
        return _char(av)
    if op is sre_constants.NOT_LITERAL:
        return z3.Intersect(ANY, z3.Complement(_char(av)))
    if op is sre_constants.ANY:
        return z3.Intersect(ANY, z3.Complement(_char(10)))
    if op is sre_constants.IN:
        neg = False
        parts = []
        for iop, iav in av:
            if iop is sre_constants.NEGATE:
                neg = True
            elif iop is sre_constants.LITERAL:
                parts.append(_char(iav))
            elif iop is sre_constants.RANGE:
                parts.append(_range(*iav))
            else:
                raise Unsupported(f'class item {iop}')
        u = _union(parts) if parts else z3.Empty(z3.ReSort(z3.StringSort()))
        return z3.Intersect(ANY, z3.Complement(u)) if neg else u
    if op is sre_constants.BRANCH:
        return _union([_seq(list(b)) for b in av[1]])
    if op is sre_constants.SUBPATTERN:
        return _seq(list(av[3]))
    if op in (sre_constants.MAX_REPEAT, sre_constants.MIN_REPEAT):
        lo, hi, sub = av
        r = _seq(list(sub))
        if hi is sre_constants.MAXREPEAT:
            if lo == 0:
                return z3.Star(r)
            if lo == 1:
                return z3.Plus(r)
            return z3.Concat(z3.Loop(r, lo, lo), z3.Star(r))
        return z3.Loop(r, lo, hi)
    if op is sre_constants.AT:
        raise Unsupported('anchor inside the pattern')
    raise Unsupported(str(op))


def language_difference(re_a, re_b, timeout_ms=20000, max_len=None):
    """A string in L(a) \\ L(b), or None if the solver proves inclusion; 'unknown' on timeout."""
    s = z3.String('w')
    sol = z3.Solver()
    sol.set('timeout', timeout_ms)
    sol.add(z3.InRe(s, re_a), z3.Not(z3.InRe(s, re_b)))
    if max_len:
        sol.add(z3.Length(s) <= max_len)
    r = sol.check()
    if r == z3.unsat:
        return None
    if r == z3.sat:
        return sol.model()[s].as_string()
    return 'unknown'
