"""Translate a Python `re` pattern (via the stdlib sre parser) into a z3 regular expression.

Supported: literals, character classes with ranges, the negations over the solver alphabet,
alternation, groups (capturing or not), bounded and unbounded repetition, '.', ^ and $ at the ends
(the translation denotes the set of strings the pattern matches entirely, a final newline before $
is not modelled).  Anything else (look-arounds, back-references, \\w \\d \\s categories) raises
Unsupported: no obligation is generated for that pattern (reported undecided, bounded stand-in).
"""
from __future__ import annotations

import z3

try:
    import re._parser as sre_parse
    import re._constants as sre_constants
except ImportError:      # pragma: no cover
    import sre_parse
    import sre_constants


class Unsupported(Exception):
    pass


def _char(c):
    return z3.Re(z3.StringVal(chr(c))) if c < 128 else z3.Re(z3.Unit(z3.CharFromBv(z3.BitVecVal(c, 18)))) \
        if False else z3.Re(z3.StringVal(chr(c)))


def _range(lo, hi):
    return z3.Range(z3.StringVal(chr(lo)), z3.StringVal(chr(hi)))


ANY = z3.AllChar(z3.ReSort(z3.StringSort()))


_ALPHABET = None


def translate(pattern: str, alphabet=None):
    """alphabet: a finite list of characters; with it \\d \\w \\s and negations take Python's own Unicode meaning, decided per character by
    the re engine, and the universe of negated classes and '.' is the alphabet."""
    global _ALPHABET, ANY
    saved = (_ALPHABET, ANY)
    _ALPHABET = alphabet
    if alphabet is not None:
        ANY = _union([_char(ord(c)) for c in alphabet])
    try:
        return _translate(pattern)
    finally:
        _ALPHABET, ANY = saved


def _translate(pattern: str):
    tree = sre_parse.parse(pattern)
    items = list(tree)
    # strip anchors at the ends
    if items and items[0][0] is sre_constants.AT and items[0][1] in (sre_constants.AT_BEGINNING, sre_constants.AT_BEGINNING_STRING):
        items = items[1:]
    if items and items[-1][0] is sre_constants.AT and items[-1][1] in (sre_constants.AT_END, sre_constants.AT_END_STRING):
        items = items[:-1]
    return _seq(items)


def _seq(items):
    items = list(items)
    for i, (op, av) in enumerate(items):
        if op in (sre_constants.ASSERT, sre_constants.ASSERT_NOT):
            # look-ahead: the rest of this sequence must (not) start with the asserted expression
            direction, sub = av
            if direction != 1:
                raise Unsupported('look-behind')
            ahead = z3.Concat(_seq(list(sub)), z3.Star(ANY))
            if op is sre_constants.ASSERT_NOT:
                ahead = z3.Complement(ahead)
            rest = z3.Intersect(ahead, _seq(items[i + 1:]))
            head = items[:i]
            return z3.Concat(_seq(head), rest) if head else rest
    parts = [_node(op, av) for op, av in items]
    if not parts:
        return z3.Re(z3.StringVal(''))
    r = parts[0]
    for p in parts[1:]:
        r = z3.Concat(r, p)
    return r


_CAT_RE = {}


def _category_has(cat, c):
    import re as _re
    probes = {sre_constants.CATEGORY_DIGIT: r'\d', sre_constants.CATEGORY_NOT_DIGIT: r'\D', sre_constants.CATEGORY_WORD: r'\w',
              sre_constants.CATEGORY_NOT_WORD: r'\W', sre_constants.CATEGORY_SPACE: r'\s', sre_constants.CATEGORY_NOT_SPACE: r'\S'}
    if cat not in probes:
        raise Unsupported(f'category {cat}')
    if cat not in _CAT_RE:
        _CAT_RE[cat] = _re.compile(probes[cat])
    return _CAT_RE[cat].fullmatch(c) is not None


def _category(cat):
    if _ALPHABET is not None:
        import re as _re
        probes = {sre_constants.CATEGORY_DIGIT: r'\d', sre_constants.CATEGORY_NOT_DIGIT: r'\D', sre_constants.CATEGORY_WORD: r'\w',
                  sre_constants.CATEGORY_NOT_WORD: r'\W', sre_constants.CATEGORY_SPACE: r'\s', sre_constants.CATEGORY_NOT_SPACE: r'\S'}
        if cat not in probes:
            raise Unsupported(f'category {cat}')
        rx = _re.compile(probes[cat])
        chars = [c for c in _ALPHABET if rx.fullmatch(c)]
        if not chars:
            return z3.Empty(z3.ReSort(z3.StringSort()))
        return _union([_char(ord(c)) for c in chars])
    return _category_ascii(cat)


def _category_ascii(cat):
    """ASCII reading of \\d \\w \\s (exact on ASCII strings only: callers restrict the alphabet)."""
    digit = _range(48, 57)
    word = _union([digit, _range(65, 90), _range(97, 122), _char(95)])
    space = _union([_char(c) for c in (32, 9, 10, 13, 11, 12, 28, 29, 30, 31)])
    table = {sre_constants.CATEGORY_DIGIT: digit, sre_constants.CATEGORY_WORD: word, sre_constants.CATEGORY_SPACE: space}
    if cat in table:
        return table[cat]
    neg = {sre_constants.CATEGORY_NOT_DIGIT: digit, sre_constants.CATEGORY_NOT_WORD: word, sre_constants.CATEGORY_NOT_SPACE: space}
    if cat in neg:
        return z3.Intersect(ANY, z3.Complement(neg[cat]))
    raise Unsupported(f'category {cat}')


def _union(parts):
    r = parts[0]
    for p in parts[1:]:
        r = z3.Union(r, p)
    return r


def _node(op, av):
    if op is sre_constants.LITERAL:
        return _char(av)
    if op is sre_constants.NOT_LITERAL:
        return z3.Intersect(ANY, z3.Complement(_char(av)))
    if op is sre_constants.ANY:
        return z3.Intersect(ANY, z3.Complement(_char(10)))
    if op is sre_constants.IN and _ALPHABET is not None:
        # over a finite alphabet a class is the set of alphabet characters it contains (keeps huge Unicode classes small)
        neg = any(iop is sre_constants.NEGATE for iop, _ in av)
        chars = []
        for c in _ALPHABET:
            o, hit = ord(c), False
            for iop, iav in av:
                if iop is sre_constants.LITERAL:
                    hit = hit or iav == o
                elif iop is sre_constants.RANGE:
                    hit = hit or iav[0] <= o <= iav[1]
                elif iop is sre_constants.CATEGORY:
                    hit = hit or _category_has(iav, c)
                elif iop is not sre_constants.NEGATE:
                    raise Unsupported(f'class item {iop}')
            if hit != neg:
                chars.append(c)
        if not chars:
            return z3.Empty(z3.ReSort(z3.StringSort()))
        return _union([_char(ord(c)) for c in chars])
    if op is sre_constants.IN:
        neg = False
        parts = []
        for iop, iav in av:
            if iop is sre_constants.NEGATE:
                neg = True
            elif iop is sre_constants.LITERAL:
                parts.append(_char(iav))
            elif iop is sre_constants.RANGE:
                parts.append(_range(*iav))
            elif iop is sre_constants.CATEGORY:
                parts.append(_category(iav))
            else:
                raise Unsupported(f'class item {iop}')
        u = _union(parts) if parts else z3.Empty(z3.ReSort(z3.StringSort()))
        return z3.Intersect(ANY, z3.Complement(u)) if neg else u
    if op is sre_constants.CATEGORY:
        return _category(av)
    if op is sre_constants.BRANCH:
        return _union([_seq(list(b)) for b in av[1]])
    if op is sre_constants.SUBPATTERN:
        return _seq(list(av[3]))
    if op in (sre_constants.MAX_REPEAT, sre_constants.MIN_REPEAT):
        lo, hi, sub = av
        r = _seq(list(sub))
        if hi is sre_constants.MAXREPEAT:
            if lo == 0:
                return z3.Star(r)
            if lo == 1:
                return z3.Plus(r)
            return z3.Concat(z3.Loop(r, lo, lo), z3.Star(r))
        return z3.Loop(r, lo, hi)
    if op is sre_constants.AT:
        raise Unsupported('anchor inside the pattern')
    raise Unsupported(str(op))


def language_difference(re_a, re_b, timeout_ms=20000, max_len=None, ascii_only=False):
    """A string in L(a) \\ L(b), or None if the solver proves inclusion; 'unknown' on timeout."""
    s = z3.String('w')
    sol = z3.Solver()
    sol.set('timeout', timeout_ms)
    sol.add(z3.InRe(s, re_a), z3.Not(z3.InRe(s, re_b)))
    if max_len:
        sol.add(z3.Length(s) <= max_len)
    if ascii_only:
        sol.add(z3.InRe(s, z3.Star(_range(0, 127))))
    r = sol.check()
    if r == z3.unsat:
        return None
    if r == z3.sat:
        return sol.model()[s].as_string()
    return 'unknown'
