"""Contracts, verification-condition generation, discharge, replay."""
from __future__ import annotations

import ast
import hashlib
import json
import os
import random
import subprocess
import time
import traceback
import z3

from .values import *  # noqa
from . import interp as I
from .extract import extract, spec_ast, ExtractError

VERIF = os.path.dirname(os.path.dirname(os.path.abspath(__file__)))


class Sym:
    """Factory of named symbolic inputs; remembers them for model extraction."""

    def __init__(self):
        self.inputs: dict[str, Val] = {}

    def int(self, name, pycls=int):
        v = VInt(z3.Int(name), pycls)
        self.inputs[name] = v
        return v

    def bool(self, name):
        v = VBool(z3.Bool(name))
        self.inputs[name] = v
        return v

    def dec(self, name):
        v = VDec(z3.Real(name))    # sign bit defaults to value < 0 (inputs are never Decimal('-0'))
        self.inputs[name] = v
        return v

    def float(self, name, pycls=float, ex=None):
        """A symbolic double.  With `ex` the value is case-split (both cases explored):
        magnitude < 2**53 (an arbitrary rational in range: A-FP) or >= 2**53 (an integer,
        as every double of that magnitude is), which keeps to_int reasoning linear."""
        if ex is not None and ex.choose(2, 'float-form') == 1:
            k = z3.Int(name + '.ival')
            v = VFloat(z3.Bool(name + '.nan'), z3.Int(name + '.inf'), z3.ToReal(k), z3.Bool(name + '.neg'), pycls)
            v.ival = k
            v.form = 'big'
        else:
            v = VFloat(z3.Bool(name + '.nan'), z3.Int(name + '.inf'), z3.Real(name + '.val'),
                       z3.Bool(name + '.neg'), pycls)
            v.form = 'small' if ex is not None else 'any'
        self.inputs[name] = v
        return v

    def str(self, name):
        v = VStr(z3.String(name))
        self.inputs[name] = v
        return v

    def seq(self, name, kind=K_ITEM):
        v = VSeq(z3.Int(name + '.len'), z3.Array(name + '.arr', z3.IntSort(), kind.sort), kind)
        self.inputs[name] = v
        return v

    def item(self, name):
        v = VItem(z3.Const(name, ITEM_SORT))
        self.inputs[name] = v
        return v

    def enum(self, name, values):
        """A value ranging over a finite list of concrete Python values: returned as a
        symbolic int index plus the list (the contract case-splits with ex.choose)."""
        raise NotImplementedError


FLOAT_MAX = z3.RealVal((2 ** 53 - 1) * 2 ** 971)


def float_wf(v: VFloat):
    """Well-formedness of the float encoding (the type invariant of the model)."""
    return z3.And(z3.Or(v.inf == -1, v.inf == 0, v.inf == 1),
                  z3.Implies(v.nan, z3.And(v.inf == 0, v.val == 0)),
                  z3.Implies(v.inf != 0, z3.And(v.val == 0, v.neg == (v.inf < 0))),
                  z3.Implies(z3.And(z3.Not(v.nan), v.inf == 0, v.val != 0), v.neg == (v.val < 0)),
                  v.val <= FLOAT_MAX, v.val >= -FLOAT_MAX,
                  # a double is its own rounding; doubles of magnitude >= 2**53 are integers
                  {'big': z3.Or(v.val >= 2 ** 53, v.val <= -(2 ** 53), v.nan, v.inf != 0),
                   'small': z3.And(v.val < 2 ** 53, v.val > -(2 ** 53)),
                   'any': z3.BoolVal(True)}[getattr(v, 'form', 'any')],
                  I.F64(v.val) == v.val)


def concretize(v: Val, model: z3.ModelRef):
    """Symbolic value -> concrete Python value under a model."""
    import decimal
    from fractions import Fraction

    def ev(t):
        return model.eval(t, model_completion=True)
    if isinstance(v, VNone):
        return None
    if isinstance(v, VBool):
        return z3.is_true(ev(v.t))
    if isinstance(v, VInt):
        return v.pycls(ev(v.t).as_long()) if v.pycls is not int else ev(v.t).as_long()
    if isinstance(v, VDec):
        r = ev(v.t)
        fr = Fraction(r.numerator_as_long(), r.denominator_as_long())
        return frac_to_decimal(fr)
    if isinstance(v, VFloat):
        mk = v.pycls if isinstance(v.pycls, type) and v.pycls is not float else float     # keep a float subclass (xs:float) in the replayed input
        if z3.is_true(ev(v.nan)):
            return mk('nan')
        i = ev(v.inf).as_long()
        if i:
            return mk('inf') if i > 0 else mk('-inf')
        r = ev(v.val)
        f = Fraction(r.numerator_as_long(), r.denominator_as_long())
        x = float(f)
        if x == 0 and z3.is_true(ev(v.neg)):
            return mk(-0.0)
        return mk(x)
    if isinstance(v, VStr):
        s = ev(v.t)
        return decode_z3_string(s)
    if isinstance(v, VSeq):
        n = ev(v.len).as_long()
        return [concretize(v.get(z3.IntVal(k)), model) for k in range(max(0, min(n, 50)))]
    if isinstance(v, (VTuple, VPyList)):
        xs = [concretize(i, model) for i in v.items]
        return tuple(xs) if isinstance(v, VTuple) else xs
    if isinstance(v, VItv):
        lo_, hi_, isint = ev(ITV_SORT.lo(v.t)).as_long(), ev(ITV_SORT.hi(v.t)).as_long(), z3.is_true(ev(ITV_SORT.isint(v.t)))
        return lo_ if isint else (lo_, hi_)
    if isinstance(v, VItem):
        return str(ev(v.t))
    if isinstance(v, VNative):
        return v.obj
    return repr(v)


def frac_to_decimal(fr):
    import decimal
    d = fr.denominator
    while d % 2 == 0:
        d //= 2
    while d % 5 == 0:
        d //= 5
    with decimal.localcontext() as ctx:
        ctx.prec = 5000
        x = decimal.Decimal(fr.numerator) / decimal.Decimal(fr.denominator)
    return x if d == 1 else +x


def decode_z3_string(s) -> str:
    raw = s.as_string()
    import re

    def rep(m):
        return chr(int(m.group(1) or m.group(2), 16))
    return re.sub(r'\\u\{([0-9a-fA-F]+)\}|\\u([0-9a-fA-F]{4})', rep, raw)


class Case:
    """One instantiation of a contract's symbolic inputs."""

    def __init__(self, args, kwargs=None, names=None, hooks=None, attr_hooks=None, pre=(), label=''):
        self.args = args
        self.kwargs = kwargs or {}
        self.names = names or {}
        self.hooks = hooks or {}
        self.attr_hooks = attr_hooks or {}
        self.pre = list(pre)
        self.label = label


class Contract:
    def __init__(self, cid, prop, target, setup, post, pre=(), loops=None, inline=(), native=None,
                 samples=None, generator=None, specs=(), expect_min_obligations=1, timeout_s=10,
                 notes=(), exits=None, frame=None, max_paths=2000, known_regions=None, splits=(), lemma=False, opaque=(), use_lemmas=(), mem_hints=()):
        self.id = cid
        self.prop = prop
        self.target = target          # () -> live function
        self.setup = setup            # (Sym, Executor) -> Case
        self.pre = list(pre)
        self.post = list(post)        # [(label, expr)]
        self.loops = loops or {}
        self.inline = set(inline)
        self.native = native          # (inputs dict) -> ('return', value) | ('raise', exc)
        self.samples = samples        # (rng) -> iterable of input dicts
        self.generator = generator    # ElemKind of yielded values, for generator functions
        self.specs = list(specs)      # spec functions usable in pre/post/invariants
        self.expect_min_obligations = expect_min_obligations
        self.timeout_s = timeout_s
        self.notes = list(notes)
        self.max_paths = max_paths
        self.splits = list(splits)   # case-split hints: expressions branched on at entry
        self.lemma = lemma
        self.opaque = set(opaque)        # spec functions kept uninterpreted (hidden definition)
        self.use_lemmas = list(use_lemmas)   # instantiated lemma statements assumed (each proved elsewhere)
        self.mem_hints = list(mem_hints)     # index expressions offered as membership witnesses


def drop_result_disjuncts(expr: str) -> str:
    """On a path that raised there is no `result`: a postcondition that mentions it can only
    hold through disjuncts that do not (conservative: anything else counts as false)."""
    tree = ast.parse(expr, mode='eval').body

    def mentions(n):
        return any(isinstance(x, ast.Name) and x.id == 'result' for x in ast.walk(n))
    if not mentions(tree):
        return expr
    if isinstance(tree, ast.BoolOp) and isinstance(tree.op, ast.Or):
        keep = [v for v in tree.values if not mentions(v)]
        if keep:
            return ' or '.join('(' + ast.unparse(v) + ')' for v in keep)
    return 'False'


def outcome_env(outcome):
    env = {}
    if outcome[0] == 'return':
        env['returned'] = VBool(True)
        env['result'] = outcome[1]
        env['raised_code'] = NONE
        env['raised_cls'] = NONE
    else:
        exc = outcome[1]
        env['returned'] = VBool(False)
        env['raised_code'] = lift(exc.code) if exc.code is not None else NONE
        env['raised_cls'] = VNative(exc.pycls)
        env['raised_name'] = VStr(exc.pycls.__name__)
    return env


def _spec_env(contract: Contract):
    env = I.Env()
    from . import specprims
    globs = {k: v for k, v in vars(specprims).items() if not k.startswith('_') and callable(v)}
    for f in contract.specs:
        node = spec_ast(f)
        globs.update(f.__globals__)
        if f.__name__ in contract.opaque:
            env.vars[f.__name__] = VNative(OpaqueInt(f.__name__, len(node.args.args)))
        else:
            env.vars[f.__name__] = VFunc(node, env, f.__globals__, f.__name__)
    for name in contract.opaque:
        globs[name] = OpaqueInt(name, None)
    return env, globs


class OpaqueInt:
    """An int-valued spec function whose definition is hidden: calls become applications of an
    uninterpreted function; facts about it enter only through proved lemma instances."""

    def __init__(self, name, arity):
        self.__name__ = name
        self.__qualname__ = 'opaque.' + name
        self.arity = arity

    def __call__(self, *a):
        raise RuntimeError('opaque spec function called natively')

    def symbolic(self, ex, *args):
        ts = [I.as_int_term(a) for a in args]
        if None in ts:
            raise OutOfSubset(f'opaque {self.__name__} on non-int')
        f = z3.Function('opaque_' + self.__name__, *([z3.IntSort()] * (len(ts) + 1)))
        return VInt(f(*ts))


class Lemma:
    """A universally quantified statement over int parameters, proved once with all
    definitions revealed (its own contract) and then usable as assumed instances in
    contracts that keep some spec functions opaque."""

    def __init__(self, name, params, stmt, specs):
        self.name, self.params, self.stmt, self.specs = name, list(params), stmt, list(specs)

    def contract(self, prop):
        def noop():
            return None
        params = self.params
        return Contract(f'lemma.{self.name}', prop, lambda: noop,
                        lambda S, ex: [S.int(p) for p in params] and Case([]),
                        post=[(self.name, self.stmt)], specs=self.specs, lemma=True,
                        native=lambda i: ('return', None),
                        samples=lambda rng: ({p: rng.randint(-10 ** 6, 10 ** 6) for p in params} for _ in iter(int, 1)))

    def instance(self, **subst) -> str:
        tree = ast.parse(self.stmt, mode='eval')

        class R(ast.NodeTransformer):
            def visit_Name(s2, node):
                if node.id in subst:
                    return ast.parse('(' + subst[node.id] + ')', mode='eval').body
                return node
        return ast.unparse(R().visit(tree))


class PathResult:
    pass


def run_contract(contract: Contract, tier='quick', seed=0, known=None):
    """Generate and discharge the obligations of one contract.  Returns a JSON-able dict."""
    t0 = time.time()
    res = {'contract': contract.id, 'property': contract.prop, 'obligations': {}, 'paths': 0,
           'status': 'ok', 'violations': [], 'undecided': [], 'assumptions': [], 'function': None,
           'queries': 0, 'solver_s': 0.0, 'covers': 0, 'notes': contract.notes}
    try:
        fn = contract.target()
        if getattr(contract, 'lemma', False):
            # a lemma: a sidecar function whose body calls real functions (inlined through
            # extract(), i.e. binding-checked); its own text lives in /verif/contracts
            import types as _t
            ext = _t.SimpleNamespace(node=spec_ast(fn), globals=fn.__globals__, qualname=fn.__name__,
                                     describe=lambda: {'function': f'lemma {fn.__module__}.{fn.__name__}',
                                                       'file': fn.__code__.co_filename, 'lines': [], 'sha256': ''})
        else:
            ext = extract(fn)
        res['function'] = ext.describe()
    except (ExtractError, Exception) as e:
        res['status'] = 'error'
        res['error'] = f'extract: {e}\n{traceback.format_exc()}'
        return res
    sym_holder = {}
    spec_env, spec_globs = _spec_env(contract)
    ex = I.Executor(loops=contract.loops, inline=contract.inline, max_paths=contract.max_paths)
    ex.loop_ordinals = I.number_loops(ext.node)
    ex.spec_globs = dict(spec_globs)
    ex.mem_hints = list(contract.mem_hints)
    ex.inlined_functions = set()

    def thunk(ex: I.Executor):
        S = Sym()
        case: Case = contract.setup(S, ex)
        sym_holder['S'] = S
        ex.hooks = dict(case.hooks)
        ex.attr_hooks = dict(case.attr_hooks)
        env = I.Env(spec_env)
        env.vars.update(S.inputs)
        env.vars.update(case.names)
        ex.path.names = dict(env.vars)
        ex.globs_stack = [dict(spec_globs)]
        ex.known_doubles = [z3.simplify(v.val) for v in S.inputs.values() if isinstance(v, VFloat)]
        for v in S.inputs.values():
            if isinstance(v, VFloat):
                ex.assume(float_wf(v))
            if isinstance(v, VSeq):
                ex.assume(v.len >= 0)
        for p in contract.pre + case.pre + contract.use_lemmas:
            ex.assume(ex.truthy(ex.spec_eval(p, env)))
        for sp in contract.splits:
            ex.branch(ex.truthy(ex.spec_eval(sp, env)))
        ex.path.case = case.label
        if contract.generator is not None:
            ex.path.out = VSeq(0, z3.K(z3.IntSort(), z3.Const('out0', contract.generator.sort)),
                               contract.generator)
        fenv_names = env
        ex.path.spec_env = env
        ex.hint_env = env
        try:
            ex.globs_stack.append(ext.globals)
            try:
                r = ex.call_func(VFunc(ext.node, None, ext.globals, ext.qualname), case.args, case.kwargs)
            finally:
                ex.globs_stack.pop()
            if contract.generator is not None:
                r = ex.path.out
            outcome = ('return', r)
        except I.PyRaise as pr:
            outcome = ('raise', pr.exc)
        ex.path.final_outcome = outcome
        env2 = I.Env(fenv_names)
        env2.vars.update(outcome_env(outcome))
        if ex.path.out is not None:
            env2.vars['out'] = ex.path.out
        for label, expr in contract.post:
            e2 = expr
            if outcome[0] == 'raise':
                e2 = drop_result_disjuncts(expr)
            val = ex.spec_eval(e2, env2)
            ex.oblige(label, ex.truthy(val), 'V', expr)
        if outcome[0] == 'raise':
            raise I.PyRaise(outcome[1])
        return outcome[1]

    try:
        paths = ex.run_all(thunk)
    except OutOfSubset as e:
        res['status'] = 'undecided'
        res['error'] = f'out of subset: {e}'
        res['wall_s'] = time.time() - t0
        return res
    except Exception as e:
        res['status'] = 'error'
        res['error'] = f'{e}\n{traceback.format_exc()}'
        res['wall_s'] = time.time() - t0
        return res
    res['paths'] = len(paths)
    res['assumptions'] = sorted(ex.assumptions)
    res['inlined'] = sorted(ex.inlined_functions)
    # reachability covers + canary: at least one complete (non-cut) path has a satisfiable pc
    complete = 0
    for p in paths:
        if p.outcome[0] in ('return', 'raise'):
            s = z3.Solver()
            s.set('timeout', 5000)
            s.add(*p.pc)
            if s.check() == z3.sat:
                complete += 1
    res['covers'] = complete
    if complete == 0:
        res['status'] = 'error'
        res['error'] = 'vacuous: no complete path is reachable under the precondition (canary proved)'
        return res
    labels = {}
    for p in paths:
        for ob in p.obligations:
            labels.setdefault(ob.label, []).append((p, ob))
    timeout_ms = int(contract.timeout_s * 1000 * (6 if tier == 'thorough' else 1))
    samples = []
    for label, lst in labels.items():
        rec = {'paths': len(lst), 'result': 'proved', 'backend': 'z3', 'seconds': 0.0, 'expr': lst[0][1].origin}
        for p, ob in lst:
            q0 = time.time()
            s, r, how = portfolio_check(list(ob.pc) + [z3.Not(ob.formula)], timeout_ms)
            res['queries'] += 1
            backend = how
            model = None
            if r == z3.unknown and backend != 'cvc5':
                r2 = cvc5_check(s, timeout_ms)
                if r2 in ('unsat', 'sat'):
                    backend = 'cvc5'
                    r = z3.unsat if r2 == 'unsat' else z3.sat
            dt = time.time() - q0
            rec['seconds'] += dt
            res['solver_s'] += dt
            if r == z3.unsat:
                if backend != 'z3':
                    rec['backend'] = backend if backend.startswith('z3') else 'z3+cvc5'
                if tier == 'thorough' and backend.startswith('z3'):
                    r2 = cvc5_check(s, timeout_ms)
                    rec.setdefault('cross', []).append(r2)
                continue
            if r == z3.sat and backend.startswith('z3'):
                S = sym_holder['S']
                inputs, confirmed, nat, model = confirm_loop(s, S, p, contract, label)
                rec['result'] = 'refuted'
                rec['model'] = {k: repr(v)[:200] for k, v in (inputs or {}).items()}
                res['violations'].append({'obligation': label, 'inputs': inputs, 'case': getattr(p, 'case', ''),
                                          'solver': f'sat ({backend})', 'model_txt': str(model)[:2000],
                                          'confirmed': confirmed, 'native_outcome': repr(nat)[:300],
                                          'outcome': repr(getattr(p, 'final_outcome', p.outcome))[:300]})
                break
            if r == z3.sat:
                rec['result'] = 'refuted'
                res['violations'].append({'obligation': label, 'inputs': None, 'case': getattr(p, 'case', ''),
                                          'solver': 'sat (cvc5, no model)', 'model_txt': ''})
                break
            rec['result'] = 'unknown'
            res['undecided'].append(label)
            break
        res['obligations'][label] = rec
        if len(samples) < 3:
            p, ob = lst[0]
            samples.append({'obligation': label, 'origin': ob.origin,
                            'vc': f'{z3.simplify(z3.And(*ob.pc)) if ob.pc else True} ==> {ob.formula}'[:600]})
    res['samples'] = samples
    if len(res['obligations']) < contract.expect_min_obligations:
        res['status'] = 'error'
        res['error'] = f'only {len(res["obligations"])} obligations generated, expected >= {contract.expect_min_obligations}'
    elif res['violations']:
        res['status'] = 'violated'
    elif res['undecided']:
        res['status'] = 'undecided'
    # encoder validation against CPython
    if contract.native is not None and contract.samples is not None and res['status'] in ('ok', 'violated'):
        try:
            ev = encoder_validation(contract, paths, sym_holder['S'], seed, 60 if tier == 'quick' else 600)
            res['encoder_validation'] = ev
            if ev['disagreements']:
                res['status'] = 'error'
                res['error'] = 'encoder validation: symbolic summary disagrees with CPython: ' + json.dumps(ev['disagreements'][:3], default=repr)
        except Exception as e:
            res['status'] = 'error'
            res['error'] = f'encoder validation crashed: {e}\n{traceback.format_exc()}'
    res['wall_s'] = time.time() - t0
    return res


def _shape_constraints(S: Sym, p, attempt: int):
    """Constraints that steer counter-models toward values representable in Python
    (doubles are dyadic, Decimals are decimal fractions).  Only used when looking for a
    replayable witness - never when proving."""
    cs = []
    for n, v in p.names.items():
        if n not in S.inputs:
            continue
        if isinstance(v, VFloat):
            k = z3.Int(f'shape!{n}')
            if attempt == 1:
                cs += [v.val * 1024 == z3.ToReal(k), v.val < 2 ** 40, v.val > -(2 ** 40)]
            elif attempt == 2:
                cs += [v.val == z3.ToReal(k) * (2 ** 60)]
            elif attempt == 3:
                cs += [v.val * (2 ** 60) == z3.ToReal(k), v.val < 1, v.val > -1]
        elif isinstance(v, VDec):
            k = z3.Int(f'shape!{n}')
            if attempt == 1:
                cs += [v.t * 1000 == z3.ToReal(k)]
            elif attempt == 2:
                cs += [v.t == z3.ToReal(k)]
            elif attempt == 3:
                cs += [v.t * (10 ** 12) == z3.ToReal(k)]
    return cs


def confirm_loop(s: z3.Solver, S: Sym, p, contract: Contract, label: str, attempts=4):
    """Replay counter-models on the real code until one violates the postcondition natively."""
    first = None
    for attempt in range(attempts):
        s.push()
        try:
            for c in _shape_constraints(S, p, attempt):
                s.add(c)
            if s.check() != z3.sat:
                continue
            model = s.model()
        finally:
            s.pop()
        inputs = {}
        ok = True
        for n, v in p.names.items():
            if n in S.inputs:
                try:
                    inputs[n] = concretize(v, model)
                except Exception as e:
                    inputs[n] = f'<unconcretizable {e}>'
                    ok = False
        nat = None
        confirmed = None
        if ok and contract.native is not None:
            try:
                extra = {n: v.conc for n, v in p.names.items()
                         if n not in S.inputs and isinstance(v, Val) and not isinstance(v, VFunc)
                         and v.conc is not NOTCONC}
                holds, nat = native_post(contract, inputs, label, extra)
                confirmed = (holds is False)
            except Exception as e:
                nat = f'replay crashed: {e!r}'
        if first is None:
            first = (inputs, confirmed, nat, model)
        if confirmed:
            return inputs, True, nat, model
    # no counter-model replays (e.g. the failed obligation is about an intermediate loop state):
    # search the contract's sample inputs for a concrete input that violates a postcondition
    if contract.native is not None and contract.samples is not None:
        import itertools
        rng = random.Random(12345)
        labels = [l for l, _ in contract.post]
        for inputs in itertools.islice(contract.samples(rng), 3000):
            for lab in ([label] if label in labels else labels):
                try:
                    extra = {n: v.conc for n, v in p.names.items()
                             if n not in S.inputs and isinstance(v, Val) and not isinstance(v, VFunc)
                             and v.conc is not NOTCONC}
                    holds, nat = native_post(contract, inputs, lab, extra)
                except Exception:
                    continue
                if holds is False:
                    return inputs, True, nat, f'(found by searching the sample inputs; violated postcondition: {lab})'
    return first if first is not None else (None, None, None, None)


def _safe_check(s):
    try:
        return s.check()
    except z3.Z3Exception:
        return z3.unknown


def portfolio_check(assertions, timeout_ms):
    """z3 default (short budget) -> z3 qflia tactic -> z3 default (full budget).
    Returns (solver, result, how)."""
    short = min(2000, timeout_ms)
    s = z3.Solver()
    s.set('timeout', short)
    s.add(*assertions)
    r = _safe_check(s)
    if r != z3.unknown:
        return s, r, 'z3'
    smt = s.to_smt2()
    if 'String' in smt or 'seq.' in smt or 'str.' in smt:
        # string obligations: cvc5 decides what z3's sequence solver leaves open
        r2 = cvc5_check(s, timeout_ms)
        if r2 == 'unsat':
            return s, z3.unsat, 'cvc5'
    try:
        t = z3.Then('simplify', 'purify-arith', 'solve-eqs', 'qflia').solver()
        t.set('timeout', timeout_ms)
        t.add(*assertions)
        r2 = t.check()
        if r2 != z3.unknown:
            return t, r2, 'z3-qflia'
    except z3.Z3Exception:
        pass
    if timeout_ms > short:
        s = z3.Solver()
        s.set('timeout', timeout_ms)
        s.add(*assertions)
        r = _safe_check(s)
    return s, r, 'z3'


def cvc5_check(solver: z3.Solver, timeout_ms: int) -> str:
    smt = '(set-logic ALL)\n' + solver.to_smt2()
    try:
        out = subprocess.run(['/usr/bin/cvc5', '--strings-exp', f'--tlimit={timeout_ms}', '--lang=smt2', '-'],
                             input=smt, capture_output=True, text=True, timeout=timeout_ms / 1000 + 5)
        first = (out.stdout.strip().splitlines() or ['error'])[0]
        return first if first in ('sat', 'unsat', 'unknown') else 'error'
    except Exception:
        return 'error'


class OutsideForm(Exception):
    pass


def to_term_assignment(v: Val, value):
    """[(z3 const, z3 value)] binding symbolic input v to the concrete Python value."""
    import decimal
    import math
    from fractions import Fraction
    if isinstance(v, VInt):
        return [(v.t, z3.IntVal(int(value)))]
    if isinstance(v, VBool):
        return [(v.t, z3.BoolVal(bool(value)))]
    if isinstance(v, VDec):
        fr = Fraction(value)
        return [(v.t, z3.RealVal(f'{fr.numerator}/{fr.denominator}'))]
    if isinstance(v, VFloat):
        c = VFloat.from_py(float(value))
        if getattr(v, 'form', 'any') == 'big':
            import math
            fv = float(value)
            iv = int(fv) if math.isfinite(fv) and fv == int(fv) else 0
            if math.isfinite(fv) and abs(fv) < 2 ** 53:
                raise OutsideForm()
            return [(v.nan, c.nan), (v.inf, c.inf), (v.ival, z3.IntVal(iv)), (v.neg, c.neg)]
        return [(v.nan, c.nan), (v.inf, c.inf), (v.val, c.val), (v.neg, c.neg)]
    if isinstance(v, VStr):
        return [(v.t, z3.StringVal(value))]
    if isinstance(v, VSeq):
        if v.kind.name == 'item':
            items = [native_item(x) for x in value]
            default = native_item('<no item>')
        else:
            items = [v.kind.unwrap(lift(x)) for x in value]
            default = items[0] if items else v.kind.unwrap(lift(0))
        arr = z3.K(z3.IntSort(), default)
        for k, it in enumerate(items):
            arr = z3.Store(arr, k, it)
        return [(v.len, z3.IntVal(len(items))), (v.arr, arr)]
    raise OutOfSubset(f'cannot bind {v!r}')


def values_agree(sym: Val, native) -> bool | None:
    c = sym.conc
    if c is NOTCONC:
        return None
    return _py_agree(c, native)


def _py_agree(c, native) -> bool:
    import math
    import decimal
    if isinstance(native, float) and isinstance(c, float):
        if math.isnan(native) or math.isnan(c):
            return math.isnan(native) and math.isnan(c)
        return native == c and math.copysign(1, native) == math.copysign(1, c)
    if isinstance(native, bool) != isinstance(c, bool):
        return False
    if isinstance(native, (int, decimal.Decimal)) and isinstance(c, (int, decimal.Decimal)):
        return native == c and isinstance(native, int) == isinstance(c, int)
    if isinstance(native, (list, tuple)) and isinstance(c, (list, tuple)):
        return len(native) == len(c) and all(_py_agree(a, b) for a, b in zip(c, native))
    return native == c


def subst_val(v: Val, sub):
    def s(t):
        return z3.simplify(z3.substitute(t, *sub))
    if isinstance(v, VInt):
        return VInt(s(v.t), v.pycls)
    if isinstance(v, VBool):
        return VBool(s(v.t))
    if isinstance(v, VDec):
        return VDec(s(v.t))
    if isinstance(v, VFloat):
        return VFloat(s(v.nan), s(v.inf), s(v.val), s(v.neg), v.pycls)
    if isinstance(v, VStr):
        return VStr(s(v.t))
    if isinstance(v, (VTuple, VPyList)):
        items = [subst_val(i, sub) for i in v.items]
        return VTuple(items) if isinstance(v, VTuple) else VPyList(items)
    if isinstance(v, VSeq):
        n = s(v.len)
        if z3.is_int_value(n) and n.as_long() <= 64:
            return VPyList([subst_val(v.get(z3.IntVal(k)), sub) for k in range(n.as_long())])
        return v
    if isinstance(v, VItem):
        return VItem(s(v.t))
    if isinstance(v, VItv):
        return VItv(s(v.t))
    return v


def encoder_validation(contract: Contract, paths, S: Sym, seed: int, n: int):
    """Compare the symbolic summary with the real function on concrete inputs."""
    rng = random.Random(seed * 7919 + 13)
    compared = 0
    unmodelled = 0
    outside_pre = 0
    disagreements = []
    sample_list = []
    for inputs in contract.samples(rng):
        if compared + unmodelled + outside_pre >= n:
            break
        candidates = []     # (path, substitution, exact?) whose path condition admits the sample
        bind_error = None
        for p in paths:
            if p.outcome[0] == 'cut':
                continue
            try:
                psub = []
                for name, val in inputs.items():
                    psub += to_term_assignment(p.names[name], val)
            except OutsideForm:
                continue
            except Exception as e:
                bind_error = f'cannot bind: {e}'
                break
            ok = True
            residual = []
            for c in p.pc:
                r = z3.simplify(z3.substitute(c, *psub))
                if z3.is_false(r):
                    ok = False
                    break
                if not z3.is_true(r):
                    residual.append(r)
            if ok and residual:
                # conjuncts over uninterpreted symbols (f64, results of float arithmetic): the
                # model is nondeterministic there; satisfiable => this path is an allowed behaviour
                sv = z3.Solver()
                sv.set('timeout', 1000)
                sv.add(*residual)
                rr = _safe_check(sv)
                ok = True if rr == z3.sat else (False if rr == z3.unsat else None)
            if ok:
                candidates.append((p, psub, not residual))
                if not residual:
                    break
        if bind_error:
            disagreements.append({'inputs': {k: repr(v) for k, v in inputs.items()}, 'why': bind_error})
            if len(disagreements) > 5:
                break
            continue
        if not candidates:
            outside_pre += 1      # the sample violates the precondition: nothing to compare
            continue
        nat = contract.native(inputs)
        verdicts = []
        for hit, sub, exact_path in candidates:
            oc = hit.final_outcome
            if nat[0] != oc[0]:
                agree = False
            elif oc[0] == 'raise':
                e = nat[1]
                agree = (type(e) is oc[1].pycls or type(e).__name__ == oc[1].pycls.__name__) and \
                    (oc[1].code is None or native_code(e) == oc[1].code)
            else:
                agree = values_agree(subst_val(oc[1], sub), nat[1])
            if agree and len(nat) > 2 and not getattr(hit, 'havocked', False):
                # mutated arguments: the symbolic final state must equal the native one
                for name, nval in nat[2].items():
                    sv = hit.names.get(name)
                    if isinstance(sv, VSeq) and not any(sv is w for w in (S.inputs.get(name),)) or \
                            isinstance(sv, VSeq) and name in S.inputs:
                        a2 = values_agree(subst_val(sv, sub), list(nval))
                        if a2 is not True:
                            agree = a2
                            break
            verdicts.append(agree)
        if any(v is True for v in verdicts):
            compared += 1
            if len(sample_list) < 3:
                sample_list.append({'inputs': {k: repr(v) for k, v in inputs.items()}, 'native': repr(nat)[:120]})
        elif any(v is None for v in verdicts):
            unmodelled += 1
        else:
            compared += 1
            disagreements.append({'inputs': {k: repr(v) for k, v in inputs.items()}, 'native': repr(nat)[:200],
                                  'symbolic': [repr(c[0].final_outcome)[:200] for c in candidates][:3]})
    return {'compared': compared, 'unmodelled': unmodelled, 'outside_pre': outside_pre,
            'disagreements': disagreements, 'samples': sample_list}


def native_code(e):
    """XPath error code of a native exception without its prefix, or None."""
    c = getattr(e, 'code', None)
    if isinstance(c, str):
        return c.split(':')[-1]
    return None


# ---- native (replay) evaluation of postconditions -----------------------------------

def native_post(contract: Contract, inputs: dict, label: str, extra: dict | None = None):
    """Run the real code on concrete inputs and evaluate postcondition `label` natively.
    Returns (holds: bool, outcome)."""
    nat = contract.native(inputs)
    from . import specprims
    env = {k: v for k, v in vars(specprims).items() if not k.startswith('_') and callable(v)}
    for f in contract.specs:
        env[f.__name__] = f
        env.update({k: v for k, v in f.__globals__.items() if not k.startswith('__')})
    for f in contract.specs:
        env[f.__name__] = f
    env.update(extra or {})
    env.update(inputs)
    for p in contract.pre:        # preconditions are about the pre-state
        if not eval(p, env):
            return None, nat
    if len(nat) > 2:
        env.update(nat[2])        # post-state of mutated arguments / ghost names (e.g. L, old)
        nat = nat[:2]
    if nat[0] == 'return':
        env.update(returned=True, result=nat[1], raised_code=None, raised_cls=None, raised_name=None)
    else:
        e = nat[1]
        env.update(returned=False, raised_code=native_code(e), raised_cls=type(e),
                   raised_name=type(e).__name__)
    expr = dict(contract.post)[label]
    if nat[0] != 'return':
        expr = drop_result_disjuncts(expr)
    return bool(eval(expr, env)), nat
