"""Frame (modifies-clause) checker: an abstract interpretation of the extracted function AST.

Contract: a function may store only into objects that are FRESH in this call (allocated by it:
literals, constructor calls, copy(), .copy(), list()/dict()/..., comprehensions) or into locations
of its `modifies` set (access paths rooted at parameters, e.g. 'context.item').  Every store
statement (attribute / subscript assignment, del, augmented assignment on a container, call of a
mutating method from the mutator table, setattr/delattr) is an obligation; the analysis is
flow-sensitive with joins at control-flow merges and a fixpoint for loops, and it is modular:
calls into the package are assumed to respect their own frame contract (summaries for the few
callees that write through their arguments are given explicitly in the contract).

Abstract values: (origins, elems) where origins is a set of
    ('fresh', site)            allocated in this call
    ('ext', path)              reachable from a parameter / returned by a callee / a global
and elems are the origins of the container's elements (or of the fields of a shallow copy).
Anything not understood is ('ext', '?') - never silently fresh.
"""
from __future__ import annotations

import ast
import builtins
import copy as _copy

MUTATORS = {'append', 'extend', 'insert', 'pop', 'remove', 'clear', 'sort', 'reverse', 'update', 'setdefault',
            'popitem', 'add', 'discard', 'difference_update', 'intersection_update', 'symmetric_difference_update',
            'appendleft', 'popleft', '__setitem__', '__delitem__', '__setattr__', '__delattr__', '__iadd__'}
FRESH_CALLS = {'list', 'dict', 'set', 'tuple', 'sorted', 'frozenset', 'deque', 'defaultdict', 'OrderedDict', 'Counter',
               'bytearray', 'reversed'}
PURE_CALLS = {'len', 'isinstance', 'issubclass', 'int', 'float', 'str', 'bool', 'abs', 'min', 'max', 'sum', 'any', 'all',
              'repr', 'hash', 'id', 'type', 'ord', 'chr', 'round', 'divmod', 'callable', 'hasattr', 'format', 'print',
              'Decimal', 'Fraction', 'range', 'enumerate', 'zip', 'map', 'filter', 'iter', 'next', 'getattr', 'cast',
              'product', 'chain', 'zip_longest', 'islice', 'count'}


STR_METHODS = {'split', 'rsplit', 'splitlines', 'partition', 'rpartition', 'format', 'join', 'strip', 'rstrip', 'lstrip',
               'replace', 'lower', 'upper', 'casefold', 'title', 'zfill', 'encode', 'decode', 'startswith', 'endswith',
               'isdigit', 'isalpha', 'isspace', 'ljust', 'rjust', 'center', 'translate', 'swapcase', 'capitalize',
               'removeprefix', 'removesuffix', 'expandtabs', 'isnumeric', 'isdecimal', 'isupper', 'islower', 'find', 'rfind',
               'count', 'index'}


class AV:
    """abstract value"""
    __slots__ = ('origins', 'elems', 'fields', 'imm')

    def __init__(self, origins, elems=None, fields=None, imm=False):
        self.origins = frozenset(origins)
        self.elems = frozenset(elems) if elems is not None else None
        self.fields = dict(fields or {})       # attr -> AV (strong updates on fresh objects / locals)
        self.imm = imm                          # an immutable scalar (number, str, None, bool)

    def is_fresh(self):
        return bool(self.origins) and all(o[0] == 'fresh' for o in self.origins)

    def ext_paths(self):
        return sorted(o[1] for o in self.origins if o[0] == 'ext')

    def elem_av(self):
        if self.elems is not None:
            return AV(self.elems)
        return AV({('ext', p + '[*]') if k == 'ext' else ('ext', '?') for k, p in self.origins} or {('ext', '?')})


def join(a: AV, b: AV) -> AV:
    if a is b:
        return a
    # an object joined with an immutable scalar (typically None): no store can go through the scalar
    if a.imm and not b.imm:
        return b
    if b.imm and not a.imm:
        return a
    if isinstance(a, CopyAV) and isinstance(b, CopyAV):
        r = CopyAV(a.origins | b.origins, (a.elems or frozenset()) | (b.elems or frozenset()) or None,
                   {k: join(a.fields[k], b.fields[k]) for k in set(a.fields) & set(b.fields)})
        r.src_paths = sorted(set(a.src_paths) | set(b.src_paths))
        return r
    elems = None
    if a.elems is not None or b.elems is not None:
        elems = (a.elems if a.elems is not None else a.elem_av().origins) | (b.elems if b.elems is not None else b.elem_av().origins)
    fields = {}
    for k in set(a.fields) | set(b.fields):
        if k in a.fields and k in b.fields:
            fields[k] = join(a.fields[k], b.fields[k])
        # a field assigned on one branch only: unknown afterwards -> fall back to the default (ext of path)
    return AV(a.origins | b.origins, elems, fields, a.imm and b.imm)


IMM = AV({('fresh', 'scalar')}, imm=True)
UNKNOWN = AV({('ext', '?')})


class Store:
    def __init__(self, lineno, kind, text, target: AV, allowed, why):
        self.lineno, self.kind, self.text, self.target, self.allowed, self.why = lineno, kind, text, target, allowed, why

    def describe(self):
        return {'line': self.lineno, 'kind': self.kind, 'code': self.text[:120], 'target_origins': sorted(map(str, self.target.origins)),
                'allowed': self.allowed, 'why': self.why}


class FrameAnalyzer:
    def __init__(self, fnode: ast.FunctionDef, globs: dict, modifies=(), param_names=None, callee_effects=None,
                 fresh_params=(), class_names=(), fresh_calls=()):
        self.fnode = fnode
        self.globs = globs
        self.modifies = set(modifies)          # access paths, e.g. 'context.item', 'self._map' ; 'x.*' wildcard
        self.callee_effects = callee_effects or {}   # method name -> list of (which: 'recv'|argindex, attr-or-'[]')
        self.stores: list[Store] = []
        self.fresh_params = set(fresh_params)
        self.fresh_calls = set(fresh_calls)    # local names known to hold a class / factory of new objects
        self.site = 0

    # -- helpers ----------------------------------------------------------------------------
    def fresh(self, what='obj', elems=None, fields=None):
        self.site += 1
        return AV({('fresh', f'{what}@{self.site}')}, elems, fields)

    def allowed_path(self, path: str) -> bool:
        if path in self.modifies:
            return True
        for m in self.modifies:
            if m.endswith('.*') and path.startswith(m[:-1]):
                return True
            if m.endswith('[*]') and path.startswith(m[:-3] + '['):
                return True
        return False

    def record(self, node, kind, base: AV, attr=None):
        text = ast.unparse(node) if node is not None else kind
        if base.imm:
            return
        if base.is_fresh():
            self.stores.append(Store(getattr(node, 'lineno', 0), kind, text, base, True, 'target is fresh in this call'))
            return
        bad = []
        for p in base.ext_paths():
            loc = f'{p}.{attr}' if attr else (p + '[]')
            if not self.allowed_path(loc):
                bad.append(loc)
        if bad:
            self.stores.append(Store(getattr(node, 'lineno', 0), kind, text, base, False,
                                     'writes ' + ', '.join(bad) + ' (not fresh, not in the modifies set)'))
        else:
            self.stores.append(Store(getattr(node, 'lineno', 0), kind, text, base, True, 'location is in the modifies set'))

    # -- expressions --------------------------------------------------------------------------
    def ev(self, node, env) -> AV:
        if node is None:
            return IMM
        m = getattr(self, 'e_' + type(node).__name__, None)
        if m is None:
            for c in ast.iter_child_nodes(node):
                if isinstance(c, ast.expr):
                    self.ev(c, env)
            return UNKNOWN
        return m(node, env)

    def e_Constant(self, node, env):
        return IMM

    def e_JoinedStr(self, node, env):
        for v in node.values:
            self.ev(v, env)
        return IMM

    def e_FormattedValue(self, node, env):
        self.ev(node.value, env)
        return IMM

    def e_Name(self, node, env):
        if node.id in env:
            return env[node.id]
        if node.id in self.globs or hasattr(builtins, node.id):
            g = self.globs.get(node.id, getattr(builtins, node.id, None))
            if isinstance(g, (int, float, str, bytes, bool, type(None), frozenset, tuple)) or callable(g):
                return AV({('ext', f'global:{node.id}')}, imm=not isinstance(g, (list, dict, set)))
            return AV({('ext', f'global:{node.id}')})
        return UNKNOWN

    def e_Attribute(self, node, env):
        base = self.ev(node.value, env)
        if node.attr in base.fields:
            return base.fields[node.attr]
        if base.imm:
            return UNKNOWN if not base.is_fresh() else IMM
        if node.attr == '__dict__' and base.is_fresh():
            # the attribute dictionary of an object created in this call (also by copy.copy, which makes a new dictionary) belongs to that object:
            # removing or setting a key changes the fresh object only
            return AV({('fresh', f'__dict__@{getattr(node, "lineno", 0)}')}, base.elems)
        outs = set()
        for k, p in base.origins:
            if k == 'ext':
                outs.add(('ext', f'{p}.{node.attr}'))
            else:
                # a field of a fresh object that was never assigned here: for shallow copies the
                # field aliases the original's (recorded in elems), otherwise unknown
                outs |= set(base.elems) if base.elems is not None else {('ext', '?')}
        return AV(outs or {('ext', '?')})

    def e_Subscript(self, node, env):
        base = self.ev(node.value, env)
        self.ev(node.slice, env)
        if isinstance(node.slice, ast.Slice):
            return AV({('fresh', 'slice')}, base.elem_av().origins) if not base.imm else IMM
        return base.elem_av()

    def e_Slice(self, node, env):
        for c in (node.lower, node.upper, node.step):
            self.ev(c, env)
        return IMM

    def e_Tuple(self, node, env):
        el = set()
        for e in node.elts:
            v = self.ev(e.value if isinstance(e, ast.Starred) else e, env)
            el |= v.origins if not isinstance(e, ast.Starred) else v.elem_av().origins
        av = self.fresh('tuple', el)
        return av

    e_List = e_Tuple
    e_Set = e_Tuple

    def e_Dict(self, node, env):
        el = set()
        for k, v in zip(node.keys, node.values):
            if k is not None:
                self.ev(k, env)
            vv = self.ev(v, env)
            el |= vv.origins if k is not None else vv.elem_av().origins
        return self.fresh('dict', el)

    def comp(self, node, env, elt_nodes):
        e2 = dict(env)
        for g in node.generators:
            it = self.ev(g.iter, e2)
            self.bind(g.target, it.elem_av(), e2, None)
            for c in g.ifs:
                self.ev(c, e2)
        el = set()
        for n in elt_nodes:
            el |= self.ev(n, e2).origins
        return el

    def e_ListComp(self, node, env):
        return self.fresh('comp', self.comp(node, env, [node.elt]))

    e_SetComp = e_ListComp
    e_GeneratorExp = e_ListComp

    def e_DictComp(self, node, env):
        return self.fresh('comp', self.comp(node, env, [node.key, node.value]))

    def e_BinOp(self, node, env):
        a = self.ev(node.left, env)
        b = self.ev(node.right, env)
        if a.imm and b.imm:
            return IMM
        # list + list, set | set ... : a new container
        return AV({('fresh', 'binop')}, (a.elem_av().origins if not a.imm else set()) | (b.elem_av().origins if not b.imm else set()))

    def e_UnaryOp(self, node, env):
        self.ev(node.operand, env)
        return IMM

    def e_BoolOp(self, node, env):
        out = None
        for v in node.values:
            x = self.ev(v, env)
            out = x if out is None else join(out, x)
        return out

    def e_Compare(self, node, env):
        self.ev(node.left, env)
        for c in node.comparators:
            self.ev(c, env)
        return IMM

    def e_IfExp(self, node, env):
        self.ev(node.test, env)
        return join(self.ev(node.body, env), self.ev(node.orelse, env))

    def e_Lambda(self, node, env):
        return self.fresh('lambda')

    def e_Starred(self, node, env):
        return self.ev(node.value, env)

    def e_Await(self, node, env):
        return self.ev(node.value, env)

    def e_Yield(self, node, env):
        if node.value is not None:
            self.ev(node.value, env)
        return UNKNOWN

    def e_YieldFrom(self, node, env):
        self.ev(node.value, env)
        return UNKNOWN

    def e_NamedExpr(self, node, env):
        v = self.ev(node.value, env)
        env[node.target.id] = v
        return v

    def e_Call(self, node, env):
        f = node.func
        args = [self.ev(a, env) for a in node.args]
        kwargs = {k.arg: self.ev(k.value, env) for k in node.keywords}
        allargs = args + list(kwargs.values())
        name = f.id if isinstance(f, ast.Name) else f.attr if isinstance(f, ast.Attribute) else None
        # shallow copies
        if name == 'copy' and isinstance(f, ast.Name) and len(args) == 1 or \
                (name in ('copy', 'deepcopy') and isinstance(f, ast.Attribute) and isinstance(f.value, ast.Name) and f.value.id == 'copy'
                 and len(args) == 1):
            src = args[0]
            if src.imm:
                return src
            if name == 'deepcopy':
                return self.fresh('deepcopy', {('fresh', 'deep')})
            return self._copy_av(src)
        if isinstance(f, ast.Attribute):
            recv = self.ev(f.value, env)
            if name == 'copy' and not args:
                return AV({('fresh', f'copy@{node.lineno}')}, recv.elem_av().origins if not recv.imm else None)
            if name in MUTATORS:
                # str/tuple methods with the same names do not exist, so a call is a mutation
                self.record(node, f'call .{name}()', recv, None)
                return UNKNOWN if name in ('pop', 'popitem', 'setdefault', 'popleft') else IMM
            if name in self.callee_effects:
                for which, attr in self.callee_effects[name]:
                    tgt = recv if which == 'recv' else (args[which] if isinstance(which, int) and which < len(args) else None)
                    if tgt is not None:
                        base = tgt
                        if attr and attr != '[]' and '.' in attr:
                            # e.g. 'variables.[]': a store into the object held by a field
                            fld, _ = attr.split('.', 1)
                            base = base.fields.get(fld) or AV({('ext', f'{p}.{fld}') for p in base.ext_paths()} or
                                                              (base.elems or {('ext', '?')}))
                            self.record(node, f'callee {name}() writes <arg>.{attr}', base, None)
                        else:
                            self.record(node, f'callee {name}() writes <arg>.{attr}', base, attr if attr != '[]' else None)
            if name in STR_METHODS:
                # methods that only str/bytes have: the result is a new str / list of str
                return AV({('fresh', f'str.{name}@{node.lineno}')}, {('fresh', 'scalar')}, imm=name not in (
                    'split', 'rsplit', 'splitlines', 'partition', 'rpartition'))
            if name in ('items', 'keys', 'values', 'get'):
                return AV(recv.elem_av().origins | ({('ext', p + f'.{name}()') for p in recv.ext_paths()}),
                          recv.elem_av().origins)
            import types as _types
            if isinstance(f.value, ast.Name) and isinstance(self.globs.get(f.value.id), _types.ModuleType) and \
                    f.value.id not in env:
                # a function of an imported module (re.split, math.floor, decimal.localcontext, ...):
                # the result is a new object (T-DEP); arguments are not retained mutably
                el = set()
                for a in allargs:
                    if not a.imm:
                        el |= a.elem_av().origins
                return AV({('fresh', f'{f.value.id}.{name}@{node.lineno}')}, el or None)
            if name and name[:1].isupper():
                # X.ClassName(...): construction of a new object
                el = set()
                for a in allargs:
                    if not a.imm:
                        el |= a.origins
                return AV({('fresh', f'{name}()@{node.lineno}')}, el or None)
            ext = [a for a in [recv] + allargs if not a.imm and not a.is_fresh()]
            if not ext:
                return AV({('fresh', f'call@{node.lineno}')}, set().union(*[a.elem_av().origins for a in [recv] + allargs if not a.imm]) or None)
            return AV({('ext', f'ret:{name}')})
        if isinstance(f, ast.Name):
            if name in ('setattr', 'delattr') and args:
                self.record(node, name, args[0], '<dynamic>')
                return IMM
            if name in FRESH_CALLS:
                el = set()
                for a in allargs:
                    if not a.imm:
                        el |= a.elem_av().origins
                return AV({('fresh', f'{name}@{node.lineno}')}, el)
            if name in PURE_CALLS:
                if name in ('getattr',) and args:
                    return AV({('ext', p + '.<getattr>') for p in args[0].ext_paths()} or {('ext', '?')})
                if name in ('iter', 'next', 'enumerate', 'zip', 'map', 'filter', 'reversed', 'product', 'chain', 'islice', 'zip_longest'):
                    el = set()
                    for a in allargs:
                        if not a.imm:
                            el |= a.elem_av().origins
                    return AV({('fresh', name)}, el) if name != 'next' else AV(el or {('ext', '?')})
                return IMM
            g = self.globs.get(name, getattr(builtins, name, None))
            if name in self.fresh_calls:
                return AV({('fresh', f'{name}()@{node.lineno}')})
            if isinstance(g, type):
                # constructor: a fresh object whose fields may alias the arguments
                el = set()
                for a in allargs:
                    if not a.imm:
                        el |= a.origins
                return AV({('fresh', f'{name}()@{node.lineno}')}, el)
        for a in allargs:
            pass
        ext = [a for a in allargs if not a.imm and not a.is_fresh()]
        if isinstance(f, ast.Name) and f.id in env:
            ext.append(env[f.id])
        return AV({('ext', f'ret:{name or "call"}')}) if ext else AV({('fresh', f'call@{node.lineno}')})

    def _copy_av(self, src: AV) -> AV:
        """copy(x): a fresh object whose unassigned fields alias the fields of x"""
        self.site += 1
        alias = set()
        for k, p in src.origins:
            alias.add(('ext', p + '.<field>') if k == 'ext' else ('ext', '?'))
        av = AV({('fresh', f'copy@{self.site}')}, src.elems)
        # field reads on the copy resolve like on the source
        av.fields = dict(src.fields)
        av_origin_paths = src.ext_paths()
        cv = CopyAV(av.origins, av.elems, av.fields)
        cv.src_paths = av_origin_paths
        return cv

    # -- statements ------------------------------------------------------------------------------
    def bind(self, target, val: AV, env, node):
        if isinstance(target, ast.Name):
            env[target.id] = val
        elif isinstance(target, (ast.Tuple, ast.List)):
            for t in target.elts:
                self.bind(t.value if isinstance(t, ast.Starred) else t, val.elem_av() if not val.imm else IMM, env, node)
        elif isinstance(target, ast.Attribute):
            base = self.ev(target.value, env)
            self.record(node or target, 'attribute store', base, target.attr)
            # strong update when the base is a plain local name
            if isinstance(target.value, ast.Name) and target.value.id in env:
                b = env[target.value.id]
                nb = _copy.copy(b)
                nb.fields = dict(b.fields)
                nb.fields[target.attr] = val
                env[target.value.id] = nb
        elif isinstance(target, ast.Subscript):
            base = self.ev(target.value, env)
            self.ev(target.slice, env)
            self.record(node or target, 'subscript store', base, None)
        elif isinstance(target, ast.Starred):
            self.bind(target.value, val, env, node)

    def block(self, stmts, env):
        for st in stmts:
            self.stmt(st, env)

    def stmt(self, node, env):
        m = getattr(self, 's_' + type(node).__name__, None)
        if m is None:
            for c in ast.iter_child_nodes(node):
                if isinstance(c, ast.expr):
                    self.ev(c, env)
                elif isinstance(c, ast.stmt):
                    self.stmt(c, env)
            return
        m(node, env)

    def s_Assign(self, node, env):
        v = self.ev(node.value, env)
        for t in node.targets:
            self.bind(t, v, env, node)

    def s_AnnAssign(self, node, env):
        if node.value is not None:
            self.bind(node.target, self.ev(node.value, env), env, node)

    def s_AugAssign(self, node, env):
        v = self.ev(node.value, env)
        if isinstance(node.target, ast.Name):
            cur = env.get(node.target.id, UNKNOWN)
            if not cur.imm and not v.imm:
                # `x += [..]` mutates the object x refers to in place (list, set, dict)
                self.record(node, 'augmented assignment (in place on a container)', cur, None)
                env[node.target.id] = AV(cur.origins, (cur.elem_av().origins | v.elem_av().origins), cur.fields)
            elif cur.imm:
                pass     # an immutable scalar stays one: `n += x`, `flags |= re.I`, `s += t` rebind the name
        else:
            base = self.ev(node.target.value, env)
            if isinstance(node.target, ast.Attribute):
                self.record(node, 'augmented attribute store', base, node.target.attr)
            else:
                self.record(node, 'augmented subscript store', base, None)

    def s_Delete(self, node, env):
        for t in node.targets:
            if isinstance(t, ast.Name):
                env.pop(t.id, None)
            elif isinstance(t, ast.Attribute):
                self.record(node, 'del attribute', self.ev(t.value, env), t.attr)
            elif isinstance(t, ast.Subscript):
                self.record(node, 'del subscript', self.ev(t.value, env), None)

    def s_Expr(self, node, env):
        self.ev(node.value, env)

    def s_Return(self, node, env):
        if node.value is not None:
            self.ev(node.value, env)

    def s_Raise(self, node, env):
        self.ev(node.exc, env)

    def s_Assert(self, node, env):
        self.ev(node.test, env)

    def s_If(self, node, env):
        self.ev(node.test, env)
        e1, e2 = dict(env), dict(env)
        # `x is None` / `x is not None` tests: x is the None scalar in one branch
        t = node.test
        if isinstance(t, ast.Compare) and len(t.ops) == 1 and isinstance(t.left, ast.Name) and \
                isinstance(t.comparators[0], ast.Constant) and t.comparators[0].value is None and t.left.id in env:
            if isinstance(t.ops[0], ast.IsNot):
                e2[t.left.id] = IMM
            elif isinstance(t.ops[0], ast.Is):
                e1[t.left.id] = IMM
        self.block(node.body, e1)
        self.block(node.orelse, e2)
        self.merge(env, e1, e2)

    def merge(self, env, e1, e2):
        env.clear()
        for k in set(e1) | set(e2):
            if k in e1 and k in e2:
                env[k] = join(e1[k], e2[k])
            else:
                env[k] = (e1.get(k) or e2.get(k))

    def loop(self, node, env, pre):
        for _ in range(3):          # small fixpoint: the lattice of origins of a function is tiny
            before = {k: (v.origins, v.elems) for k, v in env.items()}
            e1 = dict(env)
            pre(e1)
            n0 = len(self.stores)
            self.block(node.body, e1)
            self.merge(env, dict(env), e1)
            if {k: (v.origins, v.elems) for k, v in env.items()} == before:
                break
            del self.stores[n0:]    # re-analysed in the next round with the joined state
        else:
            e1 = dict(env)
            pre(e1)
            self.block(node.body, e1)
        self.block(node.orelse, env)

    def s_For(self, node, env):
        it = self.ev(node.iter, env)
        self.loop(node, env, lambda e: self.bind(node.target, it.elem_av() if not it.imm else IMM, e, node))

    s_AsyncFor = s_For

    def s_While(self, node, env):
        self.loop(node, env, lambda e: self.ev(node.test, e))

    def s_Try(self, node, env):
        start = dict(env)
        self.block(node.body, env)
        after_body = dict(env)
        outs = [after_body]
        for h in node.handlers:
            eh = {}
            self.merge(eh, dict(start), dict(after_body))     # the exception may come from anywhere in the body
            if h.name:
                eh[h.name] = self.fresh('exc')
            self.block(h.body, eh)
            outs.append(eh)
        e_else = dict(after_body)
        self.block(node.orelse, e_else)
        outs[0] = e_else
        acc = outs[0]
        for o in outs[1:]:
            m = {}
            self.merge(m, acc, o)
            acc = m
        env.clear()
        env.update(acc)
        self.block(node.finalbody, env)

    s_TryStar = s_Try

    def s_With(self, node, env):
        for item in node.items:
            v = self.ev(item.context_expr, env)
            if item.optional_vars is not None:
                self.bind(item.optional_vars, v, env, node)
        self.block(node.body, env)

    s_AsyncWith = s_With

    def s_Match(self, node, env):
        subj = self.ev(node.subject, env)
        outs = []
        for case in node.cases:
            e = dict(env)
            for n in ast.walk(case.pattern):
                if isinstance(n, (ast.MatchAs, ast.MatchStar)) and n.name:
                    e[n.name] = subj if isinstance(n, ast.MatchAs) else subj.elem_av()
            if case.guard is not None:
                self.ev(case.guard, e)
            self.block(case.body, e)
            outs.append(e)
        acc = dict(env)
        for o in outs:
            m = {}
            self.merge(m, acc, o)
            acc = m
        env.clear()
        env.update(acc)

    def s_FunctionDef(self, node, env):
        # nested function: analysed with the enclosing environment (closure); parameters are unknown
        e = dict(env)
        for a in node.args.args + node.args.kwonlyargs + node.args.posonlyargs:
            e[a.arg] = AV({('ext', f'{node.name}:{a.arg}')})
        self.block(node.body, e)
        env[node.name] = self.fresh('function')

    s_AsyncFunctionDef = s_FunctionDef

    def s_Global(self, node, env):
        for n in node.names:
            env[n] = AV({('ext', f'global:{n}')})

    def s_Nonlocal(self, node, env):
        pass

    def s_Pass(self, node, env):
        pass

    s_Break = s_Continue = s_Import = s_ImportFrom = s_Pass

    # -- entry ---------------------------------------------------------------------------------------
    def run(self):
        env = {}
        a = self.fnode.args
        for p in a.posonlyargs + a.args + a.kwonlyargs:
            env[p.arg] = self.fresh(f'param:{p.arg}') if p.arg in self.fresh_params else AV({('ext', p.arg)})
        if a.vararg:
            env[a.vararg.arg] = AV({('fresh', 'varargs')}, {('ext', a.vararg.arg + '[*]')})
        if a.kwarg:
            env[a.kwarg.arg] = AV({('fresh', 'kwargs')}, {('ext', a.kwarg.arg + '[*]')})
        self.block(self.fnode.body, env)
        return self.stores


class CopyAV(AV):
    """copy(x): fresh, but fields that were not re-assigned alias x's fields"""
    __slots__ = ('src_paths',)


_orig_attr = FrameAnalyzer.e_Attribute


def _e_attribute(self, node, env):
    base = self.ev(node.value, env)
    if isinstance(base, CopyAV) and node.attr not in base.fields and node.attr != '__dict__':
        return AV({('ext', f'{p}.{node.attr}') for p in base.src_paths} or {('ext', '?')})
    return _orig_attr(self, node, env)


FrameAnalyzer.e_Attribute = _e_attribute


def check_frame(fn, modifies=(), callee_effects=None, fresh_params=(), fresh_calls=()):
    """Analyse the live function object; returns (Extracted, [Store])."""
    from .extract import extract
    ext = extract(fn)
    fa = FrameAnalyzer(ext.node, ext.globals, modifies, callee_effects=callee_effects, fresh_params=fresh_params,
                       fresh_calls=fresh_calls)
    return ext, fa.run()
