"""Models (assumed contracts, T-DEP / T-RAISE) of Python builtins and stdlib calls."""
from __future__ import annotations

import ast
import decimal
import math
import z3

from .values import *  # noqa
from . import interp as I

NOMODEL = object()


class DecTuple:
    """Marker class for Decimal.as_tuple() results."""


def isinstance_(ex, v, cls):
    """z3 Bool of isinstance(v, cls) evaluated on the real class lattice (T-LATTICE)."""
    classes = []
    for c in (cls.items if isinstance(cls, VTuple) else [cls]):
        if isinstance(c, VNative) and isinstance(c.obj, tuple):
            classes.extend(c.obj)
        elif isinstance(c, VNative):
            classes.append(c.obj)
        elif isinstance(c, VTuple):
            for cc in c.items:
                classes.append(cc.obj)
        else:
            raise OutOfSubset(f'isinstance with {c!r}')
    h = ex.hooks.get('isinstance')
    if h:
        r = h(ex, v, classes)
        if r is not None:
            return r
    if isinstance(v, VItem):
        raise OutOfSubset('isinstance on opaque item')
    if isinstance(v, VItv):
        is_i = any(issubclass(int, c) for c in classes)
        is_t = any(issubclass(tuple, c) for c in classes)
        return z3.Or(z3.And(v.isint, z3.BoolVal(is_i)), z3.And(z3.Not(v.isint), z3.BoolVal(is_t)))
    try:
        rep = v.rep()
    except OutOfSubset:
        # class-level answer only
        return z3.BoolVal(any(issubclass(v.pycls, c) for c in classes))
    return z3.BoolVal(isinstance(rep, tuple(classes)))


def _round_half_even_real(t):
    fl = I.smart_toint(t)
    diff = t - z3.ToReal(fl)
    return z3.If(diff < z3.RealVal('1/2'), fl,
                 z3.If(diff > z3.RealVal('1/2'), fl + 1,
                       z3.If(fl % 2 == 0, fl, fl + 1)))


def function(ex: I.Executor, f, args, kwargs):
    name = getattr(f, '__name__', None)
    from . import specprims
    try:
        sp = specprims.SYMBOLIC.get(f)
    except TypeError:
        sp = None
    if sp is not None:
        return sp(ex, *args)
    if hasattr(f, 'symbolic') and type(f).__name__ == 'OpaqueInt':
        return f.symbolic(ex, *args)
    if f is object.__init__ or f is int.__init__ or f is float.__init__ or f is str.__init__:
        # object.__init__ on an already constructed builtin-subclass instance: no effect, returns None
        if len(args) == 1 and not kwargs:
            return NONE
    if f is isinstance:
        return VBool(isinstance_(ex, args[0], args[1]))
    if f is len:
        v = args[0]
        if isinstance(v, (VTuple, VPyList)):
            return VInt(len(v.items))
        if isinstance(v, VSeq):
            return VInt(v.len)
        if isinstance(v, VStr):
            return VInt(z3.Length(v.t))
        if isinstance(v, I.VDictC):
            return VInt(len(v.d))
        if isinstance(v, VObj):
            h = ex.hooks.get(('len', v.pycls.__name__)) or ex.hooks.get(('len', v.name))
            if h:
                return h(ex, v)
        if isinstance(v, VNative):
            return VInt(len(v.obj))
        if isinstance(v, (VInt, VNone, VBool, VDec, VFloat)):
            ex.raise_py(TypeError)
        raise OutOfSubset(f'len of {v!r}')
    if f is abs:
        return ex.abs_(args[0])
    if f is bool:
        return VBool(ex.truthy(args[0])) if args else VBool(False)
    if f is int:
        if not args:
            return VInt(0)
        v = args[0]
        if len(args) > 1 or kwargs:
            raise OutOfSubset('int with base')
        if isinstance(v, VInt):
            return VInt(v.t)
        if isinstance(v, VBool):
            return VInt(I.bool2int(v.t))
        if isinstance(v, VDec):
            return VInt(I.trunc_real(v.t))
        if isinstance(v, VFloat):
            if ex.branch(v.nan):
                ex.raise_py(ValueError)
            if ex.branch(v.inf != 0):
                ex.raise_py(OverflowError)
            return VInt(I.trunc_real(v.val))
        if isinstance(v, VStr):
            c = v.conc
            if c is not NOTCONC:
                try:
                    return VInt(int(c))
                except ValueError:
                    ex.raise_py(ValueError)
            raise OutOfSubset('int() of a symbolic string')
        if isinstance(v, VNone):
            ex.raise_py(TypeError)
        raise OutOfSubset(f'int of {v!r}')
    if isinstance(f, type) and issubclass(f, float) and f is not float and len(args) == 1 and \
            isinstance(args[0], (VInt, VBool, VDec, VFloat)):
        # a float subclass (xs:float): the double conversion, tagged with the class.
        # Its range/precision clamps are not modelled (A-FP).
        ex.note(f'A-FP: {f.__name__}(x) is modelled as float(x) tagged with the class (single-precision rounding not modelled)')
        v = ex.to_float(args[0])
        return VFloat(v.nan, v.inf, v.val, v.neg, f)
    if f is float:
        if not args:
            return lift(0.0)
        v = args[0]
        if isinstance(v, VStr):
            c = v.conc
            if c is not NOTCONC:
                try:
                    return lift(float(c))
                except ValueError:
                    ex.raise_py(ValueError)
            raise OutOfSubset('float() of a symbolic string')
        if isinstance(v, VNone):
            ex.raise_py(TypeError)
        return ex.to_float(v)
    if f is str:
        if not args:
            return VStr('')
        v = args[0]
        if isinstance(v, VStr):
            return VStr(v.t)
        c = v.conc
        if c is not NOTCONC and isinstance(c, (int, bool, type(None))):
            return VStr(str(c))
        if isinstance(v, (VInt, VBool, VDec, VFloat)):
            s = VStr(ex.fresh('str', z3.StringSort()))
            s.numsrc = v
            return s
        ex.note('str() of an object produces an opaque string')
        return VStr(ex.fresh('str', z3.StringSort()))
    if f is repr:
        return VStr(ex.fresh('repr', z3.StringSort()))
    if f is type:
        if len(args) == 1:
            return VNative(args[0].pycls)
    if f is decimal.Decimal:
        if not args:
            return VDec(0)
        v = args[0]
        if isinstance(v, VDec):
            return v
        if isinstance(v, (VInt, VBool)):
            d = VDec(z3.ToReal(I.as_int_term(v)))
            d.exponent = 0          # Decimal(int) has exponent 0
            return d
        if isinstance(v, VFloat):
            if ex.branch(z3.Not(v.finite())):
                raise OutOfSubset('Decimal(nan/inf)')
            return VDec(v.val, v.neg)
        c = v.conc
        if c is not NOTCONC and isinstance(c, str):
            try:
                d = decimal.Decimal(c)
            except decimal.InvalidOperation:
                ex.raise_py(decimal.InvalidOperation)
            return lift(d)
        raise OutOfSubset(f'Decimal({v!r})')
    if f is math.isfinite:
        v = args[0]
        if isinstance(v, VFloat):
            return VBool(v.finite())
        if isinstance(v, (VInt, VBool)):
            t = I.as_int_term(v)
            if ex.branch(z3.Or(t >= 2 ** 1024, t <= -(2 ** 1024))):
                ex.raise_py(OverflowError)
            return VBool(True)
        if isinstance(v, VDec):
            big = z3.RealVal(2 ** 1024)
            return VBool(z3.And(v.t < big, v.t > -big))
        if isinstance(v, (VStr, VNone, VTuple, VPyList)):
            ex.raise_py(TypeError)
    if f is math.isinf or f is math.isnan:
        v = args[0]
        if isinstance(v, VFloat):
            return VBool(v.inf != 0 if f is math.isinf else v.nan)
        if isinstance(v, (VInt, VBool)):
            # float conversion of an int overflows beyond the double range
            t = I.as_int_term(v)
            if ex.branch(z3.Or(t >= 2 ** 1024, t <= -(2 ** 1024))):
                ex.raise_py(OverflowError)
            return VBool(False)
        if isinstance(v, VDec):
            # Decimal.__float__ never overflows (returns inf): |d| >= ~1.8e308 -> inf
            big = z3.RealVal(2 ** 1024)
            if f is math.isinf:
                return VBool(z3.Or(v.t >= big, v.t <= -big))
            return VBool(False)
        if isinstance(v, (VStr, VNone, VTuple, VPyList)):
            ex.raise_py(TypeError)
        r = _hook(ex, 'math.isinf' if f is math.isinf else 'math.isnan', args)
        if r is not NOMODEL:
            return r
        raise OutOfSubset(f'{name} of {v!r}')
    import typing
    if f is typing.cast:
        return args[1]
    if getattr(f, '__self__', None) is decimal.Decimal and name == 'from_float':
        v = args[0]
        if isinstance(v, (VInt, VBool)):
            return VDec(z3.ToReal(I.as_int_term(v)))
        if isinstance(v, VFloat):
            if ex.branch(z3.Not(v.finite())):
                raise OutOfSubset('Decimal.from_float(nan/inf)')
            return VDec(v.val, v.neg)
    import fractions
    if f is fractions.Fraction:
        if len(args) == 2 and args[0].conc is not NOTCONC and args[1].conc is not NOTCONC:
            fr = fractions.Fraction(args[0].conc, args[1].conc)
            return VFrac(z3.RealVal(f'{fr.numerator}/{fr.denominator}'))
        if len(args) == 1:
            v = args[0]
            if isinstance(v, VFloat):
                if ex.branch(v.nan):
                    ex.raise_py(ValueError)
                if ex.branch(v.inf != 0):
                    ex.raise_py(OverflowError)
                return VFrac(v.val)
            r = I.as_real_term(v)
            if r is not None:
                return VFrac(r)
            if isinstance(v, VNone):
                ex.raise_py(TypeError)
        raise OutOfSubset('Fraction(...)')
    if f is decimal.localcontext:
        return VObj(I.DecimalLocalContext, {'prec': VInt(I.PREC)}, fresh=True)
    if f is math.trunc:
        v = args[0]
        if isinstance(v, VFloat):
            if ex.branch(v.nan):
                ex.raise_py(ValueError)
            if ex.branch(v.inf != 0):
                ex.raise_py(OverflowError)
            return VInt(I.trunc_real(v.val))
        r = I.as_real_term(v)
        if r is not None:
            return VInt(I.trunc_real(r))
    if f is math.floor or f is math.ceil:
        v = args[0]
        r = I.as_real_term(v)
        if isinstance(v, VFloat):
            if ex.branch(v.nan):
                ex.raise_py(ValueError)
            if ex.branch(v.inf != 0):
                ex.raise_py(OverflowError)
            r = v.val
        if r is None:
            raise OutOfSubset(f'{name} of {v!r}')
        fl = I.smart_toint(r)
        return VInt(fl if f is math.floor else z3.If(z3.ToReal(fl) == r, fl, fl + 1))
    if f is math.fmod:
        # C fmod: exact remainder of the truncating division, sign of the dividend;
        # ValueError for an infinite dividend or a zero divisor (T-DEP: C99 7.12.10.1, CPython mathmodule)
        a, b = ex.to_float(args[0]), ex.to_float(args[1])
        if ex.branch(z3.Or(a.nan, b.nan)):
            return VFloat(True, 0, 0, False)
        if ex.branch(z3.Or(a.inf != 0, z3.And(b.inf == 0, b.val == 0))):
            ex.raise_py(ValueError)
        if ex.branch(b.inf != 0):
            return VFloat(False, 0, a.val, a.neg)
        q = I.trunc_real(a.val / b.val)
        return VFloat(False, 0, a.val - b.val * z3.ToReal(q), a.neg)
    if f is math.copysign:
        a, b = ex.to_float(args[0]), ex.to_float(args[1])
        mag = z3.If(a.val >= 0, a.val, -a.val)
        return VFloat(a.nan, z3.If(a.inf != 0, z3.If(b.neg, -1, 1), 0), z3.If(b.neg, -mag, mag), b.neg)
    if f is round:
        v = args[0]
        if len(args) == 1 or isinstance(args[1], VNone):
            if isinstance(v, (VInt, VBool)):
                return VInt(I.as_int_term(v))
            if isinstance(v, VDec):
                return VInt(_round_half_even_real(v.t))
            if isinstance(v, VFloat):
                if ex.branch(v.nan):
                    ex.raise_py(ValueError)
                if ex.branch(v.inf != 0):
                    ex.raise_py(OverflowError)
                return VInt(_round_half_even_real(v.val))
        nd = args[1].conc
        if nd is NOTCONC or not isinstance(nd, int):
            raise OutOfSubset('round with symbolic ndigits')
        if isinstance(v, (VInt, VBool)):
            t = I.as_int_term(v)
            if nd >= 0:
                return VInt(t)
            m = 10 ** (-nd)
            return VInt(_round_half_even_real(z3.ToReal(t) / m) * m)
        if isinstance(v, VDec):
            # Decimal.__round__(n) = quantize(Decimal('1E-n'), ROUND_HALF_EVEN)
            return quantize(ex, v, decimal.Decimal(1).scaleb(-nd), decimal.ROUND_HALF_EVEN)
        if isinstance(v, VFloat):
            if ex.branch(z3.Not(v.finite())):
                return v
            if nd == 0:
                return VFloat(False, 0, z3.ToReal(_round_half_even_real(v.val)), v.neg)
            ex.note('A-FP: round(float, n != 0) is uninterpreted')
            return VFloat(False, 0, ex.fp_unmodelled('round%d' % nd, v.val), v.neg)
        raise OutOfSubset('round with ndigits')
    if f is min or f is max:
        items = args if len(args) > 1 else ex.iter_concrete(args[0])
        if kwargs:
            raise OutOfSubset('min/max with key')
        if not items:
            ex.raise_py(ValueError)
        items = [ex.itv_num(i) for i in items]
        best = items[0]
        for it in items[1:]:
            c = ex.order('<' if f is min else '>', it, best)
            m = ex.merge(c, it, best)
            if m is not None:
                best = m
            elif ex.branch(c):
                best = it
        return best
    if f is slice:
        if len(args) == 1:
            return I.VSlice(None, args[0])
        if len(args) == 2:
            return I.VSlice(args[0], args[1])
        raise OutOfSubset('slice with step')
    if f is range:
        a = [VInt(I.as_int_term(x)) if I.as_int_term(x) is not None else None for x in args]
        if any(x is None for x in a):
            ex.raise_py(TypeError)
        if len(a) == 1:
            return I.VRange(VInt(0), a[0], VInt(1))
        if len(a) == 2:
            return I.VRange(a[0], a[1], VInt(1))
        return I.VRange(a[0], a[1], a[2])
    if f is sum:
        items = ex.iter_concrete(args[0])
        acc = args[1] if len(args) > 1 else VInt(0)
        for it in items:
            acc = ex.arith('+', acc, it)
        return acc
    if f is any or f is all:
        items = ex.iter_concrete(args[0])
        for it in items:
            t = ex.test(it)
            if f is any and t:
                return VBool(True)
            if f is all and not t:
                return VBool(False)
        return VBool(f is all)
    if f is divmod:
        return VTuple([ex.arith('//', args[0], args[1]), ex.arith('%', args[0], args[1])])
    if f is tuple:
        return VTuple(ex.iter_concrete(args[0])) if args else VTuple([])
    if f is list:
        if not args:
            return VPyList([])
        if isinstance(args[0], VSeq):
            s = args[0]
            return VSeq(s.len, s.arr, s.kind)
        return VPyList(ex.iter_concrete(args[0]))
    import operator as _op
    if f in (_op.eq, _op.ne, _op.lt, _op.le, _op.gt, _op.ge) and len(args) == 2:
        node_op = {_op.eq: ast.Eq(), _op.ne: ast.NotEq(), _op.lt: ast.Lt(), _op.le: ast.LtE(), _op.gt: ast.Gt(), _op.ge: ast.GtE()}[f]
        return VBool(ex.compare(node_op, args[0], args[1]))
    if f is iter and len(args) == 1:
        if isinstance(args[0], (VPyList, VTuple)):
            return I.VIter(args[0])
        if isinstance(args[0], VSeq):
            return I.VIter(args[0])
        if isinstance(args[0], I.VIter):
            return args[0]
    if f is next and isinstance(args[0], I.VIter):
        it = args[0]
        if ex.branch(it.pos >= it.seq.len):
            if len(args) > 1:
                return args[1]
            ex.raise_py(StopIteration)
        v = it.seq.get(it.pos)
        it.pos = it.pos + 1
        return v
    if f is reversed and isinstance(args[0], VSeq):
        sq = args[0]
        k = z3.Int('k!rev')
        return VSeq(sq.len, z3.Lambda([k], z3.Select(sq.arr, sq.len - 1 - k)), sq.kind)
    if f is enumerate and isinstance(args[0], VSeq):
        return I.VEnum(args[0], args[1] if len(args) > 1 else kwargs.get('start', VInt(0)))
    if f is reversed and isinstance(args[0], I.VRange) and NOTCONC in (args[0].lo.conc, args[0].hi.conc):
        if args[0].step.conc != 1:
            raise OutOfSubset('reversed symbolic range with step')
        return I.VRange(VInt(args[0].hi.t - 1), VInt(args[0].lo.t - 1), VInt(-1))
    if f is enumerate:
        items = ex.iter_concrete(args[0])
        start = args[1].conc if len(args) > 1 else kwargs['start'].conc if 'start' in kwargs else 0
        return VTuple([VTuple([VInt(start + k), it]) for k, it in enumerate(items)])
    if f is zip:
        cols = [ex.iter_concrete(a) for a in args]
        return VTuple([VTuple(list(r)) for r in zip(*cols)])
    if f is reversed:
        return VTuple(list(reversed(ex.iter_concrete(args[0]))))
    if f is sorted and not kwargs:
        items = ex.iter_concrete(args[0])
        cs = [i.conc for i in items]
        if NOTCONC not in cs:
            return VPyList([lift(x) for x in sorted(cs)])
    if f is ord:
        v = args[0]
        if isinstance(v, VStr):
            if ex.branch(z3.Length(v.t) != 1):
                ex.raise_py(TypeError)
            return VInt(z3.StrToCode(v.t))
    if f is chr:
        t = I.as_int_term(args[0])
        if t is not None:
            if ex.branch(z3.Or(t < 0, t > 0x10FFFF)):
                ex.raise_py(ValueError)
            ex.note('A-STR: chr() beyond the solver alphabet (0x2FFFF) is not distinguished')
            return VStr(z3.StrFromCode(t))
    if f is hasattr:
        c = args[1].conc
        if isinstance(args[0], VObj) and c is not NOTCONC:
            return VBool(c in args[0].fields or hasattr(args[0].pycls, c))
        if isinstance(args[0], VNative) and c is not NOTCONC:
            return VBool(hasattr(args[0].obj, c))
    if f is getattr and len(args) >= 2 and args[1].conc is not NOTCONC:
        try:
            return ex.getattr(args[0], args[1].conc)
        except OutOfSubset:
            if len(args) == 3:
                raise
            raise
    if f is callable:
        if isinstance(args[0], (VFunc, VBound)):
            return VBool(True)
        if isinstance(args[0], VNative):
            return VBool(callable(args[0].obj))
        return VBool(False)
    r = _hook(ex, getattr(f, '__qualname__', None) or name, args, kwargs)
    if r is not NOMODEL:
        return r
    import calendar
    if f in (calendar.isleap, calendar.leapdays):
        # T-DEP: the pure stdlib definitions are interpreted from their own source
        cargs = [a.conc for a in args]
        if NOTCONC in cargs:
            from .extract import spec_ast
            ex.note(f'T-DEP: calendar.{name} interpreted from the stdlib source')
            return ex.call_func(VFunc(spec_ast(f), None, f.__globals__, name), args, kwargs)
    # exception classes: construct the exception value
    if isinstance(f, type) and issubclass(f, BaseException):
        return VExc(f)
    # concrete evaluation of pure calls on fully concrete arguments
    cargs = [a.conc for a in args]
    ckw = {k: v.conc for k, v in kwargs.items()}
    if NOTCONC not in cargs and NOTCONC not in ckw.values() and _pure(f):
        try:
            return I.lift_global(f(*cargs, **ckw))
        except Exception as e:   # the real exception class of the real call
            ex.raise_py(type(e), getattr(e, 'code', None))
    return NOMODEL


def _hook(ex, key, args, kwargs=None):
    h = ex.hooks.get(('fn', key))
    if h:
        return h(ex, args, kwargs or {})
    return NOMODEL


PURE_NAMES = {'float', 'int', 'str', 'Decimal', 'isinstance', 'issubclass', 'isleap', 'leapdays',
              'xpath_error', 'frozenset', 'tuple', 'monthrange'}


def _pure(f) -> bool:
    n = getattr(f, '__name__', '')
    if n in PURE_NAMES:
        return True
    mod = getattr(f, '__module__', '') or ''
    if mod in ('math', 'calendar', 'operator'):
        return True
    return False


def seq_method(ex, l: VSeq, name, args, kwargs):
    k = z3.Int('k!seq')
    if name == 'append':
        ex.store_effect('mutate', l, None)
        l.arr = z3.Store(l.arr, l.len, l.kind.unwrap(ex.norm_item(args[0])))
        l.len = l.len + 1
        return NONE
    if name == 'insert':
        ex.store_effect('mutate', l, None)
        it = I.as_int_term(args[0])
        if it is None:
            ex.raise_py(TypeError)
        # list.insert clamps the index into [0, len]
        pos = z3.If(it < 0, z3.If(it + l.len < 0, 0, it + l.len), z3.If(it > l.len, l.len, it))
        old = l.arr
        l.arr = z3.Lambda([k], z3.If(k < pos, z3.Select(old, k),
                                     z3.If(k == pos, l.kind.unwrap(ex.norm_item(args[1])), z3.Select(old, k - 1))))
        l.len = l.len + 1
        return NONE
    if name == 'copy':
        return VSeq(l.len, l.arr, l.kind, l.pycls)
    if name == 'clear':
        ex.store_effect('mutate', l, None)
        l.len = z3.IntVal(0)
        return NONE
    if name == 'pop' and not args:
        ex.store_effect('mutate', l, None)
        if ex.branch(l.len == 0):
            ex.raise_py(IndexError)
        v = l.get(l.len - 1)
        l.len = l.len - 1
        return v
    return NOMODEL


def seq_delitem(ex, l: VSeq, idx: Val):
    k = z3.Int('k!seq')
    it = I.as_int_term(idx)
    if it is None:
        ex.raise_py(TypeError)
    if ex.branch(z3.Or(it >= l.len, it < -l.len)):
        ex.raise_py(IndexError)
    pos = ex.norm_index(it, l.len)
    old = l.arr
    l.arr = z3.Lambda([k], z3.If(k < pos, z3.Select(old, k), z3.Select(old, k + 1)))
    l.len = l.len - 1


def method(ex: I.Executor, recv: Val, name: str, args, kwargs):
    if isinstance(recv, VSeq):
        r = seq_method(ex, recv, name, args, kwargs)
        if r is not NOMODEL:
            return r
    if isinstance(recv, VStr):
        return str_method(ex, recv, name, args, kwargs)
    if isinstance(recv, VPyList):
        return list_method(ex, recv, name, args, kwargs)
    if isinstance(recv, I.VDictC):
        if name == 'get':
            c = args[0].conc
            if c is NOTCONC:
                raise OutOfSubset('dict.get with symbolic key')
            return recv.d.get(c, args[1] if len(args) > 1 else NONE)
        if name == 'copy':
            return I.VDictC(recv.d, fresh=True)
        if name in ('items', 'keys', 'values'):
            if name == 'items':
                return VTuple([VTuple([lift(k), v]) for k, v in recv.d.items()])
            if name == 'keys':
                return VTuple([lift(k) for k in recv.d])
            return VTuple(list(recv.d.values()))
    if isinstance(recv, VDec):
        if name == 'is_nan' or name == 'is_infinite' or name == 'is_snan' or name == 'is_qnan':
            return VBool(False)
        if name == 'is_finite':
            return VBool(True)
        if name == 'is_zero':
            return VBool(recv.t == 0)
        if name == 'copy_negate' and not args:
            # exact sign change (no rounding to the context precision, unlike unary minus); the sign of a zero is not modelled
            return VDec(-recv.t)
        if name == 'copy_abs' and not args:
            return VDec(z3.If(recv.t >= 0, recv.t, -recv.t))
        if name == 'is_signed':
            ex.note('Decimal negative zero is not modelled (is_signed == value < 0)')
            return VBool(recv.t < 0)
        if name == 'quantize':
            q = args[0].conc
            rounding = kwargs.get('rounding', args[1] if len(args) > 1 else None)
            rmode = rounding.conc if rounding is not None else decimal.ROUND_HALF_EVEN
            if q is NOTCONC or rmode is NOTCONC:
                raise OutOfSubset('quantize with symbolic exponent/rounding')
            return quantize(ex, recv, decimal.Decimal(q), rmode)
        if name == 'adjusted':
            # adjusted() = floor(log10(|x|)): opaque, with the bracketing facts at a few scales
            adj = ex.fresh('adjusted', z3.IntSort())
            ax = z3.If(recv.t >= 0, recv.t, -recv.t)
            for k in (0, 1, 27, 28, 29, 60, 308):
                ex.path.pc.append(z3.And(z3.Implies(z3.And(ax < 10 ** k, ax != 0), adj < k), z3.Implies(ax >= 10 ** k, adj >= k)))
            return VInt(adj)
        if name == 'as_tuple':
            # exponent e of the decimal: value * 10**(-e) is an integer.  Facts are instantiated
            # for the scales -8..8 (enough for the concrete precisions used in contracts).
            if getattr(recv, 'exponent', None) is not None:
                return VObj(DecTuple, {'exponent': VInt(recv.exponent), 'sign': VInt(z3.If(recv.neg, 1, 0))}, fresh=True)
            e = ex.fresh('exponent', z3.IntSort())
            for k in range(-8, 9):
                sc = z3.RealVal(10 ** k) if k >= 0 else z3.RealVal(1) / z3.RealVal(10 ** -k)
                x = recv.t * sc
                ex.path.pc.append(z3.Implies(z3.IntVal(k) >= -e, z3.ToReal(z3.ToInt(x)) == x))
            return VObj(DecTuple, {'exponent': VInt(e), 'sign': VInt(z3.If(recv.neg, 1, 0))}, fresh=True)
        if name == 'scaleb':
            k = args[0].conc
            if k is NOTCONC:
                raise OutOfSubset('scaleb with a symbolic exponent')
            c = recv.conc
            if c is not NOTCONC:
                return lift(c.scaleb(k))
        if name == '__round__' and not args:
            return VInt(_round_half_even_real(recv.t))
    if isinstance(recv, VFloat):
        if name == 'is_integer':
            return VBool(z3.And(recv.finite(), z3.ToReal(z3.ToInt(recv.val)) == recv.val))
    if isinstance(recv, VNative):
        f = getattr(recv.obj, name, None)
        if f is not None:
            return ex.call_native(f, args, kwargs)
    return NOMODEL


def quantize(ex, v: VDec, q: decimal.Decimal, rmode) -> VDec:
    """Decimal.quantize for an exponent given by the concrete q (T-DEP: decimal docs).
    InvalidOperation if the coefficient would exceed the precision."""
    exp = q.as_tuple().exponent
    scale = z3.RealVal(10 ** (-exp)) if exp <= 0 else z3.RealVal(1) / z3.RealVal(10 ** exp)
    x = v.t * scale
    fl = I.smart_toint(x)
    frac = x - z3.ToReal(fl)
    half = z3.RealVal('1/2')
    if rmode == decimal.ROUND_HALF_UP:       # ties away from zero
        if ex.branch(x >= 0):
            n = I.smart_toint(x + half)
        else:
            n = -I.smart_toint(-x + half)
    elif rmode == decimal.ROUND_HALF_DOWN:   # ties toward zero
        if ex.branch(x >= 0):
            n = z3.If(frac > half, fl + 1, fl)
        else:
            fn = I.smart_toint(-x)
            n = -z3.If(-x - z3.ToReal(fn) > half, fn + 1, fn)
    elif rmode == decimal.ROUND_HALF_EVEN:
        n = _round_half_even_real(x)
    elif rmode == decimal.ROUND_FLOOR:
        n = fl
    elif rmode == decimal.ROUND_CEILING:
        n = z3.If(frac == 0, fl, fl + 1)
    elif rmode == decimal.ROUND_DOWN:
        n = I.trunc_real(x)
    elif rmode == decimal.ROUND_UP:
        n = z3.If(frac == 0, fl, z3.If(x >= 0, fl + 1, fl))
    else:
        raise OutOfSubset(f'rounding mode {rmode}')
    if not ex.prec_wide and ex.branch(z3.Or(n >= 10 ** I.PREC, n <= -(10 ** I.PREC))):
        ex.raise_py(decimal.InvalidOperation)
    return VDec(z3.ToReal(n) / scale, v.neg)     # quantize keeps the sign of the operand


def str_method(ex, s: VStr, name, args, kwargs):
    def sarg(k=0):
        a = args[k]
        if not isinstance(a, VStr):
            ex.raise_py(TypeError)
        return a
    if name == 'startswith':
        a = args[0]
        src = getattr(s, 'numsrc', None)
        if src is not None and a.conc == '-':
            if isinstance(src, VFloat):
                return VBool(z3.And(z3.Not(src.nan), src.neg))
            t = I.as_real_term(src)
            ex.note('negative zero of int/Decimal is not modelled in str(x).startswith("-")')
            return VBool(t < 0)
        if isinstance(a, VTuple):
            return VBool(z3.Or([z3.PrefixOf(x.t, s.t) for x in a.items]))
        return VBool(z3.PrefixOf(sarg().t, s.t))
    if name == 'endswith':
        a = args[0]
        if isinstance(a, VTuple):
            return VBool(z3.Or([z3.SuffixOf(x.t, s.t) for x in a.items]))
        return VBool(z3.SuffixOf(sarg().t, s.t))
    if name == 'find' and len(args) == 1:
        return VInt(z3.IndexOf(s.t, sarg().t, 0))
    if name == 'index' and len(args) == 1:
        r = z3.IndexOf(s.t, sarg().t, 0)
        if ex.branch(r < 0):
            ex.raise_py(ValueError)
        return VInt(r)
    if name == 'format':
        ex.note('str.format produces an opaque string (only used for messages)')
        return VStr(ex.fresh('fmt', z3.StringSort()))
    if name == 'join':
        items = ex.iter_concrete(args[0])
        acc = None
        for it in items:
            if not isinstance(it, VStr):
                ex.raise_py(TypeError)
            acc = it.t if acc is None else z3.Concat(acc, s.t, it.t)
        return VStr(acc if acc is not None else z3.StringVal(''))
    c = s.conc
    if c is not NOTCONC:
        cargs = [a.conc for a in args]
        if NOTCONC not in cargs and not kwargs:
            try:
                return I.lift_global(getattr(c, name)(*cargs))
            except Exception as e:
                ex.raise_py(type(e))
    return NOMODEL


def list_method(ex, l: VPyList, name, args, kwargs):
    if name == 'append':
        ex.store_effect('mutate', l, None)
        l.items.append(args[0])
        return NONE
    if name == 'extend':
        ex.store_effect('mutate', l, None)
        l.items.extend(ex.iter_concrete(args[0]))
        return NONE
    if name == 'copy':
        return VPyList(l.items, fresh=True)
    if name == 'pop':
        ex.store_effect('mutate', l, None)
        if not l.items:
            ex.raise_py(IndexError)
        k = args[0].conc if args else -1
        if k is NOTCONC:
            raise OutOfSubset('pop symbolic')
        return l.items.pop(k)
    if name == 'insert':
        ex.store_effect('mutate', l, None)
        k = args[0].conc
        if k is NOTCONC:
            raise OutOfSubset('insert symbolic')
        l.items.insert(k, args[1])
        return NONE
    if name == 'clear':
        ex.store_effect('mutate', l, None)
        l.items.clear()
        return NONE
    return NOMODEL
